#!/venv/bin/python
"""Evaluate seeded property-breaking patches (written by isolated sub-agents) against the checks and file them
under /verif/seeded/<property>-<n>/ (patch.diff, demo.py, meta.json).
usage: eval_seeds.py SRC_DIR [ID ...] [--no-suite] [--extra C01,C02]    SRC_DIR/<ID>/{patch.diff,patch2.diff,demo_<ID>.py,demo2_<ID>.py}
Each patch is applied to a scratch worktree of /repo's HEAD; the native suite and the demo are run (confirmation that the
change passes the existing tests, and that the demo fails with it and passes without it), then the property's own check and any
related checks are run with VERIF_REPO pointing at the worktree."""
import json, os, shutil, subprocess, sys, tempfile, time
VERIF = "/verif"
RELATED = {"C01": ["C12", "C14", "C04", "C11"], "C02": ["C01"], "C04": ["C01", "C11"], "C05": [], "C08": ["C34"], "C09": ["C01", "C14"], "C10": ["C11"],
           "C11": ["C10", "C04"], "C12": ["C01", "C06"], "C13": [], "C14": ["C34"], "C19": ["C18", "C40"], "C20": ["C18"], "C21": ["C17"],
           "C22": ["C26"], "C23": ["C26", "C18"], "C24": ["C25"], "C25": ["C30", "C28"], "C26": ["C23"], "C27": ["C28"], "C28": ["C27", "C25"],
           "C29": ["C31"], "C30": ["C25"], "C31": ["C30"], "C38": [], "C03": [], "C06": ["C01", "C12"], "C07": ["C13"], "C15": ["C35"], "C16": [],
           "C17": ["C21"], "C18": ["C19"], "C32": ["C33", "C34"], "C33": ["C32"], "C34": ["C32"], "C35": ["C15"], "C36": [], "C37": [], "C39": [],
           "C40": ["C19"], "C41": []}
args = sys.argv[1:]
suite = "--no-suite" not in args
own_only = "--own-only" in args          # run the property's own check, plus only the neighbour known to be the one that reports it
skip_done = "--skip-done" in args        # skip seeds whose meta.json was already written by this version against the current HEAD
offset = 0
if "--offset" in args:                   # numbering offset for later waves: patch.diff -> <ID>-<offset+1>
    i = args.index("--offset"); offset = int(args[i + 1]); del args[i:i + 2]
args = [a for a in args if a not in ("--no-suite", "--own-only", "--skip-done")]
SPECIAL = {"C01-2": ["C04", "C11"], "C08-2": ["C34"], "C25-2": ["C28"], "C12-2": ["C06"], "C12-3": ["C06"], "C12-4": ["C09"], "C35-4": ["C40"], "C25-4": ["C28"]}
HEAD = subprocess.check_output(["git", "-C", "/repo", "rev-parse", "--short", "HEAD"], text=True).strip()
src = args[0]
ids = args[1:] or sorted(os.listdir(src))
reg = set(json.load(open(f"{VERIF}/MANIFEST.json"))["checks"][i]["property_id"] for i in range(len(json.load(open(f"{VERIF}/MANIFEST.json"))["checks"])))
for pid in ids:
    for n, (pf, df) in enumerate([("patch.diff", f"demo_{pid}.py"), ("patch2.diff", f"demo2_{pid}.py")], 1 + offset):
        patch = os.path.join(src, pid, pf); demo = os.path.join(src, pid, df)
        if not os.path.exists(patch):
            continue
        out = os.path.join(VERIF, "seeded", f"{pid}-{n}")
        os.makedirs(out, exist_ok=True)
        if skip_done and os.path.exists(os.path.join(out, "meta.json")):
            old = json.load(open(os.path.join(out, "meta.json")))
            if old.get("repo_head") == HEAD and "what_it_needs_to_manifest" in old:
                print(f"{pid}-{n}: already evaluated against {HEAD}", flush=True)
                continue
        shutil.copy(patch, os.path.join(out, "patch.diff"))
        if os.path.exists(demo):
            shutil.copy(demo, os.path.join(out, "demo.py"))
        wt = tempfile.mkdtemp(prefix="evalseed-"); os.rmdir(wt)
        for attempt in range(20):
            if subprocess.run(["git", "-C", "/repo", "worktree", "add", "-q", wt, "HEAD"]).returncode == 0:
                break
            time.sleep(1 + attempt % 5)
        else:
            raise SystemExit("cannot create worktree")
        meta = {"property": pid, "patch": "patch.diff", "demo": "demo.py", "repo_head": subprocess.check_output(["git", "-C", "/repo", "rev-parse", "--short", "HEAD"], text=True).strip(),
                "evaluated_at": time.strftime("%Y-%m-%dT%H:%M:%SZ", time.gmtime()), "ran": [], "checks": {}}
        if os.path.exists(demo):
            import ast
            try:
                doc = ast.get_docstring(ast.parse(open(demo).read())) or ""
            except SyntaxError:
                doc = ""
            meta["what_it_needs_to_manifest"] = " ".join(doc.split())[:900]
        notes = json.load(open(os.path.join(VERIF, "seeded", "NOTES.json"))) if os.path.exists(os.path.join(VERIF, "seeded", "NOTES.json")) else {}
        if f"{pid}-{n}" in notes:
            meta["note"] = notes[f"{pid}-{n}"]
        try:
            r = subprocess.run(["git", "-C", wt, "apply", patch], capture_output=True, text=True)
            meta["applies_to_head"] = r.returncode == 0
            if r.returncode:
                meta["apply_error"] = r.stderr[-300:]
                print(f"{pid}-{n}: patch does not apply to HEAD"); json.dump(meta, open(os.path.join(out, "meta.json"), "w"), indent=1); continue
            meta["files_changed"] = subprocess.check_output(["git", "-C", wt, "diff", "--stat"], text=True).strip().splitlines()[:-1]
            if os.path.exists(demo):
                p = subprocess.run(["/venv/bin/python", demo], env=dict(os.environ, PYTHONPATH=wt), capture_output=True, text=True, cwd=wt, timeout=1800)
                p0 = subprocess.run(["/venv/bin/python", demo], env=dict(os.environ, PYTHONPATH="/repo"), capture_output=True, text=True, cwd="/tmp", timeout=1800)
                meta["demo_with_patch"] = {"exit": p.returncode, "last": (p.stdout.strip().splitlines() or [""])[-1][:300]}
                meta["demo_without_patch"] = {"exit": p0.returncode, "last": (p0.stdout.strip().splitlines() or [""])[-1][:300]}
                meta["ran"].append(f"PYTHONPATH=<worktree with patch> /venv/bin/python demo.py  -> exit {p.returncode};  PYTHONPATH=/repo /venv/bin/python demo.py -> exit {p0.returncode}")
            if suite:
                p = subprocess.run([f"{VERIF}/tools/native_suite.py", wt], capture_output=True, text=True)
                meta["native_suite"] = p.stdout.strip().splitlines()[0] if p.stdout.strip() else p.stderr[-200:]
                meta["ran"].append("tools/native_suite.py <worktree with patch> -> " + meta["native_suite"])
            for c in [pid] + (SPECIAL.get(f"{pid}-{n}", []) if own_only else RELATED.get(pid, [])):
                if c not in reg:
                    meta["checks"][c] = "not-registered"; continue
                p = subprocess.run(["/venv/bin/python", "-m", "mc.run", c, "--tier", "quick", "--no-evidence"], cwd=VERIF,
                                   env=dict(os.environ, VERIF_REPO=wt, MC_WORKERS=os.environ.get("MC_WORKERS", "12")), capture_output=True, text=True)
                viol = [l for l in p.stdout.splitlines() if l.startswith("VIOLATION")]
                first = [l.strip()[:400] for l in p.stdout.splitlines() if l.startswith("  - ")][:2]
                meta["checks"][c] = {"detected": bool(viol), "violation_lines": len(viol), "first": first}
                meta["ran"].append(f"VERIF_REPO=<worktree with patch> /venv/bin/python -m mc.run {c} --tier quick --no-evidence -> exit {p.returncode}")
                print(f"{pid}-{n}: {c} {'DETECTED' if viol else 'missed'}", flush=True)
        finally:
            subprocess.run(["git", "-C", "/repo", "worktree", "remove", "--force", wt])
        json.dump(meta, open(os.path.join(out, "meta.json"), "w"), indent=1)
        print(f"{pid}-{n}: demo {meta.get('demo_with_patch')} / {meta.get('demo_without_patch')} suite={meta.get('native_suite')}", flush=True)
