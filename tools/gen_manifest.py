#!/venv/bin/python
"""Regenerate /verif/MANIFEST.json from the check modules listed in REGISTERED.
A property that has no registered check is listed under not_applicable with the
reason given in NOT_CLAIMED (kept current by hand)."""
import importlib, json, os, sys
VERIF = os.path.dirname(os.path.dirname(os.path.abspath(__file__)))
sys.path.insert(0, VERIF)
from checks.registry import REGISTERED, NOT_CLAIMED

props = [json.loads(l) for l in open(os.path.join(VERIF, "properties.jsonl"))]
checks = []
for pid in REGISTERED:
    m = importlib.import_module("checks." + pid.lower())
    checks.append({
        "property_id": pid,
        "quick_cmd": f"/venv/bin/python -m mc.run {pid} --tier quick",
        "thorough_cmd": f"/venv/bin/python -m mc.run {pid} --tier thorough",
        "evidence_file": f"/verif/evidence/{pid}.json",
        "replay_cmd_template": f"/venv/bin/python -m mc.run {pid} --replay {{path}}",
        "engine": getattr(m, "ENGINE", "E1-enumerator"),
        "level_claimed": {"category": "model_checking",
                          "text": getattr(m, "LEVEL_TEXT", m.__doc__.strip().split("\n\n", 1)[-1].strip()),
                          "design_ref": f"DESIGN.md §4 {pid}"},
        "level_note": getattr(m, "LEVEL_NOTE", "; ".join(getattr(m, "ASSUMPTIONS", [])) or "bounded by the stated alphabet and sizes"),
        "technique": m.TECHNIQUE,
    })
na = []
for p in props:
    if p["id"] not in REGISTERED:
        na.append({"property_id": p["id"], "reason": NOT_CLAIMED.get(p["id"], "no check registered yet (under construction, see DESIGN.md §7a)")})
man = {
    "version": 1,
    "setup_cmd": "/venv/bin/python -c \"import sys; sys.path.insert(0,'/repo'); import hy, funcparserlib; print('hy importable from /repo; framework is pure Python, nothing to build')\"",
    "hooks": {"guard": "HY_VERIF", "enable": "no source hooks are needed: checks import hy from /repo's working tree via PYTHONPATH (VERIF_REPO) with a fresh bytecode-cache prefix; HY_VERIF=1 is exported by the runner but nothing in /repo reads it",
              "baseline_off_cmd": "cd /repo && /venv/bin/python -m pytest -ra -q -p no:cacheprovider --timeout=900 --continue-on-collection-errors",
              "source_commits": [], "add_only": True},
    "engines": [
        {"name": "E1-enumerator", "path": "mc/enumer.py", "kind_free_text": "exhaustive string/term/context enumeration against reference models, hand-written",
         "serves_properties": [c["property_id"] for c in checks if c["engine"] == "E1-enumerator"]},
        {"name": "E2-history", "path": "mc/hist.py", "kind_free_text": "explicit-state BFS over operation histories on the real object with fault plans, hand-written",
         "serves_properties": [c["property_id"] for c in checks if c["engine"] == "E2-history"]},
        {"name": "E3-scheduler", "path": "mc/sched.py", "kind_free_text": "stateless CHESS-style preemption-bounded schedule exploration of real threads, hand-written",
         "serves_properties": [c["property_id"] for c in checks if c["engine"] == "E3-scheduler"]},
    ],
    "checks": checks,
    "not_applicable": na,
    "notes": "Runner: mc/run.py (see DESIGN.md §2). known_findings.json lists genuine defects (known / fixed). seeded/ holds independently written property-breaking changes used to test detection.",
}
json.dump(man, open(os.path.join(VERIF, "MANIFEST.json"), "w"), indent=1)
print(f"MANIFEST.json: {len(checks)} checks, {len(na)} not_applicable")
