#!/venv/bin/python
"""Run the repository's pinned test suite (command from /root/.vp/BASELINE.json)
on a tree (default /repo) and compare with the 584 stable-pass tests.
usage: native_suite.py [REPO_DIR]   exit 0 iff every baseline stable-pass test passes."""
import json, os, subprocess, sys, tempfile, xml.etree.ElementTree as ET
repo = sys.argv[1] if len(sys.argv) > 1 else "/repo"
base = json.load(open("/root/.vp/BASELINE.json"))
stable = set(base["stable_pass"])
fd, xmlp = tempfile.mkstemp(suffix=".xml"); os.close(fd)
env = dict(os.environ)
env["PYTHONPATH"] = repo
env.pop("HY_VERIF", None)
p = subprocess.run(["/venv/bin/python", "-m", "pytest", "-ra", "-q", "-p", "no:cacheprovider", "--timeout=900",
                    "--continue-on-collection-errors", f"--junitxml={xmlp}"], cwd=repo, env=env,
                   capture_output=True, text=True)
passed = set()
for tc in ET.parse(xmlp).getroot().iter("testcase"):
    if not any(ch.tag in ("failure", "error", "skipped") for ch in tc):
        passed.add(f"{tc.get('classname')}::{tc.get('name')}")
os.unlink(xmlp)
missing = sorted(stable - passed)
print(f"baseline stable={len(stable)} passed_now={len(passed)} baseline_missing={len(missing)}")
for m in missing[:40]:
    print("  MISSING", m)
print(p.stdout.strip().splitlines()[-1] if p.stdout.strip() else p.stderr[-500:])
sys.exit(1 if missing else 0)
