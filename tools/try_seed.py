#!/venv/bin/python
"""Apply a seeded patch to a scratch worktree of /repo's HEAD and run checks against it.
usage: try_seed.py PATCH [--demo DEMO.py] [--suite] [--tier quick] CHECK_ID...
Prints, per check, whether it reported a VIOLATION (detected) or stayed silent (missed)."""
import argparse, os, subprocess, sys, shutil, tempfile
ap = argparse.ArgumentParser()
ap.add_argument("patch"); ap.add_argument("checks", nargs="*")
ap.add_argument("--demo"); ap.add_argument("--suite", action="store_true"); ap.add_argument("--tier", default="quick")
ap.add_argument("--workers", default="16")
a = ap.parse_args()
wt = tempfile.mkdtemp(prefix="tryseed-")
os.rmdir(wt)
subprocess.run(["git", "-C", "/repo", "worktree", "add", "-q", wt, "HEAD"], check=True)
try:
    r = subprocess.run(["git", "-C", wt, "apply", os.path.abspath(a.patch)], capture_output=True, text=True)
    if r.returncode:
        print("PATCH DOES NOT APPLY:", r.stderr[-500:]); sys.exit(2)
    env = dict(os.environ, PYTHONPATH=wt)
    if a.demo:
        p = subprocess.run(["/venv/bin/python", os.path.abspath(a.demo)], env=env, capture_output=True, text=True, cwd=wt)
        print(f"demo with patch: exit={p.returncode} {p.stdout.strip().splitlines()[-1:] }")
        p0 = subprocess.run(["/venv/bin/python", os.path.abspath(a.demo)], env=dict(os.environ, PYTHONPATH="/repo"), capture_output=True, text=True, cwd="/tmp")
        print(f"demo without patch: exit={p0.returncode} {p0.stdout.strip().splitlines()[-1:]}")
    if a.suite:
        p = subprocess.run(["/verif/tools/native_suite.py", wt], capture_output=True, text=True)
        print("native suite:", p.stdout.strip().splitlines()[0])
    for c in a.checks:
        p = subprocess.run(["/venv/bin/python", "-m", "mc.run", c, "--tier", a.tier, "--no-evidence"], cwd="/verif",
                           env=dict(os.environ, VERIF_REPO=wt, MC_WORKERS=a.workers), capture_output=True, text=True)
        viol = [l for l in p.stdout.splitlines() if l.startswith("VIOLATION")]
        first = [l for l in p.stdout.splitlines() if l.startswith("  - ")][:2]
        print(f"{c}: {'DETECTED' if viol else 'missed'} (exit {p.returncode}, {len(viol)} violation lines)")
        for l in first: print("   ", l[:300])
finally:
    subprocess.run(["git", "-C", "/repo", "worktree", "remove", "--force", wt])
