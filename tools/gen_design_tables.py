#!/venv/bin/python
"""Regenerate the generated parts of DESIGN.md:
  <!-- BEGIN GENERATED findings --> ... <!-- END GENERATED findings -->   from known_findings.json
  <!-- BEGIN GENERATED seeded -->   ... <!-- END GENERATED seeded -->     from seeded/*/meta.json (+ seeded/STRENGTHENED.json)
usage: gen_design_tables.py        (rewrites /verif/DESIGN.md in place)"""
import glob
import json
import os
import re

VERIF = os.path.dirname(os.path.dirname(os.path.abspath(__file__)))


def esc(s):
    return " ".join(str(s).split()).replace("|", "\\|")


def findings_md():
    ents = json.load(open(os.path.join(VERIF, "known_findings.json")))["findings"]
    fixed = [e for e in ents if e["status"] == "fixed"]
    known = [e for e in ents if e["status"] == "known"]
    out = [f"### Fixed ({len(fixed)} entries, {len({e['commit'] for e in fixed})} commits)", "",
           "| property | commit | what failed |", "|---|---|---|"]
    for e in fixed:
        what = re.sub(r"^fixed: property=\S+ \S+ ", "", e["what"])
        out.append(f"| {e['property']} | {e['commit']} | {esc(what)} |")
    out += ["", f"### Known, not repaired ({len(known)})", "", "| property | id | what fails (and why it is not repaired) | matcher |", "|---|---|---|---|"]
    for e in known:
        m = "; ".join(f"{k} ~ `{v}`" for k, v in e["match"].items())
        out.append(f"| {e['property']} | {e['id']} | {esc(e['what'])} | {esc(m)} |")
    return "\n".join(out) + "\n"


def seeded_md():
    stren = {}
    p = os.path.join(VERIF, "seeded", "STRENGTHENED.json")
    if os.path.exists(p):
        stren = json.load(open(p))
    rows = []
    for mp in sorted(glob.glob(os.path.join(VERIF, "seeded", "*", "meta.json"))):
        sid = os.path.basename(os.path.dirname(mp))
        m = json.load(open(mp))
        if not m.get("applies_to_head", True):
            rows.append((sid, "— (patch does not apply to the repaired tree)", "", m.get("note", ""), ""))
            continue
        det = [c for c, r in m.get("checks", {}).items() if isinstance(r, dict) and r.get("detected")]
        miss = [c for c, r in m.get("checks", {}).items() if isinstance(r, dict) and not r.get("detected")]
        files = ", ".join(f.split("|")[0].strip() for f in m.get("files_changed", []))
        demo = m.get("demo_with_patch", {}).get("exit"), m.get("demo_without_patch", {}).get("exit")
        conf = []
        if m.get("native_suite"):
            mm = re.search(r"baseline_missing=(\d+)", m["native_suite"])
            conf.append("suite passes" if mm and mm.group(1) == "0" else "suite: " + m["native_suite"])
        conf.append(f"demo exit {demo[0]} with / {demo[1]} without")
        rows.append((sid, ", ".join(det) or "**none**", ", ".join(miss), files + ("; " + m["note"] if m.get("note") else ""),
                     "; ".join(conf), stren.get(sid, "")))
    out = ["| seeded change | detected by (quick tier) | also run, silent | files changed / note | confirmation | check strengthened because of it |",
           "|---|---|---|---|---|---|"]
    for r in rows:
        r = list(r) + [""] * (6 - len(r))
        out.append("| " + " | ".join(esc(x) for x in r) + " |")
    n = len(rows)
    nd = sum(1 for r in rows if not r[1].startswith("**none") and not r[1].startswith("—"))
    out.append("")
    out.append(f"{nd} of {n} seeded changes are reported by at least one registered check at the quick tier.")
    return "\n".join(out) + "\n"


def main():
    path = os.path.join(VERIF, "DESIGN.md")
    s = open(path).read()
    for name, fn in (("findings", findings_md), ("seeded", seeded_md)):
        a, b = f"<!-- BEGIN GENERATED {name} -->", f"<!-- END GENERATED {name} -->"
        if a in s and b in s:
            s = s[:s.index(a) + len(a)] + "\n" + fn() + s[s.index(b):]
    open(path, "w").write(s)


if __name__ == "__main__":
    main()
