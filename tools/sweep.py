#!/venv/bin/python
"""Run one tier of every registered check in turn and summarise.
usage: sweep.py TIER OUTDIR [--seed N] [--cap SECONDS] [--no-evidence] [ID ...]"""
import json, os, subprocess, sys, time
VERIF = os.path.dirname(os.path.dirname(os.path.abspath(__file__)))
args = sys.argv[1:]
def opt(name, default=None):
    if name in args:
        i = args.index(name); v = args[i + 1]; del args[i:i + 2]; return v
    return default
seed = opt("--seed", "0"); cap = opt("--cap")
noev = "--no-evidence" in args
args = [a for a in args if a != "--no-evidence"]
tier, outdir = args[0], args[1]
sys.path.insert(0, VERIF)
from checks.registry import REGISTERED
ids = args[2:] or list(REGISTERED)
os.makedirs(outdir, exist_ok=True)
summary = []
for cid in ids:
    env = dict(os.environ, VERIF_SEED=seed, VERIF_TIER=tier)
    if cap:
        env["MC_TIME_CAP"] = cap
    t0 = time.time()
    p = subprocess.run(["/venv/bin/python", "-m", "mc.run", cid, "--tier", tier] + (["--no-evidence"] if noev else []), cwd=VERIF, env=env,
                       capture_output=True, text=True)
    open(os.path.join(outdir, f"{cid}.log"), "w").write(p.stdout + "\n--- stderr\n" + p.stderr)
    lines = p.stdout.splitlines()
    head = next((l for l in lines if l.startswith(f"[{cid}]")), "")
    rec = dict(id=cid, exit=p.returncode, wall=round(time.time() - t0, 1), violations=sum(l.startswith("VIOLATION") for l in lines),
               known=sum(l.startswith("KNOWN-FINDING") for l in lines), flaky=sum("FLAKY" in l for l in lines), head=head[:300])
    summary.append(rec)
    print(json.dumps(rec), flush=True)
json.dump(summary, open(os.path.join(outdir, "summary.json"), "w"), indent=1)
bad = [r for r in summary if r["exit"] or r["violations"] or r["flaky"]]
print("BAD:", [r["id"] for r in bad])
