"""C34  A Hy name means the same Python identifier in every construct.

Space: every construct template of mc/ref/mg_constructs.py (setv, setx, for,
lfor, with, del, annotated setv, defn, defclass, deftype, parameters of every
kind + keyword arguments, (. o s) / o.s / (.s o) / (o.s) / (. o (s)),
import :as / from-import / import of a module, defmacro (module and local) +
call, require, export, (:s obj), global, nonlocal, let, except variable, match
capture / :as / star / mapping-rest / class keyword pattern) instantiated with
every name of the alphabet (unary templates) and every ordered pair of names,
diagonal included (binary templates: bind through s, read through t).
Oracle: the binding made through s is found by Python reflection under exactly
hy.mangle(s), and is visible through t iff hy.mangle(s) == hy.mangle(t).
"""
from mc import enumer
from mc.util import Acc
from mc.ref import mg_constructs as K

ID = "C34"
TECHNIQUE = ("bounded exhaustive enumeration of construct-template x name x name programs, each compiled and executed by the real "
             "compiler in a fresh module; oracle = the property (identifier is hy.mangle(name); shared binding iff equal manglings)")
LEVEL_TEXT = ("Every construct that takes a name is instantiated with every name of the alphabet and with every ordered pair of "
              "names; each program is compiled and run, and the result, the set of new module globals and construct-specific "
              "reflection (co_varnames, vars(obj), kwargs keys, _hy_macros, __annotations__, __all__) are compared with what "
              "hy.mangle predicts. A construct that forgets to mangle, mangles twice, or mangles differently from the others is "
              "found for every name class in the alphabet, because only names that mangling changes can tell.")
RULE = ("a case is one (template, s, t) triple (t = s for unary templates), all distinct; non-trivial = hy.mangle changes s or t "
        "(otherwise a missing or doubled mangle call is invisible); outcome classes = relation of the two manglings x observed sharing")
ASSUMPTIONS = [
    "names: the listed alphabet only (all readable as one Hy symbol / keyword; none collides with a core macro, a builtin or a harness name zz*)",
    "hy.mangle itself is taken as given here (C32 checks it against the documentation)",
    "a repeated keyword argument (two names with equal manglings in one call) is expected to be rejected with a SyntaxError, as in Python",
    "let and except variables: only sharing is judged, not the Python identifier (both are renamed, scoped temporaries by design)",
    "(template, name) combinations whose text does not read as the construct (e.g. '._1' is the float 0.1, not a method call) are "
    "counted unspecified and not run",
    "class bodies are not used as binding sites (Python's own __private name mangling would interfere)",
]
TIME_CAP = {"quick": 600, "thorough": 3600}


def bounds(tier):
    ns = K.names(tier)
    return {"names": ns, "n_names": len(ns),
            "templates_binary": [t.name for t in K.TEMPLATES if not t.unary],
            "templates_unary": [t.name for t in K.TEMPLATES if t.unary]}


def shards(tier):
    n = len(K.names(tier))
    out = []
    for t in K.TEMPLATES:
        if t.unary:
            out.append([t.name, 0, n])
        else:
            for lo, hi in enumer.chunk(n, max(1, n // 5)):
                out.append([t.name, lo, hi])
    return out


def _selfcheck(names):
    import hy
    import hy.models as M
    for nm in names:
        f = list(hy.read_many(nm))
        assert len(f) == 1 and type(f[0]) is M.Symbol and str(f[0]) == nm, ("harness: not one symbol", ascii(nm))
        f = list(hy.read_many(":" + nm))
        assert len(f) == 1 and type(f[0]) is M.Keyword and f[0].name == nm, ("harness: not one keyword", ascii(nm))
        assert not hy.mangle(nm).startswith("zz")


def _one(acc, tpl, s, t, allm):
    import hy
    if tpl.applicable is not None and not tpl.applicable(s, t):
        acc.states += 1
        acc.unspecified += 1
        acc.outcome("not-applicable:text-does-not-read-as-this-construct")
        return
    text, ms, mt, obs, exp = K.run_case(tpl, s, t, allm)
    acc.states += 1
    acc.transitions += text.count("\n") + 1
    acc.traces += 1
    acc.evaluations += 1
    if ms != s or mt != t:
        acc.nontrivial += 1
    rel = "same-name" if s == t else ("equal-manglings" if ms == mt else "distinct-manglings")
    acc.count("tpl:" + tpl.name)
    res_eq = K.jsonable(tpl.res(ms, mt, True))
    res_ne = K.jsonable(tpl.res(ms, mt, False))
    if "error_detail" in obs:
        ocls = "error:" + obs["res"][1]
    elif tpl.unary:
        ocls = "found-under-mangle(s)" if obs["res"] == res_eq else "other"
    else:
        ocls = "shared" if obs["res"] == res_eq else "separate" if obs["res"] == res_ne else "other"
    acc.outcome(rel + ":" + ocls)
    case = {"k": tpl.name, "s": s, "t": t}
    bad = [k for k in exp if obs.get(k) != exp[k]]
    if bad:
        k = bad[0]
        exc = obs["res"][1] if "error_detail" in obs else "-"
        if k == "res":
            kind = ("program-error" if exc != "-" else
                    "binding-not-shared-although-manglings-equal" if ms == mt else
                    "binding-shared-although-manglings-differ" if obs["res"] == res_eq else "wrong-result")
        else:
            kind = "bound-under-wrong-identifier"
        detail = "program:\n%s\nmangle(s)=%s mangle(t)=%s; %s: expected %s, observed %s%s" % (
            ascii(text), ascii(ms), ascii(mt), k, ascii(exp[k]), ascii(obs.get(k)),
            ("; " + obs["error_detail"]) if "error_detail" in obs else "")
        acc.disagree(kind, case, detail,
                     sig="%s:%s:%s:%s:%s" % (tpl.name, kind, k, exc, rel),
                     construct=tpl.name, mismatch=k, exc=exc, relation=rel,
                     s_mangle_changes="yes" if ms != s else "no",
                     t_mangle_changes="yes" if mt != t else "no")


def run_shard(shard, tier):
    import hy
    names = K.names(tier)
    _selfcheck(names)
    allm = sorted({hy.mangle(n) for n in names})
    tname, lo, hi = shard
    tpl = K.BY_NAME[tname]
    acc = Acc()
    for i in range(lo, hi):
        s = names[i]
        for t in ([s] if tpl.unary else names):
            _one(acc, tpl, s, t, allm)
        acc.sample({"template": tname, "program": tpl.prog(s, names[(i + 3) % len(names)])})
    return acc.result()


def recheck(case, tier):
    import hy
    names = K.names("thorough")
    allm = sorted({hy.mangle(n) for n in names})
    acc = Acc()
    _one(acc, K.BY_NAME[case["k"]], case["s"], case["t"], allm)
    return acc.disagreements


def snippet(d):
    c = d["case"]
    tpl = K.BY_NAME[c["k"]]
    exp = str(d.get("detail")).split("; ", 1)[-1]
    return ("# C34, construct %s: bind through s, read through t\n"
            "import hy, types\nfrom hy.compiler import hy_compile\n"
            "s, t = %s, %s\nms, mt = hy.mangle(s), hy.mangle(t)\n"
            "mod = types.ModuleType('m')\n%s\n"
            "text = %s\n"
            "exec(compile(hy_compile(hy.read_many(text), mod), '<c34>', 'exec'), mod.__dict__)\n"
            "print('mangle(s) =', ascii(ms), ' mangle(t) =', ascii(mt), ' zzres =', ascii(mod.__dict__.get('zzres')))\n"
            "# %s\n"
            % (c["k"], ascii(c["s"]), ascii(c["t"]), K.SNIPPET_SETUP.get(c["k"], "pass"),
               ascii(tpl.prog(c["s"], c["t"])), exp.replace("\n", " ")))
