"""C27  hy.repr round-trips values of the documented types.

Space (trees): every leaf of a 58-value pool (None, bools, ints incl. 10**30,
floats incl. -0.0 / inf / nan / 5e-324 / 1e22, complex incl. nan / inf / every
signed-zero pattern, str with quotes / backslash / control / non-ASCII / lone
surrogate, bytes, bytearray, keywords incl. the empty one, Fraction, every
range shape, every None-pattern of slice); every container kind (list, tuple,
deque, set, frozenset, dict, OrderedDict, Counter, defaultdict(None|list|int),
ChainMap, slice) x 0..2 children over all leaves; every kind around every
depth-1 value over a reduced pool (depth 2; depth 3 in the thorough tier).
Space (graphs): every object graph of <= 3 container nodes (list, dict, deque,
OrderedDict, defaultdict, Counter, ChainMap, tuple) with shared and
self-referential edges.

Oracle (trees): y = hy.eval(hy.read(hy.repr(x))) with the collection type
names bound; type(y) is type(x) at every node and y equals x (NaN-aware,
signed-zero-aware, OrderedDict order-aware, default_factory identical).
Oracle (graphs): hy.repr terminates without error and its text is the text of
the acyclic twin with each back-reference replaced by the documented
placeholder ("..." or the container's own: [...], {...}, (deque [...])); a
shared but acyclic substructure prints in full and round-trips.
"""
import re

from mc import enumer
from mc.util import Acc, time_limit, CaseTimeout
from mc.ref import pr_values as V
from mc.ref import pr_models as P

ID = "C27"
TECHNIQUE = ("bounded exhaustive enumeration of nested values (all kinds x all leaves, depth <= d) and of all small object graphs; "
             "round trip through the real hy.repr -> hy.read -> hy.eval compared with a strict structural comparer; "
             "self-reference compared with an acyclic twin")
LEVEL_TEXT = ("Every value of the bounded space is printed by the real hy.repr, re-read, evaluated and compared type-strictly at "
              "every node; every graph of up to three mutually referencing containers is printed under a watchdog and compared "
              "with the placeholder-substituted print of its acyclic twin. Exhaustive within the bound.")
RULE = ("one case per distinct value spec per shard (the parts are disjoint by construction); non-trivial (trees) = the value "
        "has a container node or a leaf whose Hy notation differs from int/None/bool notation; non-trivial (graphs) = the graph "
        "has a cycle or a node referenced twice; outcome classes = ok:<kind> / first failing stage")
ASSUMPTIONS = [
    "values over the listed leaves and container kinds only; nesting bound as stated",
    "the names Fraction, deque, OrderedDict, Counter, defaultdict, ChainMap are bound when the printed text is evaluated",
    "plain dict / Counter / defaultdict insertion order is not demanded (== ignores it): an order-only difference is counted, not reported; OrderedDict order is demanded",
    "deque maxlen, and Counter values other than ints, are outside the space (not in the statement)",
    "slice is kept out of sets / dict keys (hashable only from Python 3.12)",
    "placeholders: the documented default '...' is accepted for every type; '[...]', '{...}', '(deque [...])' are accepted for list, dict, deque",
    "watchdog: 10 s per hy.repr / read / eval counts as non-termination",
]
TIME_CAP = {"quick": 900, "thorough": 3600}
STEP = {"quick": {"A": 700, "B": 16}, "thorough": {"A": 700, "B2": 8, "C": 30, "D": 60}}
GSTEP = 400


def bounds(tier):
    b = V.tree_bounds(tier)
    b["graphs"] = {"node_types": list(V.GRAPH_TYPES), "max_nodes": 3,
                   "children": "k<=2: every child list of length 1..2 over {leaf, node refs}; k=3: [r], [leaf r], [r leaf], [leaf]"
                               + (" (k=3 over list/dict/deque/OrderedDict/tuple only)" if tier == "quick" else "")}
    return b


def _shards_main(tier):
    out = []
    for nm, n in V.parts(tier):
        st = STEP[tier][nm]
        for lo in range(0, n, st):
            out.append(["tree", nm, lo, min(n, lo + st)])
    ng = len(V.graphs(tier))
    for lo in range(0, ng, GSTEP):
        out.append(["graph", lo, min(ng, lo + GSTEP)])
    return out


def _ns():
    import collections
    import fractions
    return dict(Fraction=fractions.Fraction, deque=collections.deque, OrderedDict=collections.OrderedDict,
                Counter=collections.Counter, defaultdict=collections.defaultdict, ChainMap=collections.ChainMap)


def _mod():
    import types
    return types.ModuleType("pr_c27_case")


def _repr(x):
    import hy
    try:
        with time_limit(10):
            t = hy.repr(x)
    except CaseTimeout:
        return None, dict(kind="repr-nontermination", detail="hy.repr did not return within 10 s")
    except RecursionError as e:
        return None, dict(kind="repr-raises", exc="RecursionError", detail="RecursionError: " + str(e)[:100])
    except Exception as e:
        return None, dict(kind="repr-raises", exc=type(e).__name__, detail=f"{type(e).__name__}: {e}"[:300])
    if type(t) is not str:
        return None, dict(kind="repr-not-a-string", detail=repr(t)[:200])
    return t, None


def roundtrip(x, reference, notes):
    """x: the value to print; reference: a structurally equal fresh value to
    compare against.  None if the property holds."""
    import hy
    t, err = _repr(x)
    if err:
        return err
    try:
        with time_limit(10):
            forms = list(hy.read_many(t))
    except CaseTimeout:
        return dict(kind="reread-nontermination", text=t, detail="reader did not return within 10 s")
    except BaseException as e:
        return dict(kind="repr-unreadable", text=t, exc=type(e).__name__,
                    detail=f"hy.repr gave {t!r}; reading it raises {type(e).__name__}: {getattr(e, 'msg', e)}"[:400])
    if not forms:
        return dict(kind="repr-unreadable", text=t, exc="no-form", detail=f"hy.repr gave {t!r}, which contains no form")
    try:
        with time_limit(10):
            y = hy.eval(forms[0], locals=_ns(), module=_mod())
    except CaseTimeout:
        return dict(kind="reread-eval-nontermination", text=t, detail="hy.eval did not return within 10 s")
    except BaseException as e:
        return dict(kind="reread-eval-raises", text=t, exc=type(e).__name__,
                    detail=f"hy.repr gave {t!r}; evaluating its reading raises {type(e).__name__}: {e}"[:400])
    d = V.val_diff(reference, y, notes=notes)
    if d is not None:
        return dict(kind=f"roundtrip-{d['field']}-differs", text=t, field=d["field"], node=d["node"],
                    path="/".join(map(str, d["path"])),
                    detail=f"hy.repr gave {t!r}; its value differs at path {d['path']} ({d['node']}.{d['field']}): "
                           f"original {d['a']}, re-read {d['b']}"[:500])
    if len(forms) > 1:
        return dict(kind="repr-has-trailing-forms", text=t, detail=f"hy.repr gave {t!r}, which reads as {len(forms)} forms")
    if V.val_diff(reference, x) is not None:
        return dict(kind="repr-mutated-its-argument", text=t, detail="the printed value changed while it was printed")
    return None


def observe_spec(spec, notes=None):
    return roundtrip(V.build(spec), V.build(spec), notes)


def culprit_spec(spec, obs):
    depth = 0
    while depth < 8:
        depth += 1
        for c in V.kids(spec):
            o = observe_spec(c)
            if o is not None:
                spec, obs = c, o
                break
        else:
            break
    return spec, obs


def spec_classes(spec):
    out = []
    if spec[0] == "ddict" and spec[1] is not None:
        out.append("defaultdict-builtin-factory")
    if spec[0] == "slice" and any(p[0] == "kw" for p in spec[1:4]):
        out.append("slice-with-keyword-part")
    return out


def _nontrivial(spec):
    return spec[0] not in ("none", "bool", "int")


def check_tree(acc, spec):
    case = {"value": spec}
    acc.states += 1
    acc.transitions += V.size(spec)
    acc.traces += 1
    acc.evaluations += 1
    for s in V.walk(spec):
        acc.count("node:" + V.type_name(s))
    if _nontrivial(spec):
        acc.nontrivial += 1
    notes = []
    obs = observe_spec(spec, notes)
    P.check_state(acc, case, "C27 round trip")
    for n in set(notes):
        acc.count("not-demanded-difference:" + n)
    if obs is None:
        acc.outcome("ok:" + V.type_name(spec))
        return
    cs, cobs = culprit_spec(spec, obs)
    P.check_state(acc, case, "C27 culprit search")
    ccls = "+".join(spec_classes(cs))
    cname = V.type_name(cs)
    acc.outcome(obs["kind"])
    acc.count("culprit-class:" + (ccls or "unclassified"))
    fields = {k: str(v) for k, v in obs.items() if k not in ("kind", "detail")}
    fields.update(culprit=cname, culprit_class=ccls or "unclassified", culprit_kind=cobs["kind"],
                  culprit_repr=cobs.get("text", ""), culprit_exc=cobs.get("exc", ""))
    acc.disagree(obs["kind"], case, obs["detail"] + f"  [minimal failing sub-value {cname}: {cobs['detail']}]"[:500],
                 sig=(ccls if ccls else f"{cobs['kind']}|{cname}|{cobs.get('exc', '')}"), **fields)


def check_graph(acc, g):
    import hy
    case = {"graph": g}
    cyclic = V.is_cyclic(g)
    indeg = {}
    for t, ch in g:
        for c in ch:
            if c != V.LEAF:
                indeg[c] = indeg.get(c, 0) + 1
    acc.states += 1
    acc.transitions += sum(1 + len(ch) for _, ch in g)
    acc.traces += 1
    acc.evaluations += 1
    if cyclic or any(v > 1 for v in indeg.values()):
        acc.nontrivial += 1
    for t, _ in g:
        acc.count("graph-node:" + t)
    shape = "cyclic" if cyclic else "acyclic"
    root = g[0][0]

    def bad(kind, detail, **kw):
        acc.outcome(kind)
        acc.disagree(kind, case, detail, sig=f"{kind}|{root}", root=root, shape=shape, **{k: str(v) for k, v in kw.items()})

    x = V.build_graph(g)
    twin = V.build_twin(g)
    t, err = _repr(x)
    ok_state = P.check_state(acc, case, "C27 graph print")
    if err:
        kind = ("selfref-" if cyclic else "shared-") + err["kind"]
        return bad(kind, err["detail"], exc=err.get("exc", ""))
    t2, err2 = _repr(twin)
    if err2:
        return bad("twin-" + err2["kind"], err2["detail"], exc=err2.get("exc", ""))
    pat = V.expected_pattern(t2)
    if not re.fullmatch(pat, t, re.S):
        shown = re.sub("\x01([a-z]+)\x02", lambda m: "<back-reference to the enclosing " + m.group(1) + ">", t2)
        return bad("selfref-placeholder-differs" if cyclic else "shared-substructure-printed-differently",
                   f"hy.repr gave {t!r}; expected {shown!r} with each back-reference printed as the documented placeholder",
                   text=t)
    if not cyclic:
        obs = roundtrip(x, twin, [])
        P.check_state(acc, case, "C27 graph round trip")
        if obs is not None:
            return bad("shared-" + obs["kind"], obs["detail"], text=obs.get("text", ""), exc=obs.get("exc", ""))
    if ok_state:
        acc.outcome(f"ok:graph:{shape}:{root}")


def _run_shard_main(shard, tier):
    acc = Acc()
    P.reset_state()
    if shard[0] == "tree":
        _, nm, lo, hi = shard
        for n, spec in enumerate(V.part_specs(tier, nm, lo, hi)):
            check_tree(acc, spec)
            if n % 2003 == 0:
                import hy
                try:
                    acc.sample({"part": nm, "hy.repr": hy.repr(V.build(spec))[:120]})
                except Exception:
                    pass
    else:
        _, lo, hi = shard
        gs = V.graphs(tier)[lo:hi]
        for n, g in enumerate(gs):
            check_graph(acc, g)
            if n % 397 == 0:
                acc.sample({"graph": g})
    return acc.result()


def recheck(case, tier):
    acc = Acc()
    P.reset_state()
    if "value" in case:
        check_tree(acc, case["value"])
    else:
        check_graph(acc, case["graph"])
    return acc.disagreements


def snippet(d):
    c = d["case"]
    if "value" in c:
        import pprint
        return ("import hy, collections, fractions\n"
                "from collections import *; from fractions import Fraction\n"
                "# value spec (see mc/ref/pr_values.py build()):\n"
                f"spec = {c['value']!r}\n"
                "import sys; sys.path.insert(0, '/verif')\n"
                "from mc.ref.pr_values import build, val_diff\n"
                "x = build(spec); t = hy.repr(x); print(t)\n"
                "y = hy.eval(hy.read(t)); print(repr(y)); print(val_diff(build(spec), y))\n")
    return ("import hy, sys; sys.path.insert(0, '/verif')\n"
            "from mc.ref.pr_values import build_graph, build_twin\n"
            f"g = {c['graph']!r}\n"
            "print(hy.repr(build_graph(g)))\nprint(repr(hy.repr(build_twin(g))))\n")


# ---------------------------------------------------------------- every short string over the characters that need escaping
STR_ALPHA = ["a", "'", '"', "\\", "\n", "\x00", "\xe9", "{", "#"]
STR_MAXLEN = {"quick": 3, "thorough": 5}


def shards(tier):
    return list(_shards_main(tier)) + [["strings", k] for k in range(STR_MAXLEN[tier] + 1)]


def run_shard(shard, tier):
    if shard[0] == "strings":
        import itertools
        acc = Acc()
        for chars in itertools.product(STR_ALPHA, repeat=shard[1]):
            text = "".join(chars)
            check_tree(acc, ["str", text])
            check_tree(acc, ["list", [["str", text]]])
            if all(ord(c) < 256 for c in text):
                check_tree(acc, ["bytes", text])
                check_tree(acc, ["bytearray", text])
        return acc.result()
    return _run_shard_main(shard, tier)
