"""C33  hy.unmangle inverts hy.mangle up to mangling.

Space: the space of C32 (every Unicode code point in each positional context;
every short token string over the tricky alphabet), minus the class the
property excludes (part after the leading underscores starts with hyx_).
Oracle: u = hy.unmangle(hy.mangle(s)) does not raise, and hy.mangle(u) ==
hy.mangle(s).
"""
import unicodedata

from mc.util import Acc
from mc.ref import mg_space

ID = "C33"
TECHNIQUE = ("exhaustive sweep of all Unicode code points in fixed positional contexts plus bounded exhaustive enumeration of "
             "short strings; round-trip invariant mangle(unmangle(mangle(s))) == mangle(s) evaluated on the real functions")
LEVEL_TEXT = ("For every one of the 1,114,112 code points in every listed context and for every short string over the alphabet, "
              "hy.mangle, hy.unmangle and hy.mangle again are run and the round-trip law is evaluated. Exhaustive over code points, so "
              "every character whose escape (Unicode name, U+hex, H-for-hyphen) or whose NFKC normalisation does not survive the "
              "trip is listed, not sampled.")
RULE = ("a case is one (context, code point) pair or one token string (all distinct by construction); non-trivial = hy.mangle changes "
        "the name, so unmangle has something to undo; outcome classes = exact round trip / round trip up to mangling / failure class")
ASSUMPTIONS = [
    "contexts and string alphabet as listed in bounds",
    "excluded (counted unspecified): names whose part after the leading underscores starts with hyx_, decided on the name as "
    "written and on its NFKC form, with '_' and the characters that normalise to '_' as leading underscores",
    "names with an empty dot-separated part other than leading dots are not names: unspecified",
    "dotted names (a dot and a non-dot character): hy.unmangle's documentation is silent about them and it does not work "
    "part-wise (unmangle('a._') = 'a.-', which mangles to 'a.hyx_XhyphenHminusX'): unspecified, only run, not judged",
]
TIME_CAP = {"quick": 600, "thorough": 3600}


def bounds(tier):
    return mg_space.bounds(tier)


def shards(tier):
    return mg_space.shards(tier)


def _a(s):
    return ascii(s)


def delim_effect(name, ref):
    return ref.nfkc_delim_effect(name)


def check_name(acc, case, name, ctx, ntok, hy, ref):
    acc.states += 1
    acc.transitions += ntok
    kind = ref.classify(name)
    if kind == "unspecified":
        acc.unspecified += 1
        acc.outcome("unspecified:empty-dotted-part")
        return
    if kind == "dotted":
        # hy.mangle documents dotted identifiers "as a convenience"; the
        # documentation of hy.unmangle says nothing about them (it is not
        # part-wise: unmangle("a._") = "a.-").  Weak oracle only.
        acc.unspecified += 1
        try:
            hy.unmangle(hy.mangle(name))
            acc.evaluations += 1
            acc.outcome("unspecified:dotted:returned")
        except Exception as e:
            acc.evaluations += 1
            acc.outcome("unspecified:dotted:raised-" + type(e).__name__)
        return
    if ref.looks_premangled(name):
        acc.unspecified += 1
        acc.outcome("excluded:starts-with-hyx_")
        return
    acc.traces += 1
    acc.evaluations += 1
    cp = ("U+%04X" % case["cp"]) if "cp" in case else "-"
    cat = unicodedata.category(chr(case["cp"])) if "cp" in case else "-"

    try:
        m = hy.mangle(name)
    except BaseException as e:
        acc.outcome("mangle-raised")
        acc.disagree("mangle-raised", case, "hy.mangle(%s) raised %s" % (_a(name), type(e).__name__),
                     sig="mangle-raised:%s:%s" % (ctx, cat), ctx=ctx, cat=cat, cp=cp)
        return
    if m != name:
        acc.nontrivial += 1
    acc.transitions += 2
    try:
        u = hy.unmangle(m)
    except BaseException as e:
        de = delim_effect(name, ref)
        acc.outcome("fail:unmangle-raised:" + type(e).__name__)
        acc.count("fail:%s:%s" % (ctx, cp if cp != "-" else "str"))
        acc.disagree("unmangle-raised", case,
                     "hy.unmangle(hy.mangle(%s) = %s) raised %s: %s" % (_a(name), _a(m), type(e).__name__, _a(str(e))[:160]),
                     sig="unmangle-raised:%s:%s:%s" % (type(e).__name__, de, ctx),
                     ctx=ctx, cat=cat, cp=cp, exc=type(e).__name__, nfkc_delim=de)
        return
    try:
        m2 = hy.mangle(u)
    except BaseException as e:
        m2 = None
        err = type(e).__name__
    if m2 == m:
        acc.outcome("roundtrip-exact" if u == name else "roundtrip-up-to-mangling")
        return
    de = delim_effect(name, ref)
    acc.outcome("fail:remangle-differs:nfkc_delim=" + de)
    acc.count("fail:%s:%s" % (ctx, cp if cp != "-" else "str"))
    acc.disagree("remangle-differs", case,
                 "mangle(%s) = %s; unmangle gives %s; mangling that gives %s" % (
                     _a(name), _a(m), _a(u), _a(m2) if m2 is not None else "<raised %s>" % err),
                 sig="remangle-differs:%s:%s" % (de, ctx), ctx=ctx, cat=cat, cp=cp, nfkc_delim=de)


def run_shard(shard, tier):
    import hy
    from mc.ref import mg_mangle_ref as ref
    acc = Acc()
    n = 0
    for case, name, ctx, ntok in mg_space.iter_shard(shard, tier):
        check_name(acc, case, name, ctx, ntok, hy, ref)
        n += 1
        if n % 9973 == 1:
            acc.sample({"case": case})
    return acc.result()


def recheck(case, tier):
    import hy
    from mc.ref import mg_mangle_ref as ref
    acc = Acc()
    name, ctx = mg_space.name_of(case)
    check_name(acc, case, name, ctx, 1, hy, ref)
    return acc.disagreements


def snippet(d):
    name, _ = mg_space.name_of(d["case"])
    return ("import hy\ns = %s\nm = hy.mangle(s)\nu = hy.unmangle(m)\nprint(ascii(m), ascii(u), ascii(hy.mangle(u)))\n"
            "assert hy.mangle(u) == m   # C33\n" % ascii(name))
