"""Which checks are registered in MANIFEST.json (tools/gen_manifest.py)."""
REGISTERED = ["C01", "C02", "C09", "C11", "C12", "C13", "C14", "C18", "C26", "C32", "C33", "C34"]
NOT_CLAIMED = {}
