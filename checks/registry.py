"""Which checks are registered in MANIFEST.json (tools/gen_manifest.py)."""
REGISTERED = ["C01", "C02", "C18", "C26"]
NOT_CLAIMED = {}
