"""C40  The REPL evaluates incremental input like a script and tracks *1 *2 *3 *e.

(a) Every program of <= n top-level items over a 12-item alphabet (and of
    <= n_red items over a stated sub-alphabet) (constant,
    None, setv, arithmetic on a variable (also yielding the falsy value 0), list display, string literal,
    print, quoted symbol, `#_ FORM`, comment, nested call, list with an inner
    comment), in EVERY line-break layout (each separator slot inside and
    between items is either "same line" or "line break"), is fed one line at a
    time to a fresh hy.REPL through push() and, separately, through
    runsource() on the accumulated text.  After every line:
      more-input flag  ==  the line break falls inside an item (reference
                           knows this from the structure it rendered);
      stdout           ==  print output of the input's forms, then hy.repr of
                           the value of its last form unless that is None;
      stderr           ==  empty;
    and at the end the REPL's variable x equals the reference's.
(b) Every history of <= k inputs over 10 input kinds (fresh constant, None,
    setv, two forms on one line, runtime error, reader error, macro-expansion
    error, compile-time syntax error, incomplete-then-completed input, print)
    on a fresh REPL, explored breadth-first with the reference model of
    mc/ref/rc_repl_ref.py stepped in lock-step.  After every input: stdout,
    the more-input flags, (*1, *2, *3) within the model's admissible set, and
    *e = the exception of the latest failed input (the same object as before
    after a successful input).
"""
import itertools

from mc.util import Acc

ID = "C40"
ENGINE = "E2-history"
TECHNIQUE = ("explicit-state BFS over input histories on a real hy.REPL rebuilt per history, reference REPL model in lock-step; plus bounded "
             "exhaustive enumeration of programs x all line-break layouts fed line by line through push/runsource")
LEVEL_TEXT = ("Every program up to n items in every line-break layout is pushed line by line into a fresh real REPL and the more-input flag and the "
              "printed text are compared after every line with a structural reference; every history of up to k inputs over ten input kinds "
              "(four of them failing in different phases) is replayed on a fresh REPL and *1 *2 *3 *e and stdout are compared with a reference "
              "model after every input. Exhaustive within the bounds.")
RULE = ("(a) cases enumerated by (program as item tuple, layout bit vector, driver push|runsource), all distinct; non-trivial = at least one line "
        "break falls inside an item (the REPL has to answer 'more input'). (b) BFS over input-kind sequences, every history of length <= k executed "
        "(no pruning); 'states' = distinct canonical REPL states ((*1,*2,*3), *e class and argument, x, last line's flag) reached in (b) plus the "
        "distinct cases of (a); non-trivial history = contains a failed input and a non-None result")
ASSUMPTIONS = [
    "(a) items and (b) input kinds as listed; bounds as stated; the default output function hy.repr; a fresh REPL (module __console__ dropped) per case",
    "(a) programs raise no errors (every session starts with the input (setv x 0)); error inputs are the subject of (b)",
    "whether a FAILED input counts as an input with a result is not documented: after a failed input the model admits both 'nothing shifted' and "
    "'None shifted in'; never admissible: two of *1 *2 *3 holding one earlier input's result",
    "*e before the first failed input is unspecified (not examined); for reader / macro-expansion / compile errors only 'a new exception object of "
    "class SyntaxError resp. Exception' is demanded, for runtime errors the exact class and argument",
    "empty lines and inputs without forms: only 'no output' is demanded in (a)",
    "after a disagreement the model is resynchronised to the observed variables and the history IS extended, so a known defect does not hide the space behind it",
]

REDUCED_ITEMS = {
    "quick": ["const", "setv", "mul", "str", "quote", "discard", "comment", "print", "listc"],
    "thorough": ["const", "setv", "str", "quote", "discard", "comment", "print"],
}
REDUCED_OPS = ["c", "n", "r", "l", "m", "i"]
# n: max items over the full item alphabet; both_upto: programs up to this length are driven through push AND runsource (longer: push only);
# n_red: max items over REDUCED_ITEMS[tier] (push only; lengths n+1..n_red);  k: max history over all input kinds;  k_red: over REDUCED_OPS
BOUNDS = {
    "quick": dict(n=2, both_upto=2, n_red=3, k=4, k_red=4),
    "thorough": dict(n=3, both_upto=3, n_red=4, k=5, k_red=6),
}
TIME_CAP = {"quick": 1800, "thorough": 5400}


def bounds(tier):
    from mc.ref import rc_repl_ref as R
    b = BOUNDS[tier]
    return {"a_items": {n: " ".join(R.ITEMS[n][0](11)) for n in R.ITEM_NAMES}, "a_max_items": b["n"],
            "a_reduced_items": REDUCED_ITEMS[tier] if b["n_red"] > b["n"] else [], "a_reduced_max_items": b["n_red"],
            "a_layouts": "every subset of the free separator slots is a line break",
            "a_drivers": "push and runsource for programs of <= %d items, push for longer ones" % b["both_upto"],
            "b_inputs": R.OP_DOC, "b_max_history": b["k"],
            "b_reduced_inputs": REDUCED_OPS if b["k_red"] > b["k"] else [], "b_reduced_max_history": b["k_red"]}


def _programs(tier):
    from mc.ref import rc_repl_ref as R
    b = BOUNDS[tier]
    out = []
    for ln in range(1, b["n"] + 1):
        out.extend(itertools.product(R.ITEM_NAMES, repeat=ln))
    for ln in range(b["n"] + 1, b["n_red"] + 1):
        out.extend(itertools.product(REDUCED_ITEMS[tier], repeat=ln))
    return out


def shards(tier):
    from mc.ref import rc_repl_ref as R
    b = BOUNDS[tier]
    out = []
    progs = _programs(tier)
    # weight = number of layouts; pack programs into shards of roughly equal weight
    target = 1500 if tier == "quick" else 6000
    lo = 0
    w = 0
    for i, p in enumerate(progs):
        w += (1 << R.n_free(p)) * (2 if len(p) <= b["both_upto"] else 1)
        if w >= target:
            out.append(["a", lo, i + 1])
            lo, w = i + 1, 0
    if lo < len(progs):
        out.append(["a", lo, len(progs)])
    out.append(["b1"])
    for o1 in R.OPS:
        for o2 in R.OPS:
            out.append(["b", o1, o2])
    if b["k_red"] > b["k"]:
        # histories longer than k over the reduced input alphabet (the shorter ones are part of the full exploration)
        for pre in itertools.product(REDUCED_OPS, repeat=3):
            out.append(["bR", list(pre)])
    return out


# ------------------------------------------------------------------ driving the real REPL

ABSENT = "<absent>"


class Session:
    def __init__(self):
        import contextlib
        import io
        import sys
        import hy
        from hy.reader import mangle
        import os
        self._io, self._ctx, self._sys = io, contextlib, sys
        os.environ.pop("HYSTARTUP", None)          # a startup file would change the session
        sys.modules.pop("__console__", None)
        self.names = [mangle("*1"), mangle("*2"), mangle("*3")]
        self.ename = mangle("*e")
        out, err = io.StringIO(), io.StringIO()
        with contextlib.redirect_stdout(out), contextlib.redirect_stderr(err):
            self.repl = hy.REPL()
        self.init_noise = out.getvalue() + err.getvalue()
        self.buffer = []

    def feed(self, line, driver="push"):
        """-> (more, stdout, stderr)"""
        out, err = self._io.StringIO(), self._io.StringIO()
        with self._ctx.redirect_stdout(out), self._ctx.redirect_stderr(err):
            if driver == "push":
                more = self.repl.push(line)
            else:
                self.buffer.append(line)
                more = self.repl.runsource("\n".join(self.buffer))
                if not more:
                    self.buffer = []
        return bool(more), out.getvalue(), err.getvalue()

    def specials(self):
        L = self.repl.locals
        return [L.get(n, ABSENT) for n in self.names]

    def exc(self):
        return self.repl.locals.get(self.ename, ABSENT)

    def var(self, name):
        return self.repl.locals.get(name, ABSENT)

    def close(self):
        self._sys.modules.pop("__console__", None)
        try:
            self._sys.last_exc = None
        except Exception:
            pass


def _to_hy(v):
    from mc.ref import rc_repl_ref as R
    import hy
    if isinstance(v, R.Sym):
        return hy.models.Symbol(v.name)
    return v


# ------------------------------------------------------------------ (a)

def run_layout(program, bits, driver):
    """-> (problems, info)"""
    from mc.ref import rc_repl_ref as R
    import hy
    rd = R.render(list(program), bits)
    exp, env = R.expected_session(rd)
    s = Session()
    problems = []
    flags = ""
    try:
        more, out, err = s.feed(R.PRELUDE, driver)
        if more or out or err:
            problems.append(dict(kind="repl-prelude-misbehaved", sig="a:prelude", detail="(setv x 0) -> more=%r out=%r err=%r" % (more, out, err[-200:])))
            return problems, dict(flags="", lines=rd.lines)
        for i, (line, (emore, eprinted, evalue)) in enumerate(zip(rd.lines, exp)):
            more, out, err = s.feed(line, driver)
            flags += "M" if more else "."
            where = dict(line=str(i), driver=driver)
            if more != emore:
                inside = "inside-item" if emore else "between-items"
                problems.append(dict(kind="repl-more-input-flag-wrong", sig="a:more:%s:%s" % (inside, _cut_class(rd, i)), expected=str(emore), got=str(more),
                                     cut=_cut_class(rd, i), detail="after line %d %r of %r the REPL returned more=%r; the accumulated text is %s" % (
                                         i, line, rd.lines, more, "incomplete" if emore else "complete"), **where))
                break
            if emore:
                eout = ""
            else:
                eout = eprinted + ("" if evalue is None else hy.repr(_to_hy(evalue)) + "\n")
            if out != eout:
                problems.append(dict(kind="repl-output-differs-from-script-evaluation", sig="a:out:%s" % _out_class(out, eout), shape=_out_class(out, eout),
                                     detail="after line %d %r of %r stdout was %r, expected %r" % (i, line, rd.lines, out, eout), **where))
                break
            if err:
                problems.append(dict(kind="repl-unexpected-error-output", sig="a:err:%s" % _last_exc_name(err), exc=_last_exc_name(err),
                                     detail="after line %d %r of %r stderr was %r" % (i, line, rd.lines, err[-300:]), **where))
                break
        else:
            x = s.var("x")
            if x != env["x"]:
                problems.append(dict(kind="repl-variable-differs-from-script-evaluation", sig="a:var", driver=driver,
                                     detail="x is %r after %r, the forms evaluated in order give %r" % (x, rd.lines, env["x"])))
    finally:
        s.close()
    return problems, dict(flags=flags, lines=rd.lines)


def _cut_class(rd, i):
    line = rd.lines[i]
    last = line.split()[-1] if line.split() else ""
    if last in ("'", "#_"):
        return "after-prefix"
    if last.startswith(";"):
        return "after-comment"
    if last.startswith('"') and not last.endswith('"'):
        return "inside-string"
    return "other"


def _out_class(out, eout):
    if not out and eout:
        return "missing"
    if out and not eout:
        return "spurious"
    return "different"


def _last_exc_name(err):
    lines = [l for l in err.strip().splitlines() if l.strip()]
    if not lines:
        return "none"
    return lines[-1].strip().split(":")[0].split(".")[-1][:40]


def _a_shard(acc, tier, lo, hi):
    from mc.ref import rc_repl_ref as R
    progs = _programs(tier)[lo:hi]
    both = BOUNDS[tier]["both_upto"]
    n = 0
    for p in progs:
        nf = R.n_free(p)
        for bits in range(1 << nf):
            for driver in (("push", "runsource") if len(p) <= both else ("push",)):
                problems, info = run_layout(p, bits, driver)
                acc.states += 1
                acc.traces += 1
                acc.evaluations += 1
                acc.transitions += len(info["lines"]) + 1
                fl = info["flags"]
                if "M" in fl:
                    acc.nontrivial += 1
                acc.outcome("a:lines=%d,more=%d" % (len(fl), fl.count("M")))
                for it in p:
                    acc.count("a:item:" + it)
                for pr in problems:
                    pr = dict(pr)
                    acc.disagree(pr.pop("kind"), {"part": "a", "program": list(p), "bits": bits, "driver": driver}, pr.pop("detail"), sig=pr.pop("sig"), **pr)
                n += 1
                if n % 20011 == 1:
                    acc.sample({"program": list(p), "lines": info["lines"], "more_flags": fl, "driver": driver})


# ------------------------------------------------------------------ (b)

class Ctx:
    pass


class ReplSystem:
    def __init__(self, acc, ops=None):
        from mc.ref import rc_repl_ref as R
        self.R = R
        self.acc = acc
        self.ops = list(ops or R.OPS)

    def reset(self):
        ctx = Ctx()
        ctx.s = Session()
        ctx.m = self.R.HistModel()
        ctx.n = 0
        ctx.prev_exc = ABSENT
        ctx.problems = []
        ctx.last = None
        ctx.lastflag = False
        ctx.seen_fail = False
        ctx.seen_value = False
        return ctx

    def enabled(self, ctx, d):
        return list(self.ops)

    def canon(self, ctx):
        e = ctx.s.exc()
        ec = ABSENT if e is ABSENT else (type(e).__name__, repr(getattr(e, "args", None))[:60] if isinstance(e, ValueError) else "")
        return (tuple(repr(v) for v in ctx.s.specials()), ec, repr(ctx.s.var("x")), ctx.lastflag)

    def nontrivial(self, ctx):
        return ctx.seen_fail and ctx.seen_value

    def step(self, ctx, op):
        R = self.R
        s, m = ctx.s, ctx.m
        k = R.hist_const(ctx.n)
        ctx.n += 1
        before = s.specials()
        before_exc = s.exc()
        lines = R.op_lines(op, k)
        problems = []
        outs, errs = "", ""
        for li, line in enumerate(lines):
            more, out, err = s.feed(line, "push")
            outs += out
            errs += err
            emore = li < len(lines) - 1
            if more != emore:
                problems.append(dict(kind="repl-more-input-flag-wrong", sig="b:more:%s" % op, op=op, expected=str(emore), got=str(more),
                                     detail="input %r line %d: more=%r" % (lines, li, more)))
                break
            if emore:
                mid = s.specials()
                if any(a is not b for a, b in zip(mid, before)) or out or err:
                    problems.append(dict(kind="repl-incomplete-line-had-an-effect", sig="b:incomplete-effect", op=op,
                                         detail="after the incomplete line %r: *1..*3 %r -> %r, stdout %r, stderr %r" % (line, before, mid, out, err[-200:])))
        ctx.lastflag = False
        exp = m.step(op, k)
        obs = tuple(s.specials())
        e = s.exc()
        if not problems:
            # stdout / stderr
            eout = exp["printed"] + ("" if exp["value"] is None else "%d\n" % exp["value"])
            if outs != eout:
                problems.append(dict(kind="repl-output-wrong", sig="b:out:%s:%s" % (op, _out_class(outs, eout)), op=op, shape=_out_class(outs, eout),
                                     detail="input %r printed %r, expected %r" % (lines, outs, eout)))
            if exp["success"] and errs:
                problems.append(dict(kind="repl-unexpected-error-output", sig="b:err:%s:%s" % (op, _last_exc_name(errs)), op=op, exc=_last_exc_name(errs),
                                     detail="input %r wrote to stderr: %r" % (lines, errs[-300:])))
            if not exp["success"] and not errs:
                problems.append(dict(kind="repl-error-not-shown", sig="b:noerr:%s" % op, op=op, detail="failing input %r wrote nothing to stderr" % (lines,)))
            # *1 *2 *3
            if obs not in m.adm:
                dup = (not exp["success"]) and before[0] is not None and obs[0] is before[0] and obs[1] is before[0]
                if dup:
                    problems.append(dict(kind="repl-failed-input-repeats-a-result", sig="b:stale-shift", failure=R.FAILS[op], shape="star1-and-star2-both-previous-star1",
                                         op=op, detail="before the failing input %r: (*1 *2 *3) = %r; after it: %r — *1 and *2 now both hold the result of one earlier input"
                                                       % (lines, tuple(before), obs)))
                else:
                    problems.append(dict(kind="repl-result-variables-wrong", sig="b:specials:%s:%s" % (op, "ok" if exp["success"] else "fail"), op=op,
                                         succeeded=str(exp["success"]),
                                         detail="after input %r (*1 *2 *3) = %r; admissible: %r" % (lines, obs, sorted(m.adm, key=repr))))
                m.resync(obs)
            # *e
            if exp["success"]:
                if e is not before_exc:
                    problems.append(dict(kind="repl-star-e-changed-by-successful-input", sig="b:e-changed:%s" % op, op=op,
                                         detail="*e was %r and is %r after the successful input %r" % (before_exc, e, lines)))
            else:
                what = exp["exc"]
                bad = None
                if e is ABSENT or not isinstance(e, BaseException):
                    bad = "is %r, not an exception" % (e,)
                elif e is before_exc:
                    bad = "is still the previous exception %r" % (e,)
                elif what[0] == "ValueError" and not (type(e) is ValueError and e.args == what[1]):
                    bad = "is %r, expected ValueError%r" % (e, what[1])
                elif what[0] == "reader" and not isinstance(e, SyntaxError):
                    bad = "is %r, expected a syntax error" % (e,)
                if bad:
                    problems.append(dict(kind="repl-star-e-not-latest-exception", sig="b:e:%s" % op, op=op, failure=R.FAILS[op],
                                         detail="after the failing input %r *e %s" % (lines, bad)))
        else:
            m.resync(obs)
        if exp["success"] and exp["value"] is not None:
            ctx.seen_value = True
        if not exp["success"]:
            ctx.seen_fail = True
        ctx.problems = problems
        ctx.last = (op, "ok" if exp["success"] else "fail", "agree" if not problems else problems[0]["kind"])
        return []          # never stop extending: see ASSUMPTIONS


def _case_b(history):
    return {"part": "b", "history": list(history)}


def _explore(acc, tier, roots, depth, ops=None):
    from mc import hist
    system = ReplSystem(acc, ops)

    def on_history(history, ctx):
        op, ok, verdict = ctx.last
        acc.outcome("b:%s:%s:%s" % (op, ok, verdict if verdict == "agree" else "DISAGREE"))
        for p in ctx.problems:
            p = dict(p)
            acc.disagree(p.pop("kind"), _case_b(history), p.pop("detail"), sig=p.pop("sig"), depth=str(len(history)), **p)
        ctx.s.close()

    ex = hist.Explorer(system, depth, prune=False, on_history=on_history)
    st = ex.run(roots)
    hist.report(acc, st, count_states=True, prefix="b:")


def run_shard(shard, tier):
    from mc.ref import rc_repl_ref as R
    acc = Acc()
    b = BOUNDS[tier]
    if shard[0] == "a":
        _a_shard(acc, tier, shard[1], shard[2])
    elif shard[0] == "b1":
        _explore(acc, tier, [(op,) for op in R.OPS], 1)
    elif shard[0] == "b":
        _explore(acc, tier, [(shard[1], shard[2])], b["k"])
    else:
        pre = tuple(shard[1])
        roots = [pre + rest for rest in itertools.product(REDUCED_OPS, repeat=b["k"] + 1 - len(pre))]
        _explore(acc, tier, roots, b["k_red"], REDUCED_OPS)
    return acc.result()


def recheck(case, tier):
    out = []
    if case["part"] == "a":
        problems, _ = run_layout(tuple(case["program"]), case["bits"], case["driver"])
        return problems
    system = ReplSystem(Acc())
    ctx = system.reset()
    for op in case["history"]:
        system.step(ctx, op)
        out.extend(ctx.problems)
    ctx.s.close()
    return out


def snippet(d):
    from mc.ref import rc_repl_ref as R
    c = d["case"]
    if c["part"] == "a":
        rd = R.render(list(c["program"]), c["bits"])
        lines = [R.PRELUDE] + rd.lines
    else:
        lines = []
        for i, op in enumerate(c["history"]):
            lines += R.op_lines(op, R.hist_const(i))
    return ("import hy\nfrom hy.reader import mangle\nr = hy.REPL()\n"
            f"for line in {lines!r}:\n"
            "    more = r.push(line)\n"
            "    print(repr(line), '-> more =', more, '| *1 *2 *3 =', [r.locals.get(mangle('*%d' % i)) for i in (1, 2, 3)],\n"
            "          '| *e =', repr(r.locals.get(mangle('*e'))))\n"
            "# C40: more-input exactly while the text is incomplete; values printed with hy.repr unless None;\n"
            "# *1 *2 *3 = results of the latest inputs, never two of them the result of one input; *e = latest uncaught exception.\n")
