"""C25  hy.repr of any reader-producible model reads back to the same model.

Space: (1) every token string up to n tokens over a 50-token alphabet of Hy's
syntax forms -- every form the real reader yields for a readable text is a
case; (2) structured families of model specs (sequence kinds x atoms, special
heads, every f-string kind x first form x conversion x format-spec component
sequence, every string content x delimiter), each rendered to source text by a
documentation-faithful printer that is independent of hy.repr, read by the
real reader, and kept only if the reader yields node-for-node that spec (so
every case IS a model the reader produced); the same spec assembled through
the model constructors is the "assembled from reader-valid parts" twin.

Oracle (the property statement, nothing more): t = hy.repr(m) returns a str;
hy.read(t) yields one form; m2 = hy.eval(that form); m2 has the same model
type at every node, equal leaves (NaN-aware, signed-zero-aware), the same
brackets / conversion / is_tstring (`expression` is not in the statement and
is not compared); hy.repr(m2) == t.  Module-level printer state is asserted
clean after every case.
"""
from mc import enumer
from mc.util import Acc, time_limit, CaseTimeout
from mc.ref import pr_models as P

ID = "C25"
TECHNIQUE = ("bounded exhaustive enumeration of token strings and of structured model specs; every case is a model the real "
             "reader produced; round trip through hy.repr -> hy.read -> hy.eval compared node by node with a strict reference comparer")
LEVEL_TEXT = ("Every model read from every token string up to the bound, and every model of the structured families (all "
              "compositions of two or three syntax constructs, every f-string field shape), is printed with the real hy.repr, "
              "re-read, re-evaluated and compared node by node; no counterexample within the bound other than those reported.")
RULE = ("text space: length-then-lexicographic token strings, one case per distinct model per shard (key = canonical spec); "
        "structured space: one case per distinct spec per block (a handful of specs occur in two blocks); "
        "non-trivial = the model contains a node whose printed form is not its source token verbatim: bracket string, "
        "f-string, field with conversion/spec, prefix or dotted sugar expression, bytes, float/complex, a string needing an "
        "escape, or a Dict with >= 3 elements; outcome classes = ok / first failing stage")
ASSUMPTIONS = [
    "texts over the listed tokens only; structured specs over the listed atoms / heads / f-string parts only; bounds as stated",
    "a spec whose documentation-faithful rendering is not read back node-for-node by the real reader is outside the space (counted as not-reader-producible)",
    "bracket t-strings (#[t[..]t]) exist only under the :bracketed-templates reader option; they are re-read with a reader that has the same option (counted separately)",
    "`expression` of FComponent is not part of the statement and is not compared",
    "one form in the printed text is demanded (hy.read reads one form); extra trailing forms are reported as a separate kind",
    "watchdog: 10 s per hy.repr / read / eval counts as non-termination",
]
TIME_CAP = {"quick": 900, "thorough": 3600}
FAMILIES = ["atoms", "terms", "fstrings", "strings"]


def bounds(tier):
    return P.space_bounds(tier)


def shards(tier):
    b = P.SPACE[tier]
    out = []
    nsh = 96 if tier == "quick" else 1024
    for lo, hi in enumer.string_shards(len(P.TOKENS), b["text_n"], nsh):
        out.append(["text", lo, hi])
    for fam in FAMILIES:
        for blk in P.blocks(fam, tier):
            out.append(["fam", fam, blk])
    return out


# ------------------------------------------------------------------ oracle

def _mod():
    import types
    return types.ModuleType("pr_c25_case")


def observe(m, btempl=False):
    """Run the round trip on one model.  Returns None if the property holds
    for it, else a dict(kind=..., detail=..., **fields)."""
    import hy
    try:
        with time_limit(10):
            t1 = hy.repr(m)
    except CaseTimeout:
        return dict(kind="repr-nontermination", detail="hy.repr did not return within 10 s")
    except RecursionError as e:
        return dict(kind="repr-raises", exc="RecursionError", detail=str(e)[:200])
    except Exception as e:
        return dict(kind="repr-raises", exc=type(e).__name__, detail=f"{type(e).__name__}: {e}"[:300])
    if type(t1) is not str:
        return dict(kind="repr-not-a-string", detail=repr(t1)[:200])
    try:
        with time_limit(10):
            forms = P.read_all(t1, btempl)
    except CaseTimeout:
        return dict(kind="reread-nontermination", text=t1, detail="reader did not return within 10 s")
    except BaseException as e:
        return dict(kind="repr-unreadable", text=t1, exc=type(e).__name__,
                    detail=f"hy.repr gave {t1!r}; reading it raises {type(e).__name__}: {getattr(e, 'msg', e)}"[:400])
    if len(forms) == 0:
        return dict(kind="repr-unreadable", text=t1, exc="no-form", detail=f"hy.repr gave {t1!r}, which contains no form")
    try:
        with time_limit(10):
            m2 = hy.eval(forms[0], locals={}, module=_mod())
    except CaseTimeout:
        return dict(kind="reread-eval-nontermination", text=t1, detail="hy.eval did not return within 10 s")
    except BaseException as e:
        return dict(kind="reread-eval-raises", text=t1, exc=type(e).__name__,
                    detail=f"hy.repr gave {t1!r}; evaluating its reading raises {type(e).__name__}: {e}"[:400])
    d = P.model_diff(m, m2, expression=False)
    if d is not None:
        return dict(kind=f"roundtrip-{d['field']}-differs", text=t1, field=d["field"], node=d["node"],
                    path="/".join(map(str, d["path"])),
                    detail=f"hy.repr gave {t1!r}; re-read model differs at path {d['path']} ({d['node']}.{d['field']}): "
                           f"original {d['a']!r}, re-read {d['b']!r}"[:500])
    if len(forms) > 1:
        return dict(kind="repr-has-trailing-forms", text=t1,
                    detail=f"hy.repr gave {t1!r}, which reads as {len(forms)} forms (the first one round-trips)")
    try:
        t2 = hy.repr(m2)
    except Exception as e:
        return dict(kind="repr-of-reread-raises", text=t1, exc=type(e).__name__, detail=f"{type(e).__name__}: {e}"[:300])
    if t2 != t1:
        return dict(kind="repr-not-idempotent", text=t1, text2=t2,
                    detail=f"hy.repr(m) = {t1!r} but hy.repr of the re-read model = {t2!r}")
    return None


def _candidates(m):
    """Smaller reader-producible models derived from m (sub-models, and m with
    one f-string part / one format-spec component dropped) -- used only to name
    a minimal failing model (the `culprit` fields); the reported case stays m."""
    M = P._M()
    if isinstance(m, M.FString):
        if len(m) > 1:
            for c in m:
                if isinstance(c, M.FComponent):
                    yield M.FString([c], brackets=m.brackets, is_tstring=m.is_tstring)
        elif len(m) == 1 and isinstance(m[0], M.FComponent):
            fc = m[0]
            if len(fc):
                yield fc[0]
            for p in fc[1:]:
                if isinstance(p, M.FComponent):
                    yield M.FString([p])
            if len(fc) > 2:
                for i in range(1, len(fc)):
                    kids = list(fc[:i]) + list(fc[i + 1:])
                    if all(not (isinstance(a, M.String) and isinstance(b, M.String)) for a, b in zip(kids[1:], kids[2:])):
                        yield M.FString([M.FComponent(kids, conversion=fc.conversion, expression=fc.expression,
                                                      is_tstring=fc.is_tstring)],
                                        brackets=m.brackets, is_tstring=m.is_tstring)
            if len(fc) > 1:
                yield M.FString([M.FComponent([fc[0]], conversion=fc.conversion, expression=fc.expression,
                                              is_tstring=fc.is_tstring)], brackets=m.brackets, is_tstring=m.is_tstring)
            if len(fc) and not isinstance(fc[0], M.Symbol):
                yield M.FString([M.FComponent([M.Symbol("x")] + list(fc[1:]), conversion=fc.conversion, expression="x",
                                              is_tstring=fc.is_tstring)], brackets=m.brackets, is_tstring=m.is_tstring)
            if fc.conversion is not None:
                yield M.FString([M.FComponent(list(fc), conversion=None, expression=fc.expression, is_tstring=fc.is_tstring)],
                                brackets=m.brackets, is_tstring=m.is_tstring)
    elif isinstance(m, M.Sequence) and not isinstance(m, M.FComponent):
        for c in m:
            if isinstance(c, M.Object) and not isinstance(c, M.FComponent):
                yield c


def describe(m):
    M = P._M()
    s = P.features(m)
    if isinstance(m, M.FString) and len(m) == 1 and isinstance(m[0], M.FComponent):
        fc = m[0]
        s += ">" + P.features(fc)[:-1] + (",first=" + type(fc[0]).__name__ if len(fc) else "") + "]"
    return s


def classes(m):
    """Named defect classes a minimal failing model falls into (the
    `culprit_class` field; known-finding matchers select on it)."""
    import math
    M = P._M()
    out = []
    if isinstance(m, M.String) and m.brackets is not None and str(m)[:1] == "\n":
        out.append("bracket-string-leading-newline")
    if isinstance(m, M.FString):
        if m.brackets is not None and len(m) and isinstance(m[0], M.String) and str(m[0])[:1] == "\n":
            out.append("bracket-fstring-leading-newline")
        for fc in m:
            if isinstance(fc, M.FComponent):
                if len(fc) > 2:
                    out.append("fcomponent-multi-part-spec")
                if any(isinstance(p, M.String) and ("{" in p or "}" in p) for p in fc[1:]):
                    out.append("fcomponent-spec-literal-brace")
                if m.brackets is None and any(isinstance(p, M.String) and P._esc(str(p)) != str(p) for p in fc[1:]):
                    out.append("fcomponent-spec-needs-escape")
                if len(fc) and isinstance(fc[0], M.Dict):
                    out.append("fcomponent-first-form-dict")
    if isinstance(m, M.Complex):
        # the imaginary part decides (a negative-zero real part alone is a different class)
        if m.imag == 0 and math.copysign(1.0, m.imag) < 0:
            out.append("complex-negative-zero-imag")
        elif m.real == 0 and math.copysign(1.0, m.real) < 0:
            out.append("complex-negative-zero-real")
    if isinstance(m, M.Expression) and P.dotted_sugar(m):
        parts = list(m[2:] if (str(m[1]) == "None" and not str(m[0]).strip(".")) else m[1:])
        if any("." in str(p) for p in parts):
            out.append("dotted-sugar-part-with-dot")
    return sorted(set(out))


_MEMO = {}


def _observe_memo(m, btempl):
    k = (P.key(P.spec_of(m)), btempl)
    if k not in _MEMO:
        if len(_MEMO) > 200000:
            _MEMO.clear()
        _MEMO[k] = observe(m, btempl)
    return _MEMO[k]


def culprit(m, btempl, obs):
    """Descend to a minimal derived model that still fails on its own."""
    depth = 0
    while depth < 12:
        depth += 1
        for c in _candidates(m):
            o = _observe_memo(c, btempl)
            if o is not None:
                m, obs = c, o
                break
        else:
            break
    return m, obs


def nontrivial(spec):
    for s in P.walk(spec):
        t = s[0]
        if t in ("FString", "FComponent", "Bytes", "Float", "Complex", "ComplexV"):
            return True
        if t == "String" and (s[2] is not None or any(c in s[1] for c in '"\\\n\r\t') or not s[1].isprintable()):
            return True
        if t == "Dict" and len(s[1]) >= 3:
            return True
        if t == "Expression" and s[1] and s[1][0][0] == "Symbol" and (
                s[1][0][1] in P.SUGAR or not s[1][0][1].strip(".")):
            return True
    return False


def check_case(acc, case, m_read, spec, btempl=False):
    """m_read: the model the reader produced; spec: its spec."""
    import hy
    acc.states += 1
    acc.transitions += P.size(spec)
    for s in P.walk(spec):
        acc.count("node:" + s[0])
    if nontrivial(spec):
        acc.nontrivial += 1
    if btempl:
        acc.count("reread-with-bracketed-templates-reader")
    todo = [("read", m_read)]
    # the twin assembled through the constructors from the same parts
    try:
        m_c = P.build(spec)
        if hy.repr(m_c) != hy.repr(m_read):
            todo.append(("assembled", m_c))
            acc.count("assembled-twin-prints-differently")
        else:
            acc.count("assembled-twin-prints-identically")
    except Exception as e:
        acc.count("assembled-twin-not-buildable:" + type(e).__name__)
    for prov, m in todo:
        acc.traces += 1
        acc.evaluations += 1
        obs = observe(m, btempl)
        P.check_state(acc, case, "C25 round trip")
        if obs is None:
            acc.outcome("ok:" + spec[0])
            continue
        cm, cobs = culprit(m, btempl, obs)
        P.check_state(acc, case, "C25 culprit search")
        cdesc = describe(cm)
        ccls = "+".join(classes(cm))
        acc.outcome(obs["kind"])
        acc.count("culprit-class:" + (ccls or "unclassified"))
        fields = {k: str(v) for k, v in obs.items() if k not in ("kind", "detail")}
        fields["provenance"] = prov
        fields["culprit"] = cdesc
        fields["culprit_class"] = ccls or "unclassified"
        fields["culprit_kind"] = cobs["kind"]
        fields["culprit_repr"] = cobs.get("text", "")
        if "exc" in cobs:
            fields["culprit_exc"] = cobs["exc"]
        acc.disagree(obs["kind"], case, obs["detail"] + f"  [minimal failing sub-model: {cdesc}: {cobs['detail']}]"[:600],
                     sig=(ccls if ccls else f"{cobs['kind']}|{cdesc}|{cobs.get('exc', '')}"), **fields)


def run_shard(shard, tier):
    b = P.SPACE[tier]
    acc = Acc()
    P.reset_state()
    if shard[0] == "text":
        _, lo, hi = shard
        seen = set()
        for idx, toks in enumer.iter_strings(P.TOKENS, lo, hi, b["text_n"]):
            text = "".join(toks)
            acc.transitions += len(toks)
            forms = P.forms_of_text(text)
            if forms is None:
                acc.outcome("text-not-readable")
                continue
            if not forms:
                acc.outcome("text-without-forms")
                continue
            for i, m in enumerate(forms):
                spec = P.spec_of(m)
                k = P.key(spec)
                if k in seen:
                    acc.count("duplicate-model-in-shard")
                    continue
                seen.add(k)
                check_case(acc, {"text": text, "i": i}, m, spec)
                if acc.states % 4001 == 1:
                    acc.sample({"text": text, "form": i})
    else:
        _, fam, blk = shard
        for n, spec in enumerate(P.block_specs(fam, tier, blk)):
            m, text = P.read_spec(spec)
            if m is None:
                acc.outcome("spec-not-reader-producible")
                acc.count("not-reader-producible:" + fam)
                continue
            check_case(acc, {"spec": spec}, m, spec, P.needs_bracketed_templates(spec))
            if n % 3001 == 0:
                acc.sample({"family": fam, "text": text})
    return acc.result()


def recheck(case, tier):
    acc = Acc()
    P.reset_state()
    if "text" in case:
        forms = P.forms_of_text(case["text"])
        if forms is None or len(forms) <= case["i"]:
            return []
        m = forms[case["i"]]
        check_case(acc, case, m, P.spec_of(m))
    else:
        spec = case["spec"]
        m, _ = P.read_spec(spec)
        if m is None:
            return []
        check_case(acc, case, m, spec, P.needs_bracketed_templates(spec))
    return acc.disagreements


def snippet(d):
    c = d["case"]
    if "text" in c:
        src, idx, extra = c["text"], c["i"], ""
    else:
        src, idx = P.render(c["spec"]), 0
        extra = ", reader=hy.HyReader(bracketed_templates=True)" if P.needs_bracketed_templates(c["spec"]) else ""
    return ("import hy\n"
            f"m = list(hy.read_many({src!r}{extra}))[{idx}]\n"
            "t = hy.repr(m); print(repr(t))\n"
            f"m2 = hy.eval(hy.read(t{extra})); print(repr(hy.repr(m2)))\n"
            "print('same text:', hy.repr(m2) == t, ' equal:', m2 == m)\n"
            "# C25: m2 must equal m node by node (types, brackets, conversion, is_tstring) and print identically\n")
