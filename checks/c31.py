"""C31  quasiquote substitutes unquotes at the right nesting level.

Space: every template of <= n nodes over atoms {a, 1, "s"}, the seven
sequence model kinds (Expression, List, Tuple, Set, Dict, FString,
FComponent; 0..3 children), `(unquote x)` / `(unquote-splice x)` holes at
every level-0 position, and `(quasiquote T)` / `(unquote T)` /
`(unquote-splice T)` wrappers that move between quasiquote levels 0..2;
x every assignment of the hole variables over a pool of 16 values (ints incl.
0, strings incl. "", a symbol, keywords incl. the false empty keyword, lists,
None, a tuple, a dict, a single-use generator, models that themselves look
like unquote forms, a bracket string model).
Plus the "operator names as data" family (<= n_opnames nodes): the symbols
unquote / unquote-splice / quasiquote as plain atoms (first element of a
List/Tuple/Set/Dict, or a non-head element: ordinary symbols there), and
holes / wrappers spelled `unquote_splice` (the same symbol as
unquote-splice).

Oracle: mc/ref/pr_qq.py -- the textbook quasiquote (level-0 unquote -> the
value; level-0 unquote-splice -> the elements of (or value []); deeper levels
literal with the level adjusted; sequence nodes rebuilt with the same class
and attributes), compared with hy.eval of (quasiquote T) node by node modulo
promotion of inserted Python values (reference as-model); a splice of a true
non-iterable must raise an exception.
"""
from mc.util import Acc, time_limit, CaseTimeout
from mc.ref import pr_models as P
from mc.ref import pr_qq as Q

ID = "C31"
TECHNIQUE = ("bounded exhaustive enumeration of quasiquote templates (all shapes up to n nodes, all hole placements, levels 0..2) "
             "x all bindings over a value pool; the real compiler + evaluation compared node by node with a textbook quasiquote")
LEVEL_TEXT = ("Every template up to the size bound, with unquote / unquote-splice at every position of every sequence kind and "
              "inside nested quasiquotes, is evaluated by the real Hy under every binding of its holes and compared node by node "
              "with a reference quasiquote written from the documentation. Exhaustive within the bound.")
RULE = ("a case is one (template, binding) pair; templates are distinct trees, bindings distinct tuples; non-trivial = the "
        "template has at least one level-0 hole or a nested quasiquote/unquote wrapper; outcome classes = ok:value / "
        "ok:raises:<class> / first differing field")
ASSUMPTIONS = [
    "templates over the listed atoms, kinds, wrappers and sizes only; holes unquote variables only",
    "unquote / unquote-splice / quasiquote forms always have exactly one argument (other arities are outside the space)",
    "a level-0 unquote-splice that is the whole template has no parent sequence: unspecified (counted, only 'no crash other than an exception' applies)",
    "inserting a value that as-model cannot promote (the generator) with unquote is unspecified (counted)",
    "comparison is modulo promotion: an inserted Python value and its documented model are treated as the same node",
    "the evaluation order of holes is left to right in the reference; every hole has its own variable and its own fresh value, so order is unobservable",
    "thorough tier: the first binding of each template goes through the public hy.eval, further bindings re-run the code compiled once by hy.compiler.hy_compile (the same two steps hy.eval performs)",
    "watchdog: 10 s per evaluation",
]
TIME_CAP = {"quick": 900, "thorough": 3600}
STEP = {"quick": 150, "thorough": 400}


def bounds(tier):
    b = dict(Q.SPACE[tier])
    b.update(atoms=[P.key(a) for a in Q.ATOMS + [Q.FSTR_ATOM]], kinds=list(Q.KINDS), pool=Q.POOL_FULL, small_pool=Q.POOL_SMALL,
             bindings="holes<=1: full pool; 2 holes: " + b["pool2"] + " pool squared; 3 holes: small pool cubed")
    return b


def shards(tier):
    n = len(Q.templates(tier))
    st = STEP[tier]
    return [[lo, min(n, lo + st)] for lo in range(0, n, st)]


def _mod():
    import types
    return types.ModuleType("pr_c31_case")


def _env(names):
    return {"x%d" % i: Q.make_value(nm) for i, nm in enumerate(names)}


def _form(tmodel):
    M = P._M()
    return M.Expression([M.Symbol("quasiquote"), tmodel])


def run_impl(tmodel, names, code=None):
    """-> ("value", v) | ("raises", exc) ; through hy.eval, or through code
    compiled once (code = (exec_code, eval_code))."""
    import hy
    env = _env(names)
    try:
        with time_limit(10):
            if code is None:
                return "value", hy.eval(_form(tmodel), locals=env, module=_mod())
            g = _mod().__dict__
            eval(code[0], g, env)
            return "value", eval(code[1], g, env)
    except CaseTimeout:
        return "timeout", None
    except BaseException as e:
        return "raises", e


def compile_once(tmodel):
    from hy.compiler import hy_compile
    _ast, expr = hy_compile(_form(tmodel), _mod(), get_expr=True, filename="<string>")
    return compile(_ast, "<string>", "exec"), compile(expr, "<string>", "eval")


def shape_of(tspec):
    """Coarse shape for signatures: kinds of the parents of holes, hole ops, and wrapper nesting."""
    feats = set()

    def go(t, parent, lvl):
        if t[0] == "Expression" and len(t[1]) == 2 and t[1][0][0] == "Symbol" and Q.canon_op(t[1][0][1]) in Q.OPS:
            op = Q.canon_op(t[1][0][1])
            if op == "quasiquote":
                feats.add("qq@%d" % lvl)
                nl = lvl + 1
            elif lvl == 0:
                feats.add(("splice" if op == "unquote-splice" else "unquote") + "-in-" + (parent or "top"))
                return
            else:
                feats.add(op + "@%d" % lvl)
                nl = lvl - 1
            for c in t[1][1:]:
                go(c, "Expression", nl)
            return
        for c in P.children(t):
            go(c, t[0], lvl)
    go(tspec, None, 0)
    return ",".join(sorted(feats)) or "no-holes"


def check_case(acc, tspec, tmodel, names, code=None):
    case = {"template": tspec, "binding": list(names)}
    acc.states += 1
    acc.transitions += P.size(tspec)
    nontriv = bool(names) or any(s[0] == "Symbol" and Q.canon_op(s[1]) in Q.OPS for s in P.walk(tspec))
    if nontriv:
        acc.nontrivial += 1
    for nm in names:
        acc.count("bound:" + nm)
    top_splice = (tspec[0] == "Expression" and len(tspec[1]) == 2 and tspec[1][0][0] == "Symbol" and Q.canon_op(tspec[1][0][1]) == "unquote-splice")
    # reference
    try:
        if top_splice:
            kind, exp = "splice", None
        else:
            kind, exp = Q.qq(tmodel, _env(names))
        expected = ("value", exp) if kind == "one" else ("top-level-splice", exp)
    except Q.OutOfSpace:
        acc.unspecified += 1
        acc.outcome("unspecified:out-of-space")
        return
    except TypeError:
        expected = ("raises", "TypeError")
    acc.evaluations += 1
    got = run_impl(tmodel, names, code)
    P.check_state(acc, case, "C31 evaluation")
    shape = shape_of(tspec)

    def bad(kind, detail, **kw):
        acc.outcome(kind)
        coarse = "+".join(sorted({f.split("-in-")[0].split("@")[0] for f in shape.split(",")}))
        acc.disagree(kind, case, detail, sig=f"{kind}|{coarse}", shape=shape, **{k: str(v) for k, v in kw.items()})

    if got[0] == "timeout":
        return bad("qq-eval-nontermination", "evaluation did not return within 10 s")
    if expected[0] == "top-level-splice":
        acc.unspecified += 1
        acc.outcome("unspecified:top-level-splice")
        return
    acc.traces += 1
    if expected[0] == "raises":
        # the documentation fixes that there is nothing to splice, not the exception class: any Exception is accepted
        if got[0] == "raises" and isinstance(got[1], Exception):
            acc.outcome("ok:raises:" + type(got[1]).__name__)
            return
        if got[0] == "raises":
            return bad("qq-wrong-exception", f"reference: splicing a true non-iterable is an error; "
                       f"implementation raised the non-Exception {type(got[1]).__name__}: {got[1]}"[:400], exc=type(got[1]).__name__)
        return bad("qq-expected-error-not-raised", f"reference: splicing a true non-iterable raises (Python: {expected[1]}); "
                   f"implementation returned {got[1]!r}"[:400])
    if got[0] == "raises":
        return bad("qq-eval-raises", f"reference gives a value; implementation raised {type(got[1]).__name__}: {got[1]}"[:400],
                   exc=type(got[1]).__name__)
    try:
        e_m = Q.promote(expected[1])
    except Q.Unpromotable:
        acc.unspecified += 1
        acc.traces -= 1
        acc.outcome("unspecified:unpromotable-value-unquoted")
        return
    try:
        g_m = Q.promote(got[1])
    except Q.Unpromotable as e:
        return bad("qq-result-contains-unpromotable-object", f"result contains a {e} object where the reference has a model")
    d = P.model_diff(e_m, g_m, expression=True)
    if d is not None:
        return bad(f"qq-result-{d['field']}-differs",
                   f"at path {d['path']} ({d['node']}.{d['field']}): reference {d['a']!r}, implementation {d['b']!r}; "
                   f"reference result {P.key(P.spec_of(e_m))[:200]}, implementation {P.key(P.spec_of(g_m))[:200]}"[:700],
                   field=d["field"], node=d["node"], path="/".join(map(str, d["path"])))
    if P.key(P.spec_of(tmodel)) != P.key(tspec_canon(tspec)):
        return bad("qq-mutated-its-template", "the template model changed while it was evaluated")
    acc.outcome("ok:value")


_CANON = {}


def tspec_canon(tspec):
    k = P.key(tspec)
    if k not in _CANON:
        if len(_CANON) > 50000:
            _CANON.clear()
        _CANON[k] = P.spec_of(P.build(tspec))
    return _CANON[k]


def run_shard(shard, tier):
    acc = Acc()
    P.reset_state()
    lo, hi = shard
    ts = Q.templates(tier)[lo:hi]
    for n, (h, tspec) in enumerate(ts):
        tmodel = P.build(tspec)
        code = None
        for bi, names in enumerate(Q.bindings(tier, h)):
            use = None
            if tier == "thorough" and bi > 0:
                if code is None:
                    try:
                        code = compile_once(tmodel)
                    except BaseException:
                        code = False
                use = code or None
            check_case(acc, tspec, tmodel, names, use)
        if n % 61 == 0:
            import hy
            try:
                acc.sample({"template": "`" + hy.repr(tmodel)[1:], "holes": h})
            except Exception:       # e.g. an empty FComponent has no notation
                acc.sample({"template": P.key(tspec)[:160], "holes": h})
            P.reset_state()
    return acc.result()


def recheck(case, tier):
    acc = Acc()
    P.reset_state()
    tspec = case["template"]
    check_case(acc, tspec, P.build(tspec), tuple(case["binding"]))
    return acc.disagreements


def snippet(d):
    c = d["case"]
    return ("import hy, sys; sys.path.insert(0, '/verif')\n"
            "from mc.ref import pr_models as P, pr_qq as Q\n"
            f"t = P.build({c['template']!r}); names = {c['binding']!r}\n"
            "env = {'x%d' % i: Q.make_value(n) for i, n in enumerate(names)}\n"
            "print(hy.repr(t))\n"
            "try: print('hy       :', hy.repr(hy.eval(hy.models.Expression([hy.models.Symbol('quasiquote'), t]), locals=env)))\n"
            "except Exception as e: print('hy raises', type(e).__name__, e)\n"
            "env = {'x%d' % i: Q.make_value(n) for i, n in enumerate(names)}\n"
            "try: print('reference:', hy.repr(Q.promote(Q.qq(t, env)[1])))\n"
            "except TypeError as e: print('reference raises TypeError')\n")
