"""C36  macroexpand-1 expands one step and macroexpand reaches a fixpoint.

Space: every chain configuration of user macros m1, m2, m-3 (, m4) -- each
expanding to a call of a later one (arguments passed on), to itself with a
decreasing counter, to its last argument, or to one of 11 terminal forms (core
forms returning compiler results `if`/`setv`, the core macro `when` that
returns a model, a non-macro call, a symbol, an int, a list, the empty
expression, None, a dotted macro call, an expression-headed call) -- in three
placements (all in the module; all in the `macros` argument with decoys of the
same names in the module; split), x every input model (call of each macro
without and with arguments, non-macro call, atoms, empty expression, list,
expression-headed call, core forms, dotted calls), each input built three ways
(read from text = full positions; constructed = no positions; constructed with
positions on the outer form only), x {hy.macroexpand-1, hy.macroexpand}.
Oracle: mc/ref/mac_expand.py (reference stepper): returned model, the exact
sequence of user macros invoked, and the input model compared deeply (types,
values, every attribute incl. positions) before and after.
"""
import itertools

from mc import enumer
from mc.util import Acc

ID = "C36"
ENGINE = "E1-enumerator"
TECHNIQUE = ("bounded exhaustive enumeration of all macro chain configurations x placements x input models x input construction modes, "
             "run through the real hy.macroexpand-1 / hy.macroexpand and compared with a reference stepper (result, sequence of macros "
             "invoked, deep before/after comparison of the input model)")
LEVEL_TEXT = ("Every configuration of the user macros (every acyclic way they expand into one another or into the terminal forms) is "
              "installed, in every placement, and every listed input model is expanded by both functions; the returned model, the "
              "macros actually invoked and the untouched-ness of the input are compared with the reference stepper. Exhaustive within "
              "the listed behaviours and inputs.")
RULE = ("configurations in lexicographic order of the behaviour tuples; a case = (configuration, placement, input, construction mode, function), "
        "all distinct; non-trivial = the reference performs at least one expansion step (the head names a macro); outcome classes = "
        "reference outcome (no-macro / one-step / core-result / fixpoint-after-n / core-result-after-n)")
ASSUMPTIONS = [
    "macro behaviours, terminal forms and inputs as listed; chains are acyclic (a macro calls only later-numbered macros) or counting down",
    "result compared structurally (model types and values); positions of the RESULT are not part of the property",
    "for 'returns the model unchanged' equality is required, identity is only recorded",
    "core macros used: if, setv, do (compiler results), when (returns a model: (if test (do ...) None))",
]

BOUNDS = {"quick": dict(nmac=3, shards=96), "thorough": dict(nmac=4, shards=768)}
TIME_CAP = {"quick": 900, "thorough": 3000}
PLACEMENTS = ["module", "extras+decoys", "split"]
MODES = ["read", "bare", "outer-positions-only"]
FNS = ["macroexpand-1", "macroexpand"]


def _terms():
    from mc.ref import mac_expand as X
    return list(X.TERMINALS)


def behaviours(i, nmac):
    return [["call", j] for j in range(i + 1, nmac)] + ["count", "arg"] + _terms()


def configs(nmac):
    return itertools.product(*[behaviours(i, nmac) for i in range(nmac)])


def n_configs(nmac):
    n = 1
    for i in range(nmac):
        n *= len(behaviours(i, nmac))
    return n


def inputs(nmac):
    from mc.ref.mac_expand import NAMES, sym, expr
    g = expr(sym("g"), sym("b"))
    out = []
    for i in range(nmac):
        out.append(("call0:" + NAMES[i], expr(sym(NAMES[i]))))
    for i in range(nmac):
        out.append(("call2:" + NAMES[i], expr(sym(NAMES[i]), ("int", 2), g)))
    # falsy atoms as arguments (an empty string, zero, the empty keyword): code that tests a model for truth instead of identity slips here
    for i in range(min(nmac, 2)):
        out.append(("call-falsy:" + NAMES[i], expr(sym(NAMES[i]), ("int", 0), ("str", ""), ("kw", ""))))
    out += [
        ("non-macro-call", expr(sym("f"), ("int", 1))),
        ("symbol", sym("x")),
        ("integer", ("int", 3)),
        ("empty-expr", expr()),
        ("list-with-macro-name", ("list", [sym("m1")])),
        ("expr-headed", expr(expr(sym("m1")), ("int", 1))),
        ("int-headed", expr(("int", 1), ("int", 2))),
        ("kw-headed", expr(("kw", "k"), ("int", 1))),
        ("core-if", expr(sym("if"), ("int", 1), ("int", 2), ("int", 3))),
        ("core-setv", expr(sym("setv"), sym("zz"), ("int", 1))),
        ("core-do", expr(sym("do"))),
        ("core-when", expr(sym("when"), ("int", 1), ("int", 2))),
        ("dotted-macro", expr(expr(sym("."), sym("P"), sym("mq")), ("int", 1))),
        ("dotted-non-macro", expr(expr(sym("."), sym("P"), sym("nomacro")), ("int", 1))),
    ]
    return out


def bounds(tier):
    b = BOUNDS[tier]
    from mc.ref.mac_expand import NAMES
    return {"macros": NAMES[:b["nmac"]], "behaviours_of_first_macro": [str(x) for x in behaviours(0, b["nmac"])],
            "configurations": n_configs(b["nmac"]), "placements": PLACEMENTS, "inputs": [n for n, _ in inputs(b["nmac"])],
            "input_construction_modes": MODES, "functions": FNS}


def shards(tier):
    b = BOUNDS[tier]
    return [["cfg", lo, hi] for lo, hi in enumer.chunk(n_configs(b["nmac"]), b["shards"])] + [["shadow", 0, 0]]


# ------------------------------------------------------------------ implementation side

_ENV = {}


def to_text(t):
    k = t[0]
    if k == "expr":
        return "(" + " ".join(to_text(c) for c in t[1]) + ")"
    if k == "list":
        return "[" + " ".join(to_text(c) for c in t[1]) + "]"
    if k == "sym":
        return t[1]
    if k == "int":
        return str(t[1])
    if k == "str":
        return '"' + t[1] + '"'
    if k == "kw":
        return ":" + t[1]
    raise ValueError(t)


def to_model(t):
    import hy.models as M
    k = t[0]
    if k == "expr":
        return M.Expression([to_model(c) for c in t[1]])
    if k == "list":
        return M.List([to_model(c) for c in t[1]])
    if k == "sym":
        return M.Symbol(t[1])
    if k == "int":
        return M.Integer(t[1])
    if k == "str":
        return M.String(t[1])
    if k == "kw":
        return M.Keyword(t[1])
    raise ValueError(t)


def to_plain(m):
    import hy.models as M
    if type(m) is M.Expression:
        return ("expr", [to_plain(c) for c in m])
    if type(m) is M.List:
        return ("list", [to_plain(c) for c in m])
    if type(m) is M.Symbol:
        return ("sym", str(m))
    if type(m) is M.Integer:
        return ("int", int(m))
    if type(m) is M.String:
        return ("str", str(m))
    if type(m) is M.Keyword:
        return ("kw", m.name)
    return ("other", type(m).__name__, repr(m)[:80])


def snap(m):
    import hy.models as M
    attrs = tuple(sorted((k, repr(v)) for k, v in vars(m).items())) if hasattr(m, "__dict__") else ()
    if isinstance(m, M.Sequence):
        return (type(m).__name__, id(m), attrs, tuple(snap(c) for c in m))
    return (type(m).__name__, id(m), attrs, repr(m))


def snap_diff(a, b, path="root"):
    """First difference between two snapshots, as text."""
    if a[0] != b[0]:
        return f"{path}: type {a[0]} -> {b[0]}"
    if a[1] != b[1]:
        return f"{path}: a different object"
    if a[2] != b[2]:
        return f"{path} ({a[0]}): attributes {dict(a[2])} -> {dict(b[2])}"
    if isinstance(a[3], tuple):
        if len(a[3]) != len(b[3]):
            return f"{path}: length {len(a[3])} -> {len(b[3])}"
        for i, (x, y) in enumerate(zip(a[3], b[3])):
            d = snap_diff(x, y, f"{path}[{i}]")
            if d:
                return d
        return None
    return None if a[3] == b[3] else f"{path}: value {a[3]} -> {b[3]}"


def macro_text(i, beh, nmac):
    from mc.ref import mac_expand as X
    name = X.NAMES[i]
    if isinstance(beh, (list, tuple)):
        body = f"`({X.NAMES[beh[1]]} ~@args)"
    elif beh == "count":
        body = (f"(if (and args (isinstance (get args 0) hy.models.Integer) (> (int (get args 0)) 0))"
                f" `({name} ~(- (int (get args 0)) 1) ~@(cut args 1 None)) 'done)")
    elif beh == "arg":
        body = "(if args (get args -1) 'noarg)"
    elif beh == "decoy":
        body = "'decoy"
    else:
        body = X.TERMINAL_TEXT[beh]
    return f"(defmacro {name} [#* args] (TICK {i}) {body})"


def _setup(nmac):
    key = ("env", nmac)
    if key in _ENV:
        return _ENV[key]
    import types
    import hy
    from mc.ref import mac_expand as X
    scratch = types.ModuleType("mc36_macro_factory")
    ticks = []
    scratch.TICK = ticks.append
    fns = {}

    def define(text, mangled):
        hy.eval(hy.read_many(text), module=scratch)
        return scratch._hy_macros.pop(mangled)
    for i in range(nmac):
        for beh in behaviours(i, nmac) + ["decoy"]:
            fns[(i, _bk(beh))] = define(macro_text(i, beh, nmac), X.mangle(X.NAMES[i]))
    fns["mq"] = define("(defmacro mq [#* args] (TICK 9) 'dotted-done)", "mq")
    fns["user-when"] = define("(pragma :warn-on-core-shadow False) (defmacro when [#* args] (TICK 7) 'user-when)", "when")
    env = dict(hy=hy, ticks=ticks, fns=fns, scratch=scratch, n=0)
    _ENV[key] = env
    return env


def _bk(beh):
    return "call%d" % beh[1] if isinstance(beh, (list, tuple)) else beh


def install(env, nmac, config, placement, shadow_when=None):
    """-> (real module, real extras dict or None, model Env)"""
    import types
    from mc.ref import mac_expand as X
    env["n"] += 1
    M = types.ModuleType("mc36_case_%d" % env["n"])
    fns = env["fns"]
    mod_tab, mod_model = {"P.mq": fns["mq"]}, {"P.mq": (9, "mq")}
    ext_tab, ext_model = {}, {}
    for i in range(nmac):
        nm = X.mangle(X.NAMES[i])
        in_extras = placement == "extras+decoys" or (placement == "split" and i % 2 == 0)
        if in_extras:
            ext_tab[nm] = fns[(i, _bk(config[i]))]
            ext_model[nm] = (i, config[i])
            mod_tab[nm] = fns[(i, "decoy")]
            mod_model[nm] = (i, "decoy")
        else:
            mod_tab[nm] = fns[(i, _bk(config[i]))]
            mod_model[nm] = (i, config[i])
    if shadow_when == "module":
        mod_tab["when"] = fns["user-when"]
        mod_model["when"] = (7, "user-when")
    elif shadow_when == "extras":
        ext_tab["when"] = fns["user-when"]
        ext_model["when"] = (7, "user-when")
    M._hy_macros = mod_tab
    extras = ext_tab if (placement != "module" or shadow_when == "extras") else None
    return M, extras, X.Env(ext_model if extras is not None else None, mod_model)


def build_input(env, plain, mode):
    hy = env["hy"]
    if mode == "read":
        return hy.read(to_text(plain))
    m = to_model(plain)
    if mode == "outer-positions-only":
        m.start_line, m.start_column, m.end_line, m.end_column = 3, 5, 3, 9
    return m


def check_one(acc, env, nmac, config, placement, iname, plain, mode, fn, shadow_when=None, installed=None):
    from mc.ref import mac_expand as X
    hy = env["hy"]
    M, extras, model_env = installed or install(env, nmac, config, placement, shadow_when)
    case = {"nmac": nmac, "config": [list(b) if isinstance(b, (list, tuple)) else b for b in config], "placement": placement,
            "input": iname, "mode": mode, "fn": fn, "shadow_when": shadow_when}
    if fn == "macroexpand-1":
        want, want_ticks, outcome = X.macroexpand_1(plain, model_env)
        real = hy.macroexpand_1
    else:
        want, want_ticks, outcome = X.macroexpand(plain, model_env)
        real = hy.macroexpand
    inp = build_input(env, plain, mode)
    before = snap(inp)
    del env["ticks"][:]
    table_before = dict(M._hy_macros)
    acc.states += 1
    acc.evaluations += 1
    acc.traces += 1
    acc.transitions += 1 + len(want_ticks)
    if want_ticks or outcome not in ("no-macro",):
        acc.nontrivial += 1
    acc.outcome(fn + ":" + outcome)
    head = iname.split(":")[0]
    first = _bk(config[X.NAMES.index(iname.split(":")[1])]) if ":" in iname else head
    try:
        got = real(inp, module=M, macros=extras)
    except BaseException as e:
        acc.disagree("expansion-raised", case, f"{type(e).__name__}: {str(e)[:300]}; reference result {to_text_safe(want)}",
                     sig=f"raised:{type(e).__name__}:{fn}:{head}", exc=type(e).__name__, fn=fn, mode=mode, input=head, first=first)
        return
    got_ticks = list(env["ticks"])
    after = snap(inp)
    gp = to_plain(got) if isinstance(got, hy.models.Object) else ("non-model", type(got).__name__)
    if gp != want:
        acc.disagree("wrong-expansion", case,
                     f"{fn} of {to_text(plain)}: reference {to_text_safe(want)} after macros {want_ticks} ({outcome}); hy returned {to_text_safe(gp)} after macros {got_ticks}",
                     sig=f"result:{fn}:{outcome.split('-after')[0]}:{head}", fn=fn, mode=mode, input=head, first=first, outcome=outcome)
    elif got_ticks != want_ticks:
        acc.disagree("wrong-macro-invocations", case,
                     f"{fn} of {to_text(plain)}: same result {to_text_safe(want)} but macros invoked {got_ticks}, reference {want_ticks}",
                     sig=f"ticks:{fn}:{head}", fn=fn, mode=mode, input=head, first=first)
    d = snap_diff(before, after)
    if d:
        what = "positions-filled-in" if "attributes {}" in d and "_start_line" in d else "other"
        node = "sequence" if any(t in d for t in ("(Expression)", "(List)")) else "atom"
        acc.disagree("input-mutated", case,
                     f"{fn} of {to_text(plain)} (input built: {mode}) changed its input: {d}",
                     sig=f"mutated:{what}:{node}:{mode}", fn=fn, mode=mode, input=head, first=first, what=what, node=node)
    if dict(M._hy_macros) != table_before:
        acc.disagree("macro-table-changed", case, f"module._hy_macros keys now {sorted(M._hy_macros)}", sig="table-changed:" + fn, fn=fn)
    if outcome in ("no-macro", "core-result") and got is inp:
        acc.count("unchanged_result_is_the_same_object")


def to_text_safe(p):
    try:
        return to_text(p)
    except Exception:
        return repr(p)


def run_shard(shard, tier):
    b = BOUNDS[tier]
    nmac = b["nmac"]
    env = _setup(nmac)
    acc = Acc()
    ins = inputs(nmac)
    what, lo, hi = shard
    if what == "shadow":
        # a user macro named like the core macro `when`, in the module or in `macros`
        cfg = tuple("sym" for _ in range(nmac))
        for where in ("module", "extras"):
            for iname, plain in ins:
                for mode in MODES:
                    for fn in FNS:
                        check_one(acc, env, nmac, cfg, "module", iname, plain, mode, fn, shadow_when=where)
        return acc.result()
    for idx, config in enumerate(itertools.islice(configs(nmac), lo, hi), lo):
        for placement in PLACEMENTS:
            installed = install(env, nmac, config, placement)
            for iname, plain in ins:
                for mode in MODES:
                    for fn in FNS:
                        check_one(acc, env, nmac, config, placement, iname, plain, mode, fn, installed=installed)
        if idx % 577 == 0:
            acc.sample({"config": {n: str(c) for n, c in zip(["m1", "m2", "m-3", "m4"], config)}, "inputs": [to_text(p) for _, p in ins][:8]})
    return acc.result()


def recheck(case, tier):
    nmac = case["nmac"]
    env = _setup(nmac)
    acc = Acc()
    plain = dict(inputs(nmac))[case["input"]]
    config = tuple(tuple(b) if isinstance(b, list) else b for b in case["config"])
    check_one(acc, env, nmac, config, case["placement"], case["input"], plain, case["mode"], case["fn"], shadow_when=case.get("shadow_when"))
    return acc.disagreements


def snippet(d):
    c = d["case"]
    nmac = c["nmac"]
    from mc.ref import mac_expand as X
    plain = dict(inputs(nmac))[c["input"]]
    defs = "\n".join(macro_text(i, tuple(b) if isinstance(b, list) else b, nmac) for i, b in enumerate(c["config"]))
    build = {"read": f"inp = hy.read({to_text(plain)!r})",
             "bare": "inp = build(plain)",
             "outer-positions-only": "inp = build(plain); inp.start_line, inp.start_column, inp.end_line, inp.end_column = 3, 5, 3, 9"}[c["mode"]]
    fn = "hy.macroexpand_1" if c["fn"] == "macroexpand-1" else "hy.macroexpand"
    return (
        "import types, hy, hy.models as M\n"
        "mod = types.ModuleType('c36'); mod.TICK = lambda i: print('macro', i, 'invoked')\n"
        f"hy.eval(hy.read_many({defs!r} + \" (defmacro mq [#* args] 'dotted-done)\"), module=mod)\n"
        "mod._hy_macros['P.mq'] = mod._hy_macros.pop('mq')\n"
        f"plain = {plain!r}\n"
        "def build(t):\n"
        "    k = t[0]\n"
        "    if k in ('expr', 'list'): return (M.Expression if k == 'expr' else M.List)([build(c) for c in t[1]])\n"
        "    return {'sym': M.Symbol, 'int': M.Integer, 'str': M.String, 'kw': M.Keyword}[k](t[1])\n"
        "def snap(m): return (type(m).__name__, dict(vars(m)), [snap(c) for c in m] if isinstance(m, M.Sequence) else repr(m))\n"
        f"{build}\nbefore = snap(inp)\n"
        f"# (this snippet installs every macro in the module; the case used placement {c['placement']!r})\n"
        f"print('result:', hy.repr({fn}(inp, module=mod)))\n"
        "print('input unchanged:', snap(inp) == before)\nprint(before)\nprint(snap(inp))\n"
        f"# reference: {d['detail'][:300]!r}\n")
