"""C04  Comprehension forms produce the reference nested-loop result.

Space: every clause list of length 0..k over the clause kinds of
mc/ref/cf_terms.py (iteration, iteration with destructuring, :if, :setv, :do;
plus, in the full alphabet, :do with a body assignment, :do with (continue),
:do with (break), iteration over an empty iterable) x every final form
(lfor/sfor/gfor: value, #* xs, (setx w value), a nested lfor with a body
assignment in both strategies; dfor: key+value, #** d, value (setx ...),
value nested; for: body, +else, +break, +else+break, body with a nested lfor)
x {pure subforms, one subform replaced by (do (assert (log i True)) e) at
each position — iterables, conditions, :setv values, value/key/unpacked
operand, for-body, else} x {module,
function, class scope} x {variables unbound before the form, every variable
pre-bound to a sentinel}.  Iterables are tiny literals; every subform logs.
Oracle: mc/ref/cf_eval.py, the nested-loop reading of docs/api.rst run with
Python's own loops: result type, elements and order, exact effect log
(key/value of dfor unordered among themselves), gfor laziness step by step,
and the names visible in the enclosing scope after the form with their values.
"""
import re
import types

from mc.util import Acc, time_limit, CaseTimeout
from mc.ref import cf_terms as T
from mc.ref import cf_eval as R

ID = "C04"
ENGINE = "E1-enumerator"
TECHNIQUE = ("bounded exhaustive enumeration of comprehension programs (clause lists x final forms x statement-wrap position x scope x pre-binding), "
             "each compiled by the real compiler, executed, and compared with a reference evaluator of the documented nested-loop reading "
             "(result type, elements, order, effect log, generator steps, names visible afterwards)")
LEVEL_TEXT = ("Every clause list up to the length bound over the clause alphabet, with every final form of lfor/sfor/dfor/gfor/for, is compiled with the real "
              "compiler in its pure variant (native Python comprehension) and with a statement-producing but equivalent form in each subform position "
              "(generator-function strategy), in module, function and class scope, with and without pre-bound variables of the same names, and executed; "
              "result type, elements in order, the exact in-loop effect order, gfor's step-by-step laziness, for's else/break behaviour and the set and "
              "values of names visible in the enclosing scope afterwards are compared with a reference evaluator written with Python's own loops from "
              "docs/api.rst. Exhaustive within the bounds.")
RULE = ("units = (root, clause-kind list, final kind) enumerated by list length then lexicographically; a case = (unit, statement-wrap slot or none, scope, mode); "
        "non-trivial = a specified case whose reference run evaluates the value/body at least once and that has >= 2 clauses or a statement-wrapped subform "
        "(so clause nesting or the generator-function strategy is exercised), counted per distinct case; 'unspecified' = no iteration clause at all, "
        ":if before the first iteration clause, or a body assignment inside a comprehension in class scope: weak oracle (no internal error) only")
ASSUMPTIONS = [
    "clause kinds, final forms, literal iterables ([c1 c2], [[c1 c2] [c3 c4]], []) and the statement producer (do (assert (log i True)) e) of mc/ref/cf_terms.py only; no :async clauses",
    "all variable names distinct: no assignment to an iteration variable inside the body (docs ambiguous), no reference to a class-body variable from inside a comprehension",
    "unspecified (weak oracle: compiles and runs, or raises a user-facing error that is not a wrapped internal exception): clause lists without any iteration clause "
    "(docs do not say whether the value is evaluated once or never; Hy's tests pin [] for the empty list only), :if before the first iteration clause "
    "(its documented expansion is a (continue) outside any loop), body assignments inside a comprehension in class scope (Python itself rejects them; Hy keeps them local)",
    "key and value of one dfor element are sibling forms: their relative evaluation order is not fixed by the docs, any interleaving is accepted",
    "gfor: evaluation of the first clause's expression (first iterable, or leading :setv value) at creation time is tolerated either way, as for Python generator expressions",
    "explicit (continue)/(break) clauses with no iteration clause before them are not generated (Python rejects them); a nested comprehension in the body of a `for` in class scope is not generated (it would read class-body variables)",
    "the longest clause lists of a tier are run in function scope only (thorough: also without pre-bound variables only); see bounds",
    "speed shortcut: the scope x mode programs of one term share the form's models, read once by the real reader, inside separately read wrappers; the pure variant of every unit is also run from its full text, and every disagreement is re-derived from the full text before it is reported",
]
TIME_CAP = {"quick": 900, "thorough": 5400}

BOUNDS = {
    "quick": dict(runs=[(T.CORE_KINDS, 3), (T.FULL_KINDS, 2)], function_scope_only_from=3, fresh_only_from=99, shards=128),
    "thorough": dict(runs=[(T.CORE_KINDS, 5), (T.FULL_KINDS, 3)], function_scope_only_from=5, fresh_only_from=5, shards=2048),
}


def bounds(tier):
    b = BOUNDS[tier]
    return {"clause_alphabets_and_max_length": b["runs"], "roots": T.ROOTS, "final_forms": T.FINALS,
            "statement_wrap": "none + each wrappable subform slot", "scopes": T.SCOPES, "modes": T.MODES,
            "clause_lists_of_this_length_or_more_in_function_scope_only": b["function_scope_only_from"],
            "clause_lists_of_this_length_or_more_without_pre_bound_variables_only": b["fresh_only_from"]}


_UNITS = {}


def _units(tier):
    if tier not in _UNITS:
        _UNITS[tier] = T.units(BOUNDS[tier]["runs"])
    return _UNITS[tier]


def shards(tier):
    n = len(_units(tier))
    s = BOUNDS[tier]["shards"]
    step = -(-n // s)
    return [[lo, min(n, lo + step)] for lo in range(0, n, step)]


# ---------------------------------------------------------------- implementation side
class Fuel(BaseException):
    pass


_INTERNAL = re.compile(r"\n\s*(IndexError|KeyError|AttributeError|TypeError|ValueError|AssertionError|NameError|"
                       r"UnboundLocalError|RecursionError|StopIteration|ZeroDivisionError):")


_FORM_CACHE = {}
_WRAPPER_CACHE = {}


def _models_fast(term, scope, mode):
    """The program's models, built from the form's models (read ONCE per term by the real reader)
    and the wrapper's models (read once per (scope, mode, names)) instead of re-reading the whole
    text for each of the six scope x mode programs of a term.  Reading dominates the cost of a
    case.  Every disagreement found this way is re-derived from the full text before it is
    reported (check_case), and again in a fresh process by the runner."""
    import hy
    from hy.models import Expression, Symbol, Sequence
    ftext = T.r_form(term)
    if _FORM_CACHE.get("text") != ftext:
        _FORM_CACHE["text"] = ftext
        _FORM_CACHE["model"] = hy.read(ftext)
    form = _FORM_CACHE["model"]
    key = (scope, mode, tuple(T.all_names(term)) if mode == "shadow" else ())
    w = _WRAPPER_CACHE.get(key)
    if w is None:
        if len(_WRAPPER_CACHE) > 5000:
            _WRAPPER_CACHE.clear()
        w = _WRAPPER_CACHE[key] = list(hy.read_many(T.r_program(term, scope, mode, form=T.FORM_PLACEHOLDER)))
    ph = Symbol(T.FORM_PLACEHOLDER)

    def subst(m):
        if isinstance(m, Symbol):
            return form if m == ph else m
        if isinstance(m, Sequence):
            return type(m)(subst(c) for c in m).replace(m, recursive=False)
        return m
    return Expression([Symbol("do")] + [subst(m) for m in w])


def run_impl(text, fast=None):
    """Compile and execute one program; returns a dict of observations.
    fast = (term, scope, mode): build the models without re-reading the whole text."""
    import ast
    import warnings
    from mc import hyside
    warnings.simplefilter("ignore")
    mod = hyside.fresh_module()
    log = []

    def logf(i, v):
        if len(log) > 4000:
            raise Fuel()
        log.append((i, repr(v)))
        return v

    def obs(r):
        rec = {"created": len(log), "gen": isinstance(r, types.GeneratorType), "steps": None}
        if rec["gen"]:
            steps = []
            while True:
                try:
                    v = next(r)
                except StopIteration:
                    steps.append((len(log), ("stop",)))
                    break
                steps.append((len(log), ("yield", v)))
                if len(steps) > 1000:
                    raise Fuel()
            rec["steps"] = steps
        rec["end"] = len(log)
        return rec

    mod.log, mod.obs = logf, obs
    out = {"phase": "compile", "log": log, "strategy": "?"}
    try:
        with time_limit(30):
            if fast is not None:
                from hy.compiler import hy_compile
                tree = hy_compile(_models_fast(*fast), mod, filename="<case>")
            else:
                tree = hyside.compile_text(text, mod)
            gf = any(isinstance(n, ast.FunctionDef) and n.name.startswith("_hy_anon") for n in ast.walk(tree))
            nat = any(isinstance(n, (ast.ListComp, ast.SetComp, ast.DictComp, ast.GeneratorExp)) and
                      not (isinstance(n.generators[0].iter, ast.Call) and isinstance(n.generators[0].iter.func, ast.Name)
                           and n.generators[0].iter.func.id.startswith("_hy_anon"))
                      for n in ast.walk(tree))
            out["strategy"] = "genfunc" if gf else ("native" if nat else "plain")
            code = compile(tree, "<case>", "exec")
    except CaseTimeout:
        out["exc"] = ("timeout", "")
        return out
    except BaseException as e:
        out["exc"] = (type(e).__name__, str(e)[:300])
        m = _INTERNAL.search(str(e))
        out["wrapped"] = m.group(1) if m else ""
        out["user_error"] = hyside.is_user_error(e) and not m
        return out
    out["phase"] = "run"
    try:
        with time_limit(30):
            exec(code, mod.__dict__)
    except CaseTimeout:
        out["exc"] = ("timeout", "")
        return out
    except BaseException as e:
        out["exc"] = (type(e).__name__, str(e)[:300])
        out["user_error"] = False
        return out
    out["phase"] = "done"
    nm = mod.__dict__.get("nm")
    out["nm"] = {k: v for k, v in nm.items()
                 if not k.startswith("_hy_") and not k.startswith("__") and k not in ("hy", "log", "obs")} if isinstance(nm, dict) else None
    return out


# ---------------------------------------------------------------- one case
def _sig_wrap(term):
    if term["wrap"] is None:
        return "pure"
    n_clause_slots = sum(1 for c in term["clauses"] if c[0] != "do")
    return "clause" if term["wrap"] < n_clause_slots else "final"


def _merge(acc, other, counters=True):
    if counters:
        for k in ("states", "transitions", "traces", "evaluations", "nontrivial", "unspecified"):
            setattr(acc, k, getattr(acc, k) + getattr(other, k))
        for k, v in other.outcomes.items():
            acc.outcome(k, v)
        for k, v in other.counts.items():
            acc.count(k, v)
        for smp in other.samples:
            acc.sample(smp)
    for d in other.disagreements:
        d = dict(d)
        acc.disagree(d.pop("kind"), d.pop("case"), d.pop("detail"), sig=d.pop("sig"), **d)


def check_case(acc, term, scope, mode, sample=False, fast=False):
    """fast: take the shortcut of _models_fast; a disagreement found that way is re-derived from the text."""
    if fast is True:
        probe = Acc()
        check_case(probe, term, scope, mode, sample=sample, fast="probe")
        if not probe.disagreements:
            _merge(acc, probe)
            return
        slow = Acc()
        check_case(slow, term, scope, mode, sample=sample, fast=False)
        _merge(acc, slow)
        if not slow.disagreements:
            d = probe.disagreements[0]
            acc.disagree("harness-fastpath-mismatch", d["case"], "only with shared models: " + d["detail"], sig="harness-fastpath-mismatch")
        return
    text = T.r_program(term, scope, mode)
    case = {"root": term["root"], "kinds": term["kinds"], "fin": term["fin"], "wrap": term["wrap"],
            "scope": scope, "mode": mode, "text": text}
    cls = T.classify(term, scope)
    fields = dict(root=term["root"], fin=term["fin"], kinds=term["kinds"] or "-", scope=scope, mode=mode, wrap=_sig_wrap(term))

    acc.states += 1
    acc.evaluations += 1
    r = run_impl(text, fast=(term, scope, mode) if fast == "probe" else None)
    acc.transitions += len(r["log"]) + 1
    fields["strategy"] = r["strategy"]
    acc.count("strategy:" + term["root"] + ":" + r["strategy"])

    def bad(kind, detail, **kw):
        f = dict(fields)
        f.update(kw)
        sig = ":".join([kind, "for" if term["root"] == "for" else "comprehension",
                        "-" if kind == "internal-error-in-unspecified-form" else term["fin"], r["strategy"], str(kw.get("exc", ""))])
        acc.disagree(kind, case, detail + "  || program: " + text.replace("\n", " "), sig=sig, **f)

    if cls != "specified":
        acc.unspecified += 1
        acc.count("unspecified:" + cls)
        if "exc" in r:
            acc.outcome(f"unspecified:{r['phase']}-error:{r['exc'][0]}")
            if r["phase"] == "compile":
                # a user-facing error (not one that merely wraps an internal exception), or Python's own SyntaxError for the emitted AST
                ok = r.get("user_error") or r["exc"][0] == "SyntaxError"
            else:
                # what an unspecified program does at run time is not judged, unless it hangs or breaks the interpreter
                ok = r["exc"][0] not in ("timeout", "Fuel", "SystemError", "RecursionError", "MemoryError")
            if not ok:
                bad("internal-error-in-unspecified-form", f"{cls}: {r['exc'][0]}: {r['exc'][1]}",
                    exc=r["exc"][0] + (":" + r["wrapped"] if r.get("wrapped") else ""), unspecified_class=cls)
        else:
            acc.outcome("unspecified:ran")
        return

    ref = R.reference(term, mode)
    acc.traces += 1
    if ref["body_runs"] >= 1 and (len(term["kinds"]) >= 2 or term["wrap"] is not None):
        acc.nontrivial += 1
    if sample:
        acc.sample({"hy": text, "reference_result": repr(ref["value"])[:200], "reference_events": len(ref["log"]), "strategy": r["strategy"]})

    if "exc" in r:
        acc.outcome(f"{r['phase']}-error:{r['exc'][0]}")
        bad("compile-failed" if r["phase"] == "compile" else "raised", f"{r['exc'][0]}: {r['exc'][1]}; log so far {r['log'][:12]}", exc=r["exc"][0])
        return
    nm = r["nm"]
    if nm is None or "o" not in nm or "r" not in nm:
        bad("harness-no-observation", f"nm={nm!r}")
        return
    o, res = nm["o"], nm["r"]
    root = term["root"]
    if root == "for":
        oc = "for:" + ("else-ran" if ref["else_ran"] else ("else-skipped" if term["else"] is not None else "no-else"))
    else:
        oc = f"{root}:{r['strategy']}:" + ("nonempty" if ref["value"] else "empty")
    acc.outcome(oc)

    # 1. result type
    want_type = {"list": list, "set": set, "dict": dict, "none": type(None), "gen": types.GeneratorType}[ref["kind"]]
    if type(res) is not want_type:
        bad("wrong-result-type", f"expected {want_type.__name__}, got {type(res).__name__}: {res!r}", got_type=type(res).__name__)
        return
    # 2. effect log
    if not R.log_matches(ref["log"], ref["par"], r["log"]):
        kind = "wrong-effect-log"
        if root == "for" and term["else"] is not None:
            es = term["else"][1] if term["else"][0] == "log" else term["else"][2][1]
            n_ref = sum(1 for e in ref["log"] if e[0] == es)
            n_imp = sum(1 for e in r["log"] if e[0] == es)
            if n_ref != n_imp:
                kind = "for-else-wrong"
        bad(kind, f"reference log {ref['log'][:24]} implementation log {r['log'][:24]}")
        return
    # 3. elements
    if ref["kind"] == "gen":
        isteps = o["steps"]
        ivals = [s[1][1] for s in isteps if s[1][0] == "yield"]
        if repr(ivals) != repr(ref["value"]):
            bad("wrong-elements", f"expected {ref['value']!r}, got {ivals!r}")
            return
        if o["created"] not in (0, ref["first_expr_end"]):
            bad("gfor-not-lazy", f"{o['created']} effects happened before the first next(): {r['log'][:o['created']]} "
                                 f"(only the first clause's expression, {ref['first_expr_end']} effects, may be evaluated early)")
            return
        if [s[0] for s in isteps] != [s[0] for s in ref["steps"]]:
            bad("gfor-wrong-steps", f"effects per next() differ: reference {[s[0] for s in ref['steps']]} implementation {[s[0] for s in isteps]}")
            return
    elif ref["kind"] == "dict":
        if repr(list(res.items())) != repr(list(ref["value"].items())):
            bad("wrong-elements", f"expected {ref['value']!r}, got {res!r}")
            return
    elif ref["kind"] == "set":
        if res != ref["value"] or sorted(map(repr, res)) != sorted(map(repr, ref["value"])):
            bad("wrong-elements", f"expected {ref['value']!r}, got {res!r}")
            return
    else:
        if repr(res) != repr(ref["value"]):
            bad("wrong-elements", f"expected {ref['value']!r}, got {res!r}")
            return
    # 4. names visible in the enclosing scope after the form
    env = ref["env"]
    for name in sorted(nm):
        if name in ("r", "o"):
            continue
        if name not in env:
            if name in term["comp_vars"]:
                bad("comprehension-variable-leaked", f"{name} = {nm[name]!r} is visible after the form", var=name[0])
            else:
                bad("unexpected-name", f"{name} = {nm[name]!r} is visible after the form", var=name[0])
            return
    for name in sorted(env):
        if name not in nm:
            bad("for-variable-not-visible" if root == "for" else "body-assignment-not-visible",
                f"{name} should be {env[name]!r} after the form but is unbound; visible: {sorted(nm)}", var=name[0])
            return
        if repr(nm[name]) != repr(env[name]):
            if name in term["comp_vars"]:
                bad("comprehension-variable-leaked", f"outer {name} should still be {env[name]!r} but is {nm[name]!r}", var=name[0])
            else:
                bad("wrong-variable-value", f"{name} should be {env[name]!r} after the form but is {nm[name]!r}", var=name[0])
            return


def run_shard(shard, tier):
    acc = Acc()
    lo, hi = shard
    us = _units(tier)
    cut = BOUNDS[tier]["function_scope_only_from"]
    for idx in range(lo, hi):
        root, kinds, fin = us[idx]
        acc.count("root:" + root)
        acc.count("final:" + fin)
        acc.count("clauses:" + str(len(kinds)))
        scopes = T.SCOPES if len(kinds) < cut else ["function"]
        modes = T.MODES if len(kinds) < BOUNDS[tier]["fresh_only_from"] else ["fresh"]
        for vi, term in enumerate(T.variants(root, kinds, fin)):
            for scope in scopes:
                if not T.generated(term, scope):
                    continue
                for mode in modes:
                    if mode == "fresh" and "Q" in kinds:
                        continue        # the first iterable would read an unbound name
                    before = len(acc.disagreements) + acc.counts.get("disagreements_not_listed(sig already has 25 in this shard)", 0)
                    check_case(acc, term, scope, mode, fast=True,
                               sample=(idx % 397 == 11 and vi == 1 and scope == "function" and mode == "fresh"))
                    after = len(acc.disagreements) + acc.counts.get("disagreements_not_listed(sig already has 25 in this shard)", 0)
                    if vi == 0 and mode == "fresh" and after == before:
                        # cross-check of the shortcut: the pure variant of every unit is also run from its full text
                        slow = Acc()
                        check_case(slow, term, scope, mode, fast=False)
                        acc.count("full-text cross-checks of the shared-model shortcut")
                        acc.evaluations += 1
                        _merge(acc, slow, counters=False)
    return acc.result()


def recheck(case, tier):
    acc = Acc()
    term = T.build(case["root"], tuple(case["kinds"]), case["fin"], case["wrap"])
    check_case(acc, term, case["scope"], case["mode"])
    return acc.disagreements


def snippet(d):
    c = d["case"]
    return ("import hy, types\nfrom hy.compiler import hy_compile\nLOG = []\n"
            "def log(i, v): LOG.append((i, repr(v))); return v\n"
            "def obs(r):\n"
            "    created = len(LOG)\n"
            "    return [created] + ([(v, len(LOG)) for v in r] if isinstance(r, types.GeneratorType) else [])\n"
            f"text = {c['text']!r}\n"
            "m = types.ModuleType('case'); m.log, m.obs = log, obs\n"
            "exec(compile(hy_compile(hy.read_many(text), m), '<case>', 'exec'), m.__dict__)\n"
            "print({k: v for k, v in m.nm.items() if not k.startswith('_')}); print(LOG)\n"
            f"# {d['kind']}: {d['detail'][:400]!r}\n")
