"""C39  hy.eval returns the last value and restores the caller's `hy` binding.

Spaces (E2, real dictionaries, reference interpreter in lock-step):

(a) single calls: every program of <= n statements over a 13-statement
    alphabet (constants, user-variable writes / reads, rebinding `hy`,
    deleting `hy`, using the implicit `hy`, an effect point that can raise,
    an explicit raise, a compile-time rejection, a reader error, an explicit
    `global hy` rebinding), in both renderings (multi-form Lazy / one `do`),
    with a failure injected at each effect point, x every call shape
    (globals only; locals only; both, distinct; the same dict for both; the
    module's own globals; the module's own globals + separate locals; no
    dict) x every initial `hy` state (absent / the hy module / a sentinel /
    a falsy value) of every dictionary the shape uses x {with user
    variables, truly empty}.
(b) histories: every sequence of <= k calls over (shape x 13 (depth 2) or
    8 (depth 3) program/fault operations) on shared dictionaries, for every initial absent/sentinel
    configuration of the three dictionaries, with <= 2 injected failures.

Oracle after EVERY call: outcome (value of the last form / exception class)
equals the reference interpreter's; every dictionary GIVEN to the call has a
`hy` entry iff it had one before the call, and the identical object; user
variables equal the reference's.
"""
import itertools

from mc.util import Acc

ID = "C39"
ENGINE = "E2-history"
TECHNIQUE = ("explicit-state BFS over histories of hy.eval calls on shared real dictionaries (replay from fresh dictionaries), exhaustive "
             "programs x call shapes x initial `hy` states x injected failures at every effect point, reference interpreter in lock-step")
LEVEL_TEXT = ("Every program up to n statements, in every call shape and for every initial state of the caller's `hy` entry, with a failure at "
              "every effect point, is evaluated by the real hy.eval; every history of up to k such calls on shared dictionaries is replayed. "
              "After every call the `hy` entry of each given dictionary is compared by identity with what it was before, and the returned "
              "value with a reference interpreter. Exhaustive within the bounds.")
RULE = ("single calls: enumerated by (shape, initial hy states, bare?, rendering, statement sequence, fault), all distinct; non-trivial = the "
        "code rebinds or deletes `hy`, or an exception escapes, or a given dictionary had a `hy` entry before. histories: BFS over operation "
        "sequences; state = canonical ((hy label, x, y, extra keys) of G, L and the module dict, failures spent); 'states' = distinct canonical "
        "states of the pruned state-graph searches plus the single-call cases; non-trivial history = >= 2 calls touching the same dictionary "
        "with at least one of them failing or rebinding `hy`")
ASSUMPTIONS = [
    "programs over the listed statements only; length bounds as stated; a module object is always passed as `module` (fresh per history)",
    "unspecified (weak oracle: no comparison, reference resynchronised): calls that give hy.eval no dictionary at all (shape m); explicit `(global hy)` "
    "rebinding when globals is not locals; what code that reads `hy` AFTER deleting it observes when globals is not locals; the value of the bare form `hy`",
    "the `hy` entry of a dictionary that was NOT given to the call (e.g. the module's dict when only `locals` is given) is observed, not judged",
    "extra keys the implementation may leave in a dictionary (other than `hy`) are counted in the outcome histogram, not judged",
    "failures are injected as a BaseException subclass raised by a builtin effect function",
]

STMTS = ["c", "sx", "ix", "rx", "sy", "sh", "dh", "rh", "uh", "t", "r", "ce", "gh"]

# history alphabet: (statements, rendering, fault set)
HPROGS = [
    (["sx", "t", "rx"], "many", []), (["sh", "t", "c"], "do", [1]),
    (["dh", "t", "c"], "many", []), (["dh", "t", "c"], "many", [1]),
    (["ix", "rx"], "do", []),
    (["sx", "sh", "r"], "many", []),
    (["sx", "re"], "many", []),
    (["uh"], "many", []),
    # quick tier (depth 2) also uses:
    (["sx", "t", "rx"], "many", [1]), (["sh", "t", "c"], "many", []),
    (["sx", "ce"], "many", []),
    (["t", "sh", "t", "c"], "many", [2]),
    (["sy", "dh"], "many", []),
]

BOUNDS = {
    "quick": dict(prog_len=2, depth=2, total_faults=2, graph_depth=3, hy_states_hist=["A", "S"], hprogs=13),
    "thorough": dict(prog_len=3, depth=3, total_faults=2, graph_depth=4, hy_states_hist=["A", "S"], hprogs=8),
}
TIME_CAP = {"quick": 600, "thorough": 3600}


def bounds(tier):
    from mc.ref import hs_eval as H
    b = BOUNDS[tier]
    return {"statements": {k: H.STATEMENTS[k] for k in STMTS + ["re"]}, "max_program_statements": b["prog_len"],
            "renderings": ["many (hy.read_many Lazy)", "do"], "call_shapes": H.GIVEN, "initial_hy_states": H.HY_STATES,
            "history_operations": [[" ".join(H.STATEMENTS[s] for s in p), r, f] for p, r, f in HPROGS[:b["hprogs"]]],
            "all_history_operations_to_length": BOUNDS["quick"]["depth"],
            "max_history_length": b["depth"], "history_initial_hy_states": b["hy_states_hist"], "max_failures_per_history": b["total_faults"],
            "state_graph_search_depth": b["graph_depth"]}


def _hist_cfgs(tier):
    st = BOUNDS[tier]["hy_states_hist"]
    return ["".join(c) for c in itertools.product(st, repeat=3)]


SHAPES = ["g", "l", "gl", "ll", "mg", "mgl", "m"]
USES = {"g": "G", "l": "LM", "gl": "GL", "ll": "L", "mg": "M", "mgl": "ML", "m": "M"}


def shards(tier):
    out = []
    for cfg in _hist_cfgs(tier):
        out.append(["graph", cfg])
        for shape in SHAPES:
            out.append(["hist", cfg, shape])
    for shape in SHAPES:
        for render in ("many", "do"):
            for first in STMTS + [""]:
                out.append(["single", shape, render, first])
    return out


def _programs(n, first, render):
    """Statement sequences of length <= n starting with `first` ('' = the empty
    program only); for the multi-form rendering also each one followed by the
    reader error."""
    if first == "":
        seqs = [[]]
    else:
        seqs = []
        for k in range(0, n):
            for rest in itertools.product(STMTS, repeat=k):
                seqs.append([first] + list(rest))
    out = list(seqs)
    if render == "many":
        out += [s + ["re"] for s in seqs if len(s) < n]
    return out


def _case(cfg, bare, history):
    return {"cfg": cfg, "bare": bool(bare), "history": [[op[0], list(op[1]), op[2], list(op[3])] for op in history]}


class Ctx:
    pass


class EvalSystem:
    """op = [shape, statements, rendering, fault set]"""

    def __init__(self, cfg, bare, ops, total_faults, acc, only_after=None):
        from mc.ref import hs_eval as H
        self.H = H
        self.only_after = only_after      # (core programs, extra ops): after a history of core programs only, enable just the extra ops
        self.cfg = {"hy": cfg, "bare": bare}
        self.ops = ops
        self.total_faults = total_faults
        self.acc = acc
        H.install()

    def reset(self):
        ctx = Ctx()
        ctx.env = self.H.Env(self.cfg)
        ctx.spent = 0
        ctx.all_core = True
        ctx.touched = {}
        ctx.nontrivial = False
        ctx.last = None
        return ctx

    def enabled(self, ctx, d):
        left = self.total_faults - ctx.spent
        ops = self.ops
        if self.only_after is not None and ctx.all_core:
            ops = self.only_after[1]
        return [op for op in ops if len(op[3]) <= left]

    def canon(self, ctx):
        return (ctx.env.canon(), ctx.spent)

    def nontrivial(self, ctx):
        return ctx.nontrivial

    def step(self, ctx, op):
        H = self.H
        env = ctx.env
        shape, stmts, render, faults = op
        if self.only_after is not None and [stmts, render, faults] not in self.only_after[0]:
            ctx.all_core = False
        before = {d: env.real[d].get("hy", H.ABSENT) for d in "GLM"}
        before_lab = {d: env.hy_label(before[d]) for d in "GLM"}
        ref_out, rticks, rfired, unspec, out_unspec = H.call_ref(env, shape, stmts, render, faults)
        out, ticks, fired = H.call_real(env, shape, stmts, render, faults)
        ctx.spent += len(faults)
        problems = []
        opk = "%s|%s|%s|%s" % (shape, " ".join(stmts), render, ",".join(map(str, faults)))
        how = out[0] if out[0] != "raise" else "raise:" + out[1]
        phase = ("read" if "re" in stmts else "compile" if "ce" in stmts else "run")
        interesting = bool({"sh", "dh", "gh"} & set(stmts)) or out[0] == "raise"
        for d in H.GIVEN[shape]:
            if ctx.touched.get(d) and (interesting or ctx.touched[d] == "interesting"):
                ctx.nontrivial = True
        for d in H.GIVEN[shape]:
            ctx.touched[d] = "interesting" if interesting or ctx.touched.get(d) == "interesting" else "plain"
        ctx.last = (shape, out, ref_out, unspec or ("outcome" if out_unspec else None), before_lab)
        if unspec:
            self.acc.unspecified += 1
            H.resync(env, shape, unspec)
            self._resync_vars(env)
            if out[0] == "raise" and out[1] in ("HyCompileError", "SystemError", "RecursionError"):
                problems.append(dict(kind="internal-error", sig="internal:" + out[1], exc=out[1], shape=shape, op=opk,
                                     detail="hy.eval raised %s" % (out[1],)))
            return problems
        # 1. the caller's `hy` binding in every GIVEN dictionary
        for d in H.GIVEN[shape]:
            now = env.real[d].get("hy", H.ABSENT)
            if now is not before[d]:
                role = {"G": "globals", "L": "locals" if shape != "ll" else "globals+locals", "M": "globals(module dict)"}[d]
                if shape in ("g", "mg"):
                    role = role.replace("globals", "globals(=locals)")
                problems.append(dict(
                    kind="hy-binding-not-restored",
                    sig="restore:%s:%s:%s" % (shape, d, "gained" if before[d] is H.ABSENT else "lost" if now is H.ABSENT else "changed"),
                    change=("gained" if before[d] is H.ABSENT else "lost" if now is H.ABSENT else "changed"),
                    shape=shape, dict=role, before=before_lab[d], after=env.hy_label(now).split(":")[0],
                    call=("returned" if out[0] == "ok" else "raised-at-" + phase), op=opk,
                    detail="shape %s, dictionary %s: `hy` was %s before the call and is %s after it (call %s)"
                           % (shape, role, before_lab[d], env.hy_label(now), how)))
        # 2. result / outcome against the reference interpreter
        if out_unspec:
            self.acc.unspecified += 1
            self._resync_vars(env)
        else:
            if ref_out[0] == "ok":
                if out[0] != "ok":
                    problems.append(dict(kind="evaluation-raised-unexpectedly", sig="out:raised:%s" % out[1], exc=out[1], shape=shape, op=opk,
                                         detail="hy.eval raised %s; the reference interpreter returns %r" % (out[1], ref_out[1])))
                elif ref_out[1] is not H.UNSPEC and not _same(out[1], ref_out[1]):
                    problems.append(dict(kind="result-is-not-value-of-last-form", sig="out:value:%s" % stmts[-1] if stmts else "out:value:empty",
                                         last=(stmts[-1] if stmts else "empty"), shape=shape, op=opk,
                                         detail="hy.eval returned %r; the value of the last form is %r" % (out[1], ref_out[1])))
            else:
                if out[0] == "ok":
                    problems.append(dict(kind="evaluation-returned-instead-of-raising", sig="out:returned:%s" % ref_out[1], expected=ref_out[1], shape=shape, op=opk,
                                         detail="hy.eval returned %r; the reference interpreter raises %s" % (out[1], ref_out[1])))
                elif out[1] != ref_out[1]:
                    problems.append(dict(kind="evaluation-raised-other-exception", sig="out:exc:%s:%s" % (ref_out[1], out[1]), expected=ref_out[1], exc=out[1],
                                         shape=shape, op=opk, detail="hy.eval raised %s; the reference interpreter raises %s" % (out[1], ref_out[1])))
            # 3. user variables
            for d in "GLM":
                for v in ("x", "y"):
                    a, b = env.real[d].get(v, H.ABSENT), env.ref[d].get(v, H.ABSENT)
                    if not _same(a, b):
                        problems.append(dict(kind="user-variable-differs-from-reference", sig="var:%s:%s" % (d, v), dict=d, var=v, shape=shape, op=opk,
                                             detail="after the call %s[%r] is %r, reference %r" % (d, v, a, b)))
        H.resync(env, shape, None)
        return problems

    def _resync_vars(self, env):
        for d in "GLM":
            for v in ("x", "y"):
                if v in env.real[d]:
                    env.ref[d][v] = env.real[d][v]
                else:
                    env.ref[d].pop(v, None)

    def outcome(self, ctx):
        shape, out, ref_out, unspec, before = ctx.last
        if unspec:
            return "unspecified:%s" % (unspec.split()[0],)
        cls = out[0] if out[0] != "raise" else "raise:" + out[1]
        ex = ctx.env.canon()
        extra = "+extra-keys" if any(o[3] for o in ex) else ""
        return "%s/%s/before=%s%s" % (shape, cls, "".join(before[d] for d in self.H.GIVEN[shape]), extra)


def _same(a, b):
    if a is b:
        return True
    return type(a) is type(b) and a == b


def _hist_ops(tier, lo=0, hi=None):
    hi = BOUNDS[tier]["hprogs"] if hi is None else hi
    return [[shape, p, r, f] for shape in SHAPES for p, r, f in HPROGS[lo:hi]]


def _on_problem(acc, cfg, bare):
    def f(history, p):
        p = dict(p)
        acc.disagree(p.pop("kind"), _case(cfg, bare, history), p.pop("detail"), sig=p.pop("sig"), depth=str(len(history)),
                     **{k: str(v) for k, v in p.items()})
    return f


def _explore(acc, tier, cfg, roots, prune, depth, count_states, wide=False):
    from mc import hist
    b = BOUNDS[tier]
    if wide:
        # all 13 programs, but only the histories not already covered by the deeper search over the first `hprogs`
        core = [[p, r, f] for p, r, f in HPROGS[:b["hprogs"]]]
        system = EvalSystem(cfg, False, _hist_ops(tier, 0, len(HPROGS)), b["total_faults"], acc,
                            only_after=(core, _hist_ops(tier, b["hprogs"], len(HPROGS))))
    else:
        system = EvalSystem(cfg, False, _hist_ops(tier), b["total_faults"], acc)
    ex = hist.Explorer(system, depth, prune=prune, on_problem=_on_problem(acc, cfg, False),
                       on_history=lambda h, ctx: acc.outcome(system.outcome(ctx)))
    st = ex.run(roots)
    hist.report(acc, st, count_states=count_states, prefix="graph:" if prune else "hist:")


def _single_shard(acc, tier, shape, render, first):
    from mc.ref import hs_eval as H
    b = BOUNDS[tier]
    progs = _programs(b["prog_len"], first, render)
    uses = USES[shape]
    n = 0
    for states in itertools.product(H.HY_STATES, repeat=len(uses)):
        cfgd = dict(zip(uses, states))
        cfg = "".join(cfgd.get(d, "A") for d in "GLM")
        for bare in (False, True):
            system = EvalSystem(cfg, bare, [], 0, acc)
            for stmts in progs:
                for faults in H.fault_sets(stmts, 1):
                    op = [shape, stmts, render, list(faults)]
                    ctx = system.reset()
                    ps = system.step(ctx, op)
                    out = ctx.last[1]
                    if faults and not (out == ("raise", "Fault")) and ctx.last[3] is None:
                        # the planned fault point was not reached (an earlier statement raised): same as the fault-free case
                        acc.count("single:fault_point_unreachable(skipped)")
                        continue
                    acc.states += 1
                    acc.transitions += 1
                    acc.traces += 1
                    acc.evaluations += 1
                    if {"sh", "dh", "gh"} & set(stmts) or out[0] == "raise" or any(s != "A" for s in states):
                        acc.nontrivial += 1
                    acc.outcome(system.outcome(ctx))
                    for p in ps:
                        p = dict(p)
                        acc.disagree(p.pop("kind"), _case(cfg, bare, [op]), p.pop("detail"), sig=p.pop("sig"), depth="1",
                                     **{k: str(v) for k, v in p.items()})
                    n += 1
                    if n % 4999 == 1:
                        acc.sample({"shape": shape, "initial_hy(G,L,M)": cfg, "bare": bare, "program": H.program_text(stmts, render), "fail_at_tick": list(faults)})


def run_shard(shard, tier):
    acc = Acc()
    b = BOUNDS[tier]
    if shard[0] == "graph":
        _explore(acc, tier, shard[1], ((),), True, b["graph_depth"], True)
    elif shard[0] == "hist":
        roots = [(op,) for op in _hist_ops(tier) if op[0] == shard[2]]
        _explore(acc, tier, shard[1], roots, False, b["depth"], False)
        if b["hprogs"] < len(HPROGS):
            # the remaining programs, to the depth of the quick tier (so that thorough covers a superset of quick)
            roots = [(op,) for op in _hist_ops(tier, 0, len(HPROGS)) if op[0] == shard[2]]
            _explore(acc, tier, shard[1], roots, False, BOUNDS["quick"]["depth"], False, wide=True)
    else:
        _single_shard(acc, tier, shard[1], shard[2], shard[3])
    return acc.result()


def recheck(case, tier):
    from mc import hist
    acc = Acc()
    b = BOUNDS[tier]
    system = EvalSystem(case["cfg"], case.get("bare", False), [], b["total_faults"], acc)
    return [dict(p) for p in hist.replay(system, [[o[0], list(o[1]), o[2], list(o[3])] for o in case["history"]])]


def snippet(d):
    from mc.ref import hs_eval as H
    c = d["case"]
    lines = ["import builtins, types, hy",
             "class Fault(BaseException): pass",
             "class Tick:",
             "    def arm(self, faults): self.faults, self.n = set(faults), 0",
             "    def __call__(self):",
             "        self.n += 1",
             "        if self.n in self.faults: raise Fault(self.n)",
             "        return self.n",
             "builtins.hs_tick = tick = Tick()",
             "S = object()   # sentinel",
             "Mod = types.ModuleType('m'); G = {}; L = {}; M = Mod.__dict__",
             "init = {'A': None, 'M': hy, 'S': S, 'F': 0}"]
    for dname, st in zip("GLM", c["cfg"]):
        if st != "A":
            lines.append(f"{dname}['hy'] = init[{st!r}]")
    if not c.get("bare"):
        lines.append("G['gv'] = 10; L['lv'] = 20")
    kw = {"g": "globals=G", "l": "locals=L", "gl": "globals=G, locals=L", "ll": "globals=L, locals=L", "mg": "globals=M", "mgl": "globals=M, locals=L", "m": ""}
    for shape, stmts, render, faults in c["history"]:
        text = H.program_text(stmts, render)
        reader = "hy.read" if render == "do" else "hy.read_many"
        lines += [f"tick.arm({list(faults)!r})",
                  "try:",
                  f"    print('->', hy.eval({reader}({text!r}), module=Mod, {kw[shape]}))",
                  "except BaseException as e:",
                  "    print('-> raised', type(e).__name__)",
                  "print('   hy in G/L/M:', [d.get('hy', '<absent>') for d in (G, L, M)])"]
    lines.append("# C39: every dictionary given to hy.eval must afterwards have a `hy` entry iff it had one before, the same object.")
    return "\n".join(lines) + "\n"
