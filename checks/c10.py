"""C10  Compilation yields a valid Python AST or a user-facing Hy error.

Space: every model tree  (HEAD ARG*)  whose head ranges over ALL core macro
names (read at run time from the core macro table, so new macros are covered
automatically) plus a few non-macro heads, and whose arguments range over an
alphabet that deliberately includes malformed shapes (symbol, keyword,
number, string, [], [a], (), (f), {}, odd dict, #* a, #** a, :as, None, _, *,
/, ., nested lists); each tree in statement position, as the value of an
assignment and inside a function body; plus every such tree nested as the
first argument of every head (one level).
Oracle (invariant): hy_compile either raises a user-facing error
(HyLanguageError subclass or SyntaxError) or returns an AST that Python's
compile() accepts (or rejects with SyntaxError) and whose code object
marshal.dumps accepts.  Any other exception from hy_compile (HyCompileError =
"Internal Compiler Bug", TypeError, IndexError, ...) or ValueError /
TypeError / SystemError / RecursionError from compile() is a violation.
"""
import itertools
import marshal

from mc.util import Acc, time_limit, CaseTimeout

ID = "C10"
ENGINE = "E1-enumerator"
TECHNIQUE = "bounded exhaustive enumeration of model trees over all core macro heads x an argument alphabet with malformed shapes; invariant on the real compiler's outcome and on Python's compile()/marshal of its output"
LEVEL_TEXT = ("Every head x argument-list combination up to the arity bound (and one level of nesting) is compiled with the real compiler in three "
              "positions; the invariant 'user-facing error, or an AST that compile() accepts or rejects with SyntaxError, and that marshals' is "
              "evaluated on every one. Exhaustive within the alphabet and arity bounds.")
RULE = ("heads in sorted order, argument lists by length then lexicographically; a case = (tree, position); non-trivial = the tree has at least one "
        "argument that is not a plain symbol/number (a shape some pattern may not expect), counted per distinct tree; outcome classes = accepted / error class")
ASSUMPTIONS = [
    "argument alphabet and arity bounds as listed; compile-time-evaluating heads (eval-*, do-mac, defmacro, defreader, require, import, py, pys) are given the same alphabet: its symbols are unbound, so compile-time code can only fail with NameError",
    "the AST is compiled but not executed",
]
TIME_CAP = {"quick": 900, "thorough": 5400}

FULL = ["a", ":k", "1", '"s"', "[]", "[a]", "()", "(f)", "{}", "{a}", "#* a", "#** a", ":as", "None", "_", "*", "/", ".", "[a b]", "[[a]]",
        "a.b", "(f :k)", "[a :as b]", "#^ a b", "'a", "`~a", "(. a)", "(|)", "(unpack-mapping)", "{\"a\" 1 #** None}", "#(#* _)", "f\"{a}\"", "-1", "...", "True"]
REDUCED = ["a", ":k", "1", "[]", "[a]", "(f)", "#* a", "#** a", "_", "{a}"]
EXTRA_HEADS = ["f", ".", ".m", "a.b", "hy.R.m.n", ":k", "1", "\"s\"", "[]", "None", "unpack-iterable", "unpack-mapping", "except", "else", "finally", "unquote", "unquote-splice"]
POSITIONS = ["{}", "(setv r {})", "(fn [] {})"]

# head-specific clause / argument alphabets (deeper arity where the head has its own sub-syntax)
FAMILIES = {
    "try": (["1", "(do)", "(else)", "(else 1)", "(finally)", "(finally 2)", "(except [] 1)", "(except [e E])", "(except [[E F]] 1)", "(except* [E] 1)"], 4),
    "for": (["[x xs]", "[]", "1", "(do)", "(else)", "(else 1)", "(break)", "[x (do)]", "[[a b] xs]", "[x xs :if c]", "[x xs :do (do)]", "[:setv y 1]"], 3),
    "while": (["1", "(do)", "(else)", "(else 1)", "(break)", "(do (setv y 1) y)"], 3),
    "lfor": (["x", "xs", "(do)", ":if", ":setv", ":do", "1", "#* xs", "y", "(do (setv q 1) q)"], 4),
    "dfor": (["x", "xs", "(do)", ":if", ":setv", "1", "#** d", "y", "(do (setv q 1) q)"], 4),
    "gfor": (["x", "xs", "(do)", ":if", ":do", "1", "#* xs"], 4),
    "sfor": (["x", "xs", "(do)", ":setv", "1", "#* xs"], 4),
    "match": (["x", "1", "\"None\"", "None", "(. a)", "(. a b)", "(|)", "(| 1 2)", "#(#* _)", "[a #* b]", "{\"a\" 1 #** None}", "{\"k\" v #** r}",
               "(C :k 1)", "(C 1 :k)", "_", ":as", "y", ":if", "(setv y 1)", "(do)", ":k", "[#* None]", "(None)", "(1 2)", "(True :k 1)"], 4),
    "with": (["[a (f)]", "[(f)]", "[]", "[a]", "[a (do)]", "[:async a (f)]", "[a (f) b (do (setv z 1) (g))]", "1", "(do)"], 3),
    "defn": (["g", "[]", "[a]", "[a a]", "[#* a #* b]", "[/]", "[*]", "[a / b * c]", "[[a 1] b]", ":async", "\"doc\"", "1", "(do)", "#^ int g", "[#^ (do) a]", ":tp [T]", ":tp [None]", ":tp [#* True]"], 4),
    "fn": (["[]", "[a]", "[a a]", "[#** k #* a]", "[/]", "[*]", "[[a 1] b]", ":async", "\"doc\"", "1", "(do)", "#^ int []", "(yield)", ":tp [None]"], 3),
    "defclass": (["K", "[]", "[B]", "[:k 1]", "[#* b]", "\"doc\"", "1", "(do)", ":tp [T]", ":tp [None]", "None"], 4),
    "import": (["a", "a.b", "[x]", "[x :as y]", ":as", "b", "*", "[]", "[*]", ".", "..a", "(do)"], 3),
    "require": (["a", "a.b", "[x]", "[x :as y]", ":as", "b", "*", "[]", ":macros", ":readers", "[*]", "(do)"], 3),
    "setv": (["a", "1", "[a b]", "(get a 1)", "a.b", "#* a", "(do)", "None", ":chain", "[a]", "[a #* b #* c]", "#^ int a",
              "True", "(if a (do (setv y 1) y) 2)", "(and (do (setv y 1) y) 2)"], 3),
    "setx": (["a", "1", "[a b]", "a.b", "(do)", "None", "False", "(if a (do (setv y 1) y) 2)", "(when a (setv y 1) y)"], 2),
    "del": (["a", "[a #* b]", "#* a", "(get a 1)", "1", "(f)", "a.b", "(do)", "None"], 2),
    "global": (["a", "b", "1", "a.b", "None"], 2),
    "nonlocal": (["a", "b", "1", "a.b", "None"], 2),
    "if": (["1", "(do)", "(do (setv y 1) y)", "(if 1 (do (setv y 1) y) 2)", "None", "True"], 3),
    "cond": (["1", "(do)", "(do (setv y 1) y)", "True"], 4),
    "quasiquote": (["~a", "~@a", "(a ~@b)", "~(do)", "[~@(do)]", "`~~a", "f\"{~a}\""], 2),
    "raise": (["a", ":from", "None", "(do)", "1"], 3),
    "assert": (["a", "(do)", "(do (setv y 1) y)", "1"], 2),
    "return": (["a", "(do)", "#* a"], 1),
    "await": (["a", "(do)"], 1),
    "yield": (["a", ":from", "(do)", "#* a"], 2),
    "annotate": (["a", "int", "(do)", "a.b", "(get a 1)", "1"], 2),
    "cut": (["a", "1", "(do)", "None", "#* a"], 4),
    "get": (["a", "1", "(do)", "#* a", ":k"], 3),
    ".": (["a", "b", "[1]", "(m 1)", "(do)", "1", "None", "(m)"], 3),
    "unpack-iterable": (["a", "(do)"], 2),
    "py": (["\"1\"", "\"\"", "\"x =\"", "a", "1"], 1),
    "pys": (["\"x = 1\"", "\"\"", "\"x =\"", "\"  y\"", "a"], 1),
    "hy.R.hyx-XpizzazzX.m": (["1"], 1),
    "deftype": (["T", "int", ":tp [A]", "None", "(do)"], 3),
    "export": ([":objects", ":macros", "[a]", "[]", "a"], 4),
    "pragma": ([":warn-on-core-shadow", ":hy", "\"1.0\"", "True", ":unknown", "1"], 2),
    "defmacro": (["m", "[]", "[a]", "[#* a]", "[[a 1]]", "1", "\"doc\"", "(do)", "[#** k]", "[* a]"], 3),
    "defreader": (["r", "1", "(do)", "[]"], 2),
    "eval-and-compile": (["1", "(do)", "(setv y 1)"], 2),
    "do-mac": (["1", "(do)", "'(do)", "'(setv y 1)", "None"], 1),
}
EXTRA_PROGRAMS = ["(setv x 1) (nonlocal x)", "(nonlocal x) (setv x 1)", "(global x) (setv x 1)", "(setv x 1) (global x)",
                  "f\"{(do)}\"", "f\"{a !r :{(do)}}\"", "(f #* (do))", "{1 (do)}", "[(do)]", "(f :k (do))", "(for [_ [0]] (pragma :warn-on-core-shadow False))",
                  "(lfor x (do) x)", "(lfor x y (do))", "(dfor x y (do) (do))", "(try 1 (finally (do)))", "(while (do) 1)", "(with [(do)] 1)"]

# collection displays and plain calls (not macro heads): every element list over DISPLAY_ALPHA
DISPLAY_KINDS = {"list": "[{}]", "tuple": "#({})", "set": "#{{{}}}", "dict": "{{{}}}", "call": "(f {})", "method": "(.m {})"}
DISPLAY_ALPHA = ["a", "#* a", "#** a", ":k", "(do)", "(unpack-mapping a b)"]
DISPLAY_N = {"quick": 4, "thorough": 5}

BOUNDS = {
    "quick": dict(full_args=2, reduced_args=2, nest="reduced1", shards=128),
    "thorough": dict(full_args=3, reduced_args=4, nest="full1", shards=1024),
}


def bounds(tier):
    b = BOUNDS[tier]
    return {"argument_alphabet_full": FULL, "argument_alphabet_reduced": REDUCED, "max_args_full": b["full_args"],
            "max_args_reduced": b["reduced_args"], "extra_heads": EXTRA_HEADS, "positions": POSITIONS, "positions_note": "all three for trees with <=1 argument, assignment position for longer ones", "nesting": b["nest"],
            "head_specific_families": {h: {"alphabet": a, "max_args": n} for h, (a, n) in FAMILIES.items()},
            "head_specific_families_note": "quick uses max_args-1 for families with more than 3000 argument lists; thorough max_args+1 where that stays under 200000", "extra_programs": EXTRA_PROGRAMS,
            "displays": {"kinds": DISPLAY_KINDS, "element_alphabet": DISPLAY_ALPHA, "max_elements": DISPLAY_N[tier]}}


def heads():
    import builtins
    import hy
    from hy.reader.mangling import unmangle
    hy.eval(hy.read("1"), {})
    hs = sorted(unmangle(k) for k in builtins._hy_macros)
    return hs + EXTRA_HEADS


def arglists(tier):
    b = BOUNDS[tier]
    seen = set()
    out = []
    for alpha, n in ((FULL, b["full_args"]), (REDUCED, b["reduced_args"])):
        for k in range(n + 1):
            for combo in itertools.product(alpha, repeat=k):
                if combo not in seen:
                    seen.add(combo)
                    out.append(combo)
    return out


def shards(tier):
    # heads are discovered in the worker; shard by (argument-list range) and nesting flag
    n = len(arglists(tier))
    s = BOUNDS[tier]["shards"]
    step = -(-n // s)
    out = [["flat", lo, min(n, lo + step)] for lo in range(0, n, step)]
    out += [["nest", i, 0] for i in range(32)]
    out += [["fam", h, 0] for h in FAMILIES]
    out.append(["extra", 0, 0])
    out += [["display", k, 0] for k in DISPLAY_KINDS]
    return out


def classify(text):
    """-> (ok, outcome_class, detail, fields)"""
    import ast
    import warnings
    import hy
    from hy.errors import HyLanguageError
    from mc import hyside
    warnings.simplefilter("ignore")
    mod = hyside.fresh_module()
    try:
        with time_limit(20):
            tree = hyside.compile_text(text, mod)
    except CaseTimeout:
        return False, "timeout", "hy_compile did not return within 20 s", {"stage": "hy_compile", "exc": "timeout"}
    except HyLanguageError as e:
        return True, "hy-error:" + type(e).__name__, None, None
    except SyntaxError as e:
        return True, "SyntaxError", None, None
    except BaseException as e:
        msg = str(e).split("\n")[0][:120]
        return False, "hy_compile-raised:" + type(e).__name__, f"{type(e).__name__}: {msg}", {"stage": "hy_compile", "exc": type(e).__name__, "msg": msg}
    try:
        code = compile(tree, "<c10>", "exec")
    except SyntaxError:
        return True, "python-SyntaxError", None, None
    except BaseException as e:
        msg = str(e).split("\n")[0][:120]
        return False, "python-compile-raised:" + type(e).__name__, f"compile() raised {type(e).__name__}: {msg}", {"stage": "python-compile", "exc": type(e).__name__, "msg": msg}
    try:
        marshal.dumps(code)
    except BaseException as e:
        return False, "marshal-raised:" + type(e).__name__, f"marshal.dumps raised {type(e).__name__}: {e}", {"stage": "marshal", "exc": type(e).__name__, "msg": str(e)[:120]}
    return True, "accepted", None, None


def one(acc, head, args, pos, nested_in=None, sample=False):
    form = "(" + " ".join((head,) + tuple(args)) + ")"
    if nested_in is not None:
        form = "(" + nested_in + " " + form + ")"
    text = POSITIONS[pos].format(form)
    acc.evaluations += 1
    acc.transitions += 1
    acc.traces += 1
    ok, cls, detail, fields = classify(text)
    acc.outcome(cls)
    if sample:
        acc.sample({"hy": text, "outcome": cls})
    if not ok:
        import re
        msgkey = re.sub(r"[0-9]+|'[^']*'|\"[^\"]*\"", "#", fields["msg"])[:60]
        outer = head if nested_in is None else nested_in
        acc.disagree("compiler-invariant-broken", {"text": text, "head": outer, "inner_head": head},
                     detail, sig=f"{fields['stage']}:{fields['exc']}:{msgkey}:{outer}",
                     head=outer, inner_head=head, stage=fields["stage"], exc=fields["exc"], msg=fields["msg"], msgkey=msgkey)


def whole(acc, text, sigkey=None):
    """A complete program text (not of the HEAD ARG* shape)."""
    import re
    acc.evaluations += 1
    acc.transitions += 1
    acc.traces += 1
    ok, cls, detail, fields = classify(text)
    acc.outcome(cls)
    if not ok:
        msgkey = re.sub(r"[0-9]+|'[^']*'|\"[^\"]*\"", "#", fields["msg"])[:60]
        acc.disagree("compiler-invariant-broken", {"text": text, "head": "<program>", "inner_head": "<program>"}, detail,
                     sig=f"{fields['stage']}:{fields['exc']}:{msgkey}:<program>:{sigkey or text[:30]}", head="<program>", inner_head="<program>",
                     stage=fields["stage"], exc=fields["exc"], msg=fields["msg"], msgkey=msgkey)


def run_shard(shard, tier):
    acc = Acc()
    hs = heads()
    lists = arglists(tier)
    if shard[0] == "fam":
        h = shard[1]
        alpha, n = FAMILIES[h]
        if tier == "quick" and len(alpha) ** n > 3000:
            n -= 1                       # quick: one argument fewer for the large families
        if tier == "thorough" and len(alpha) ** (n + 1) <= 200000:
            n += 1
        for k in range(n + 1):
            for args in itertools.product(alpha, repeat=k):
                acc.states += 1
                acc.nontrivial += 1
                for pos in (0, 1):
                    one(acc, h, args, pos, sample=(k == 2 and args[0] == alpha[0] and args[1] == alpha[-1] and pos == 1))
        return acc.result()
    if shard[0] == "display":
        fmt = DISPLAY_KINDS[shard[1]]
        for k in range(DISPLAY_N[tier] + 1):
            for els in itertools.product(DISPLAY_ALPHA, repeat=k):
                acc.states += 1
                if any(e != "a" for e in els):
                    acc.nontrivial += 1
                for pos in (0, 1):
                    whole(acc, POSITIONS[pos].format(fmt.format(" ".join(els))), sigkey="display:" + shard[1])
        return acc.result()
    if shard[0] == "extra":
        for t in EXTRA_PROGRAMS:
            acc.states += 1
            acc.nontrivial += 1
            whole(acc, t)
        return acc.result()
    if shard[0] == "flat":
        lo, hi = shard[1], shard[2]
        for idx in range(lo, hi):
            args = lists[idx]
            nontriv = any(a not in ("a", "1") for a in args)
            for hi_, h in enumerate(hs):
                acc.states += 1
                if nontriv:
                    acc.nontrivial += 1
                for pos in (range(len(POSITIONS)) if len(args) <= 1 else (1,)):
                    one(acc, h, args, pos, sample=(idx % 97 == 3 and hi_ % 41 == 7 and pos == 1))
    else:
        part = shard[1]
        alpha = REDUCED if BOUNDS[tier]["nest"] == "reduced1" else FULL
        inner = [(h, (a,)) for h in hs for a in [None] + alpha]
        k = 0
        for outer in hs:
            for h, (a,) in inner:
                k += 1
                if k % 32 != part:
                    continue
                acc.states += 1
                acc.nontrivial += 1
                one(acc, h, () if a is None else (a,), 1, nested_in=outer)
    return acc.result()


def recheck(case, tier):
    acc = Acc()
    if case.get("head") == "<program>":
        whole(acc, case["text"])
        return acc.disagreements
    ok, cls, detail, fields = classify(case["text"])
    if not ok:
        import re
        h0 = case.get("head", "?")
        msgkey = re.sub(r"[0-9]+|'[^']*'|\"[^\"]*\"", "#", fields["msg"])[:60]
        acc.disagree("compiler-invariant-broken", case, detail, sig=f"{fields['stage']}:{fields['exc']}:{msgkey}:{h0}",
                     head=h0, inner_head=case.get("inner_head", h0), stage=fields["stage"], exc=fields["exc"], msg=fields["msg"], msgkey=msgkey)
    return acc.disagreements


def snippet(d):
    return ("import hy, types, marshal\nfrom hy.compiler import hy_compile\n"
            f"text = {d['case']['text']!r}\n"
            "tree = hy_compile(hy.read_many(text), types.ModuleType('m'))   # must raise a HyLanguageError/SyntaxError, or ...\n"
            "marshal.dumps(compile(tree, '<x>', 'exec'))                     # ... this must succeed or raise SyntaxError\n"
            f"# observed: {d['detail'][:200]!r}\n")
