"""C10  Compilation yields a valid Python AST or a user-facing Hy error.

Space: every model tree  (HEAD ARG*)  whose head ranges over ALL core macro
names (read at run time from the core macro table, so new macros are covered
automatically) plus a few non-macro heads, and whose arguments range over an
alphabet that deliberately includes malformed shapes (symbol, keyword,
number, string, [], [a], (), (f), {}, odd dict, #* a, #** a, :as, None, _, *,
/, ., nested lists); each tree in statement position, as the value of an
assignment and inside a function body; plus every such tree nested as the
first argument of every head (one level).
Oracle (invariant): hy_compile either raises a user-facing error
(HyLanguageError subclass or SyntaxError) or returns an AST that Python's
compile() accepts (or rejects with SyntaxError) and whose code object
marshal.dumps accepts.  Any other exception from hy_compile (HyCompileError =
"Internal Compiler Bug", TypeError, IndexError, ...) or ValueError /
TypeError / SystemError / RecursionError from compile() is a violation.
"""
import itertools
import marshal

from mc.util import Acc, time_limit, CaseTimeout

ID = "C10"
ENGINE = "E1-enumerator"
TECHNIQUE = "bounded exhaustive enumeration of model trees over all core macro heads x an argument alphabet with malformed shapes; invariant on the real compiler's outcome and on Python's compile()/marshal of its output"
LEVEL_TEXT = ("Every head x argument-list combination up to the arity bound (and one level of nesting) is compiled with the real compiler in three "
              "positions; the invariant 'user-facing error, or an AST that compile() accepts or rejects with SyntaxError, and that marshals' is "
              "evaluated on every one. Exhaustive within the alphabet and arity bounds.")
RULE = ("heads in sorted order, argument lists by length then lexicographically; a case = (tree, position); non-trivial = the tree has at least one "
        "argument that is not a plain symbol/number (a shape some pattern may not expect), counted per distinct tree; outcome classes = accepted / error class")
ASSUMPTIONS = [
    "argument alphabet and arity bounds as listed; compile-time-evaluating heads (eval-*, do-mac, defmacro, defreader, require, import, py, pys) are given the same alphabet: its symbols are unbound, so compile-time code can only fail with NameError",
    "the AST is compiled but not executed",
]
TIME_CAP = {"quick": 900, "thorough": 5400}

FULL = ["a", ":k", "1", '"s"', "[]", "[a]", "()", "(f)", "{}", "{a}", "#* a", "#** a", ":as", "None", "_", "*", "/", ".", "[a b]", "[[a]]",
        "a.b", "(f :k)", "[a :as b]", "#^ a b", "'a", "`~a", "(. a)", "(|)", "(unpack-mapping)", "{\"a\" 1 #** None}", "#(#* _)", "f\"{a}\"", "-1", "...", "True"]
REDUCED = ["a", ":k", "1", "[]", "[a]", "(f)", "#* a", "#** a", "_", "{a}"]
EXTRA_HEADS = ["f", ".", ".m", "a.b", "hy.R.m.n", ":k", "1", "\"s\"", "[]", "None", "unpack-iterable", "unpack-mapping", "except", "else", "finally", "unquote", "unquote-splice"]
POSITIONS = ["{}", "(setv r {})", "(fn [] {})"]

BOUNDS = {
    "quick": dict(full_args=2, reduced_args=3, nest="reduced1", shards=128),
    "thorough": dict(full_args=3, reduced_args=4, nest="full1", shards=1024),
}


def bounds(tier):
    b = BOUNDS[tier]
    return {"argument_alphabet_full": FULL, "argument_alphabet_reduced": REDUCED, "max_args_full": b["full_args"],
            "max_args_reduced": b["reduced_args"], "extra_heads": EXTRA_HEADS, "positions": POSITIONS, "positions_note": "all three for trees with <=1 argument, assignment position for longer ones", "nesting": b["nest"]}


def heads():
    import builtins
    import hy
    from hy.reader.mangling import unmangle
    hy.eval(hy.read("1"), {})
    hs = sorted(unmangle(k) for k in builtins._hy_macros)
    return hs + EXTRA_HEADS


def arglists(tier):
    b = BOUNDS[tier]
    seen = set()
    out = []
    for alpha, n in ((FULL, b["full_args"]), (REDUCED, b["reduced_args"])):
        for k in range(n + 1):
            for combo in itertools.product(alpha, repeat=k):
                if combo not in seen:
                    seen.add(combo)
                    out.append(combo)
    return out


def shards(tier):
    # heads are discovered in the worker; shard by (argument-list range) and nesting flag
    n = len(arglists(tier))
    s = BOUNDS[tier]["shards"]
    step = -(-n // s)
    out = [["flat", lo, min(n, lo + step)] for lo in range(0, n, step)]
    out += [["nest", i, 0] for i in range(32)]
    return out


def classify(text):
    """-> (ok, outcome_class, detail, fields)"""
    import ast
    import warnings
    import hy
    from hy.errors import HyLanguageError
    from mc import hyside
    warnings.simplefilter("ignore")
    mod = hyside.fresh_module()
    try:
        with time_limit(20):
            tree = hyside.compile_text(text, mod)
    except CaseTimeout:
        return False, "timeout", "hy_compile did not return within 20 s", {"stage": "hy_compile", "exc": "timeout"}
    except HyLanguageError as e:
        return True, "hy-error:" + type(e).__name__, None, None
    except SyntaxError as e:
        return True, "SyntaxError", None, None
    except BaseException as e:
        msg = str(e).split("\n")[0][:120]
        return False, "hy_compile-raised:" + type(e).__name__, f"{type(e).__name__}: {msg}", {"stage": "hy_compile", "exc": type(e).__name__, "msg": msg}
    try:
        code = compile(tree, "<c10>", "exec")
    except SyntaxError:
        return True, "python-SyntaxError", None, None
    except BaseException as e:
        msg = str(e).split("\n")[0][:120]
        return False, "python-compile-raised:" + type(e).__name__, f"compile() raised {type(e).__name__}: {msg}", {"stage": "python-compile", "exc": type(e).__name__, "msg": msg}
    try:
        marshal.dumps(code)
    except BaseException as e:
        return False, "marshal-raised:" + type(e).__name__, f"marshal.dumps raised {type(e).__name__}: {e}", {"stage": "marshal", "exc": type(e).__name__, "msg": str(e)[:120]}
    return True, "accepted", None, None


def one(acc, head, args, pos, nested_in=None, sample=False):
    form = "(" + " ".join((head,) + tuple(args)) + ")"
    if nested_in is not None:
        form = "(" + nested_in + " " + form + ")"
    text = POSITIONS[pos].format(form)
    acc.evaluations += 1
    acc.transitions += 1
    acc.traces += 1
    ok, cls, detail, fields = classify(text)
    acc.outcome(cls)
    if sample:
        acc.sample({"hy": text, "outcome": cls})
    if not ok:
        import re
        msgkey = re.sub(r"[0-9]+|'[^']*'|\"[^\"]*\"", "#", fields["msg"])[:60]
        outer = head if nested_in is None else nested_in
        acc.disagree("compiler-invariant-broken", {"text": text, "head": outer, "inner_head": head},
                     detail, sig=f"{fields['stage']}:{fields['exc']}:{msgkey}:{outer}",
                     head=outer, inner_head=head, stage=fields["stage"], exc=fields["exc"], msg=fields["msg"], msgkey=msgkey)


def run_shard(shard, tier):
    acc = Acc()
    hs = heads()
    lists = arglists(tier)
    if shard[0] == "flat":
        lo, hi = shard[1], shard[2]
        for idx in range(lo, hi):
            args = lists[idx]
            nontriv = any(a not in ("a", "1") for a in args)
            for hi_, h in enumerate(hs):
                acc.states += 1
                if nontriv:
                    acc.nontrivial += 1
                for pos in (range(len(POSITIONS)) if len(args) <= 1 else (1,)):
                    one(acc, h, args, pos, sample=(idx % 97 == 3 and hi_ % 41 == 7 and pos == 1))
    else:
        part = shard[1]
        alpha = REDUCED if BOUNDS[tier]["nest"] == "reduced1" else FULL
        inner = [(h, (a,)) for h in hs for a in [None] + alpha]
        k = 0
        for outer in hs:
            for h, (a,) in inner:
                k += 1
                if k % 32 != part:
                    continue
                acc.states += 1
                acc.nontrivial += 1
                one(acc, h, () if a is None else (a,), 1, nested_in=outer)
    return acc.result()


def recheck(case, tier):
    acc = Acc()
    ok, cls, detail, fields = classify(case["text"])
    if not ok:
        import re
        h0 = case.get("head", "?")
        msgkey = re.sub(r"[0-9]+|'[^']*'|\"[^\"]*\"", "#", fields["msg"])[:60]
        acc.disagree("compiler-invariant-broken", case, detail, sig=f"{fields['stage']}:{fields['exc']}:{msgkey}:{h0}",
                     head=h0, inner_head=case.get("inner_head", h0), stage=fields["stage"], exc=fields["exc"], msg=fields["msg"], msgkey=msgkey)
    return acc.disagreements


def snippet(d):
    return ("import hy, types, marshal\nfrom hy.compiler import hy_compile\n"
            f"text = {d['case']['text']!r}\n"
            "tree = hy_compile(hy.read_many(text), types.ModuleType('m'))   # must raise a HyLanguageError/SyntaxError, or ...\n"
            "marshal.dumps(compile(tree, '<x>', 'exec'))                     # ... this must succeed or raise SyntaxError\n"
            f"# observed: {d['detail'][:200]!r}\n")
