"""C02  and/or short-circuit and return Python's operand value.

Space: every operand list of length 0..n over the shapes
  P plain variable | E effectful expression (log i a) | S statement-producing
  (do (setv t (log i a)) t) | V value-less statement (setv t (log i a)), whose
  value is None | NA (and E E) | NO (or E E) | NS (or E S) | EA (and) | EO (or)
for both operators, each compiled ONCE by the real compiler as a function of
its operand values, in every context: value position, (setv r (op ...)) and
(setx r (op ...)) with a fresh r, (setv a_k (op ...)) and
(setx a_k (op ...)) for every operand variable a_k (the assignment target is
then also an operand), and executed under EVERY truthiness assignment of the
operand values, for three value families (0/1.., []/[k], None/"s").
Oracle: Python's own and/or semantics on the operand tree: the result IS
(identity) the first falsy / first truthy / last operand value, (and)=True,
(or)=None, and the effect trace is exactly the left-to-right short-circuit
trace.
"""
import itertools

from mc.util import Acc

ID = "C02"
TECHNIQUE = "bounded exhaustive enumeration of operand-shape lists x all truth assignments; compiled by the real compiler, compared with a reference and/or evaluator (value identity + exact effect trace)"
LEVEL_TEXT = ("All operand lists up to the arity bound over six operand shapes (plain, effectful, statement-producing, nested and/or) are compiled "
              "with the real compiler in value and assignment contexts and run under every truth assignment; result identity and the exact "
              "short-circuit effect trace are compared with a reference evaluator. Exhaustive within the bounds.")
RULE = ("operand lists enumerated by length then lexicographically over the shape alphabet; a compiled unit = (operator, shape list, context); "
        "a case = unit x truth assignment x value family; non-trivial = the shape list has at least one statement-producing or nested operand "
        "(the compiler must emit if-statements and temporaries), counted per distinct unit")
ASSUMPTIONS = [
    "operand shapes and value families as listed; arity bound as stated",
    "and/or operand order is documented (left to right, short-circuit), so the trace comparison is exact",
]

SHAPES = ["P", "E", "S", "V", "IF", "NA", "NO", "NS", "EA", "EO"]
NPARAMS = {"P": 1, "E": 1, "S": 1, "V": 1, "IF": 1, "NA": 2, "NO": 2, "NS": 2, "EA": 0, "EO": 0}

BOUNDS = {
    "quick": dict(runs=[(SHAPES, 3), (["P", "E", "S", "V", "NS", "EA"], 4), (["P", "S", "IF"], 5), (["P", "S"], 6)], shards=64),
    "thorough": dict(runs=[(SHAPES, 4), (["P", "E", "S", "V", "NS", "EA"], 5), (["P", "S", "IF"], 6), (["P", "E", "S"], 8)], shards=512),
}
TIME_CAP = {"quick": 900, "thorough": 5400}


def bounds(tier):
    return {"shape_alphabets_and_max_arity": BOUNDS[tier]["runs"], "operators": ["and", "or"],
            "contexts": ["value", "setv r (fresh)", "setx r (fresh)", "setv a_k", "setx a_k"], "value_families": ["int", "list", "none/str"]}


def _lists(tier):
    seen = set()
    out = []
    for alpha, n in BOUNDS[tier]["runs"]:
        for k in range(n + 1):
            for combo in itertools.product(alpha, repeat=k):
                if combo not in seen:
                    seen.add(combo)
                    out.append(combo)
    return out


def shards(tier):
    n = len(_lists(tier))
    s = BOUNDS[tier]["shards"]
    step = -(-n // s)
    return [[lo, min(n, lo + step)] for lo in range(0, n, step)]


# ---- operand trees: ("var", p) | ("log", site, p) | ("stmt", site, p) | ("and"/"or", [kids])
def build(op, shapes):
    p = itertools.count()
    site = itertools.count()
    kids = []
    for sh in shapes:
        if sh == "P":
            kids.append(("var", next(p)))
        elif sh == "E":
            kids.append(("log", next(site), next(p)))
        elif sh == "S":
            kids.append(("stmt", next(site), next(p)))
        elif sh == "V":
            kids.append(("vstmt", next(site), next(p)))
        elif sh == "IF":
            kids.append(("ifs", next(site), next(p)))
        elif sh == "EA":
            kids.append(("and", []))
        elif sh == "EO":
            kids.append(("or", []))
        elif sh in ("NA", "NO"):
            kids.append(("and" if sh == "NA" else "or", [("log", next(site), next(p)), ("log", next(site), next(p))]))
        elif sh == "NS":
            kids.append(("or", [("log", next(site), next(p)), ("stmt", next(site), next(p))]))
    return (op, kids), next(p)


def render(t):
    if t[0] == "var":
        return f"a{t[1]}"
    if t[0] == "log":
        return f"(log {t[1]} a{t[2]})"
    if t[0] == "stmt":
        return f"(do (setv t{t[1]} (log {t[1]} a{t[2]})) t{t[1]})"
    if t[0] == "vstmt":
        return f"(setv t{t[1]} (log {t[1]} a{t[2]}))"
    if t[0] == "ifs":
        return f"(if a{t[2]} (do (setv t{t[1]} (log {t[1]} a{t[2]})) t{t[1]}) a{t[2]})"
    return "(" + " ".join([t[0]] + [render(k) for k in t[1]]) + ")"


def ref_eval(t, vals, trace):
    """Python's own semantics; returns the operand value object."""
    if t[0] == "var":
        return vals[t[1]]
    if t[0] in ("log", "stmt"):
        trace.append(t[1])
        return vals[t[2]]
    if t[0] == "vstmt":
        trace.append(t[1])
        return None           # (setv ...) evaluates its value form and returns None
    if t[0] == "ifs":
        if vals[t[2]]:
            trace.append(t[1])
        return vals[t[2]]
    if t[0] == "and":
        v = True
        for k in t[1]:
            v = ref_eval(k, vals, trace)
            if not v:
                return v
        return v
    v = None
    for k in t[1]:
        v = ref_eval(k, vals, trace)
        if v:
            return v
    return v


def program(tree, nparams, ctx):
    params = " ".join(f"a{i}" for i in range(nparams))
    body = render(tree)
    if ctx[0] == "value":
        return f"(defn f [{params}] {body})"
    if ctx[0] == "setv":
        return f"(defn f [{params}] (setv a{ctx[1]} {body}) a{ctx[1]})"
    if ctx[0] == "setx":
        return f"(defn f [{params}] [(setx a{ctx[1]} {body}) a{ctx[1]}])"
    if ctx[0] == "setvr":
        return f"(defn f [{params}] (setv r {body}) r)"
    if ctx[0] == "setxr":
        return f"(defn f [{params}] [(setx r {body}) r])"
    raise ValueError(ctx)


def families(nparams, bits):
    """three lists of fresh operand values for truth assignment `bits`."""
    ints = [(i + 1) if b else 0 for i, b in enumerate(bits)]
    lists = [[i] if b else [] for i, b in enumerate(bits)]
    mixed = [("s%d" % i) if b else None for i, b in enumerate(bits)]
    return [("int", ints), ("list", lists), ("none/str", mixed)]


def check_unit(acc, op, shapes, ctx, sample=False):
    from mc import hyside
    tree, nparams = build(op, shapes)
    text = program(tree, nparams, ctx)
    case = {"op": op, "shapes": list(shapes), "ctx": list(ctx), "text": text}
    sig_shape = f"{op}:{ctx[0]}:" + "".join(s[0] if len(s) == 1 else s for s in shapes[:3])
    mod = hyside.fresh_module()
    trace = []

    def log(i, v):
        trace.append(i)
        return v
    mod.log = log
    acc.evaluations += 1
    acc.transitions += 1
    try:
        code = compile(hyside.compile_text(text, mod), "<case>", "exec")
        exec(code, mod.__dict__)
        f = mod.f
    except BaseException as e:
        acc.outcome("compile-error")
        acc.disagree("compile-failed", case, f"{type(e).__name__}: {e}", sig="compile:" + sig_shape, exc=type(e).__name__)
        return
    if sample:
        acc.sample({"hy": text})
    for bits in itertools.product((False, True), repeat=nparams):
        for fam, vals in families(nparams, bits):
            acc.transitions += 1
            acc.traces += 1
            rtrace = []
            expected = ref_eval(tree, vals, rtrace)
            del trace[:]
            try:
                got = f(*vals)
            except BaseException as e:
                acc.outcome("raised")
                acc.disagree("raised", dict(case, bits=list(bits), family=fam), f"{type(e).__name__}: {e}",
                             sig="raised:" + sig_shape, exc=type(e).__name__)
                return
            if ctx[0] in ("setx", "setxr"):
                ok_val = isinstance(got, list) and len(got) == 2 and _same(got[0], expected) and _same(got[1], expected)
            else:
                ok_val = _same(got, expected)
            cls = ("first-falsy" if op == "and" else "first-truthy") if rtrace != _all_sites(tree) or not shapes else "ran-all"
            acc.outcome(f"{op}:{cls}:{fam}")
            if not ok_val:
                acc.disagree("wrong-value", dict(case, bits=list(bits), family=fam),
                             f"expected operand value {expected!r} (identity), got {got!r}; operand values {vals!r}",
                             sig="value:" + sig_shape)
                return
            if trace != rtrace:
                acc.disagree("wrong-effect-trace", dict(case, bits=list(bits), family=fam),
                             f"expected effects {rtrace}, got {trace}; operand values {vals!r}",
                             sig="trace:" + sig_shape)
                return


def _same(a, b):
    if isinstance(b, (list,)):
        return a is b
    return a is b or (type(a) is type(b) and a == b)


def _all_sites(t):
    out = []

    def w(t):
        if t[0] in ("log", "stmt", "vstmt", "ifs"):
            out.append(t[1])
        elif t[0] in ("and", "or"):
            for k in t[1]:
                w(k)
    w(t)
    return out


def contexts(nparams):
    out = [("value",), ("setvr",), ("setxr",)]      # r: a fresh variable no operand reads
    for k in range(nparams):
        out.append(("setv", k))
        out.append(("setx", k))
    return out


def run_shard(shard, tier):
    acc = Acc()
    lo, hi = shard
    lists = _lists(tier)
    for idx in range(lo, hi):
        shapes = lists[idx]
        nparams = sum(NPARAMS[s] for s in shapes)
        nontriv = any(s not in ("P", "E") for s in shapes)
        for op in ("and", "or"):
            for ctx in contexts(nparams):
                acc.states += 1
                if nontriv:
                    acc.nontrivial += 1
                check_unit(acc, op, shapes, ctx, sample=(idx % 211 == 5 and op == "or" and ctx == ("setv", 0)))
    return acc.result()


def recheck(case, tier):
    acc = Acc()
    check_unit(acc, case["op"], tuple(case["shapes"]), tuple(case["ctx"]))
    want = (case.get("bits"), case.get("family"))
    return acc.disagreements


def snippet(d):
    c = d["case"]
    return ("import hy\nTRACE=[]\ndef log(i,v): TRACE.append(i); return v\n"
            f"hy.eval(hy.read_many({c['text']!r}), globals())\n"
            f"# call f with operand values of truthiness {c.get('bits')} (family {c.get('family')}); {d['detail']!r}\n")
