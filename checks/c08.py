"""C08  match selects, binds and returns like Python's match statement.

Space: every pattern of depth <= d over the pattern sublanguage (literal,
None/True/False, capture, _, dotted value, keyword literal, sequences in list
and tuple syntax with #* rest / #* _, mappings with #** rest, class patterns
positional / keyword / dotted class against a small class and int/str,
(| ...) alternatives, :as) -- all depth-1 patterns over the atom sets, and
(one-hole context)^k x depth-1 filler for the deeper levels -- each wrapped as
  (defn m [s gv] (setv [<captures>] <sentinels>) (setv TARGET (match s CASES)) (locals))
in variants of  case context {only case, followed by `_`, between a missing
case and a catch-all capture}  x  guard {none, plain, statement-producing}
x  result form {plain, statement-producing}  x  TARGET {fresh r, the subject
variable s, the captured/read variable x}: every variant for a core pattern
set, the basic variant plus one cycling variant for every other pattern.
Every compiled function is run on every subject of a matching-biased pool
(and under both guard values).
Oracle: CPython's own `match` statement on the Python rendering of the same
program: the selected case and returned value (None when nothing matches),
the value of every variable afterwards (bound names, including bindings that
survive a failed guard), the guard-call log (when and with which bindings the
guard ran), or the exception type; a pattern CPython rejects with a
SyntaxError must be rejected by Hy and vice versa.
"""
import itertools

from mc.util import Acc
from mc.ref import cd_match as P

ID = "C08"
TECHNIQUE = ("bounded exhaustive enumeration of match patterns (all depth-1 patterns; contexts x fillers for deeper levels) x program variants, each compiled once by the real "
             "compiler and run on every subject of a pool; differential against CPython's match statement on the Python rendering")
LEVEL_TEXT = ("Every pattern up to the depth bound, in the listed case/guard/result/assignment variants, is compiled by the real compiler and by CPython from the "
              "equivalent Python text; both functions are run on every subject (and guard value) and the returned value, all variable bindings afterwards, "
              "the guard-call log or the exception type are compared; legality (SyntaxError) must agree. Exhaustive within the stated pattern alphabet, depth and pool.")
RULE = ("patterns enumerated atoms first, then depth-1 in constructor order, then context x filler in context order; a case (state) = (pattern, variant); all distinct; "
        "non-trivial = the pattern binds a name (capture, star, rest, :as) or has alternatives, or the variant has a guard or assigns to a variable the match reads; "
        "counted per (pattern, variant); traces = (pattern, variant, subject, guard value) executions compared")
ASSUMPTIONS = [
    "pattern atoms, constructors, breadth limits (sequences <= 3 elements, mappings <= 2 keys, class patterns <= 3 sub-patterns, alternatives <= 3) and subject pool as listed",
    "depth >= 2 patterns are context x filler compositions (siblings of the hole from a small atom set), not the full product",
    "a keyword literal pattern :k is rendered in Python as a value pattern equal to hy.models.Keyword('k') (literal patterns compare by equality)",
    "a keyword literal directly in a positional slot of a class pattern is not generated (Hy's syntax reads it as the start of keyword sub-patterns); nor is (p :as a) :as b (no Hy spelling)",
    "whether a (setv ...) inside a guard leaks into the enclosing function is not observed (docs silent)",
    "patterns CPython rejects: only 'Hy rejects too' is required, not the exception class (C10 covers error classes)",
]
ENGINE = "E1-enumerator"
TIME_CAP = {"quick": 900, "thorough": 5400}

BOUNDS = {
    "quick": dict(depth=2, sibs2="small", sibs3=None, shards=64),
    "thorough": dict(depth=3, sibs2="small", sibs3="one", shards=512),
}
SIBS = {"small": P.A_SMALL, "one": [P.Y], "tiny": P.A_TINY}
V1 = ("single", "none", "plain", "r")
OTHER_VARIANTS = [v for v in P.VARIANTS if v != V1]
BATCH = 30


def bounds(tier):
    b = BOUNDS[tier]
    return {"max_depth": b["depth"], "atoms": [P.hy(a) for a in P.A_FULL], "depth1_patterns": len(P.depth1()),
            "contexts_depth2": [n for n, _ in P.contexts(SIBS[b["sibs2"]])],
            "contexts_depth3_outer": [n for n, _ in P.contexts(SIBS[b["sibs3"]])] if b["sibs3"] else [],
            "variants": {"case_context": P.CTXS, "guard": P.GUARDS, "result": P.RESULTS, "target": P.TARGETS},
            "core_patterns_get_all_variants": len(_core(tier)), "subjects": P.SUBJECTS}


def _core(tier):
    """atoms + every depth-1 pattern over a tiny atom set ({x} quick, {1, x} thorough): these get all 54 variants"""
    a = [P.X] if tier == "quick" else P.A_TINY
    return list(P.A_FULL) + P.depth1(full=a, mid=a, small=a)


def _space(tier):
    """list of levels: (name, count, getter(i) -> pattern or None if not generated)"""
    b = BOUNDS[tier]
    d1 = P.depth1()
    base = list(P.A_FULL) + d1
    levels = [("d01", len(base), lambda i: base[i])]
    if b["depth"] >= 2:
        c2 = P.contexts(SIBS[b["sibs2"]])
        levels.append(("d2", len(c2) * len(d1), lambda i: c2[i // len(d1)][1](d1[i % len(d1)])))
        if b["depth"] >= 3:
            c3 = P.contexts(SIBS[b["sibs3"]])
            n = len(c3) * len(c3) * len(d1)
            levels.append(("d3", n, lambda i: c3[i // (len(c3) * len(d1))][1](c3[(i // len(d1)) % len(c3)][1](d1[i % len(d1)]))))
    return levels


def shards(tier):
    out = []
    ncore = len(_core(tier)) * len(P.VARIANTS)
    for lo in range(0, ncore, 200):
        out.append(["core", lo, min(ncore, lo + 200)])
    for name, n, _ in _space(tier):
        k = max(1, min(BOUNDS[tier]["shards"], n // 150 + 1))
        step = -(-n // k)
        for lo in range(0, n, step):
            out.append([name, lo, min(n, lo + step)])
    return out


def _units(shard, tier):
    """-> list of (pattern, variant, case_json)"""
    name, lo, hi = shard
    out = []
    if name == "core":
        core = _core(tier)
        for i in range(lo, hi):
            p, v = core[i // len(P.VARIANTS)], P.VARIANTS[i % len(P.VARIANTS)]
            out.append((p, v, {"level": "core", "index": i, "variant": list(v)}))
        return out
    for nm, n, get in _space(tier):
        if nm == name:
            for i in range(lo, hi):
                p = get(i)
                for v in (V1, OTHER_VARIANTS[i % len(OTHER_VARIANTS)]):
                    out.append((p, v, {"level": name, "index": i, "variant": list(v)}))
    return out


# ---------------------------------------------------------------- execution

class Side:
    def __init__(self, env):
        self.log = []
        self.g = dict(env)

        def g(i, vals, gv):
            self.log.append(repr(vals))
            return gv
        self.g["g"] = g


def _hy_compile(texts, side):
    """compile several defn forms in one module; returns the module namespace"""
    from mc import hyside
    mod = hyside.fresh_module()
    mod.__dict__.update(side.g)
    text = "\n".join(texts)
    tree = hyside.compile_text(text, mod)
    exec(compile(tree, "<c08>", "exec"), mod.__dict__)
    return mod.__dict__


def _observe(f, subj_code, env, gv, side, detailed=False):
    """repr() is type-strict on the value universe used here (bool/int, list/tuple, str, dict in insertion order, Pt, Keyword)"""
    s = eval(subj_code, env)
    del side.log[:]
    try:
        r = f(s, gv)         # the function returns (locals)
        r = {k: r.get(k, "<unbound>") for k in P.DUMP}
        out = "ok " + (" ".join(f"{k}={P.canon(v)}" for k, v in r.items()) if detailed else repr(r))
    except Exception as e:
        out = "exc " + type(e).__name__
    return out, list(side.log)


_SUBJ_CODE = []


def _subjects():
    if not _SUBJ_CODE:
        _SUBJ_CODE.extend(compile(s, "<subject>", "eval") for s in P.SUBJECTS)
    return _SUBJ_CODE


def _selected(out, target="r"):
    """which case's result ended up in the target variable"""
    if out.startswith("exc"):
        return out[4:]
    for part in out.split(" ")[1:]:
        if part.startswith(target + "="):
            val = part[len(target) + 1:]
            for lab in ("P", "else", "first", "other"):
                if val.startswith(f"list[str:'{lab}'"):
                    return lab
            return "none" if val.startswith("NoneType") else "?"
    return "?"


def _selected_fast(out, target):
    if out.startswith("exc"):
        return out[4:]
    i = out.find(f"'{target}': ")
    val = out[i + len(target) + 4:i + len(target) + 14]
    for lab in ("P", "else", "first", "other"):
        if val.startswith(f"['{lab}'"):
            return lab
    return "none" if val.startswith("None") else "?"


def _nontrivial(p, v):
    return P.binds(p) or "or" in P.features(p) or v[1] != "none" or v[3] != "r"


def _process(acc, units, env, only_subject=None):
    from mc import hyside
    py_side, hy_side = Side(env), Side(env)
    # ---- Python side
    pys = []
    for p, v, case in units:
        text = P.py_program(p, v)
        try:
            g = dict(py_side.g)
            exec(compile(text, "<c08-py>", "exec"), g)
            pys.append(g["m"])
        except SyntaxError as e:
            pys.append(e)
    # ---- Hy side: batch what is expected to compile
    hys = [None] * len(units)
    batchable = [i for i, (p, v, c) in enumerate(units)
                 if not isinstance(pys[i], SyntaxError) and "star-wildcard" not in P.features(p)]
    for lo in range(0, len(batchable), BATCH):
        idx = batchable[lo:lo + BATCH]
        try:
            ns = _hy_compile([P.hy_program(units[i][0], units[i][1], fname=f"m{i}") for i in idx], hy_side)
            for i in idx:
                hys[i] = ns[f"m{i}"]
            acc.evaluations += 1
        except Exception:
            pass
    for i, (p, v, c) in enumerate(units):
        if hys[i] is None:
            acc.evaluations += 1
            try:
                hys[i] = _hy_compile([P.hy_program(p, v)], hy_side)["m"]
            except Exception as e:
                hys[i] = e
    # ---- compare
    subj = _subjects()
    for i, (p, v, case) in enumerate(units):
        acc.states += 1
        acc.transitions += 1
        feats = ",".join(sorted(P.features(p)))
        hy_text = P.hy_program(p, v)
        case = dict(case, pattern=P.hy(p))
        if _nontrivial(p, v):
            acc.nontrivial += 1
        acc.count("pattern-top:" + p[0])
        pf, hf = pys[i], hys[i]
        vf = dict(ctx=v[0], guard=v[1], result=v[2], target=v[3])
        if isinstance(pf, SyntaxError):
            acc.traces += 1
            if isinstance(hf, Exception):
                acc.outcome("both-reject")
            else:
                acc.outcome("hy-accepts-python-rejects")
                acc.disagree("hy-accepts-pattern-python-rejects", case, f"{hy_text} compiles, but Python rejects `{P.py(p)}`: {pf.msg}",
                             sig="accepts:" + str(pf.msg)[:40], features=feats, **vf)
            continue
        if isinstance(hf, Exception):
            acc.traces += 1
            user = hyside.is_user_error(hf)
            acc.outcome("hy-rejects-python-accepts")
            acc.disagree("hy-rejects-pattern-python-accepts", case,
                         f"{hy_text}: {type(hf).__name__}: {str(hf)[:160]}; Python accepts `case {P.py(p)}`",
                         sig=f"rejects:{type(hf).__name__}:{str(hf)[:30]}", exc=type(hf).__name__, msg=str(hf)[:60],
                         user_error="yes" if user else "no", features=feats, **vf)
            continue
        bad = None
        for k, code in enumerate(subj):
            if only_subject is not None and k != only_subject:
                continue
            for gv in ((True, False) if v[1] != "none" else (True,)):
                want = _observe(pf, code, env, gv, py_side)
                got = _observe(hf, code, env, gv, hy_side)
                acc.traces += 1
                acc.evaluations += 1
                acc.outcome("selected:" + _selected_fast(want[0], v[3]))
                if got != want and bad is None:
                    bad = (k, gv, want, got)
        if bad:
            k, gv = bad[0], bad[1]
            want = _observe(pf, subj[k], env, gv, py_side, detailed=True)
            got = _observe(hf, subj[k], env, gv, hy_side, detailed=True)
            if want[0] != got[0]:
                w = dict(x.split("=", 1) for x in want[0].split(" ")[1:]) if want[0].startswith("ok") else {}
                g_ = dict(x.split("=", 1) for x in got[0].split(" ")[1:]) if got[0].startswith("ok") else {}
                differs = ",".join(n for n in P.DUMP if w.get(n) != g_.get(n)) if w and g_ else "exception"
                kind = "match-result-differs"
            else:
                differs, kind = "guard-log", "guard-evaluation-differs"
            acc.disagree(kind, dict(case, subject=k, gv=gv),
                         f"{hy_text} on s={P.SUBJECTS[k]} gv={gv}: Hy {got[0]} guard-log {got[1]}; Python {want[0]} guard-log {want[1]}",
                         sig=f"{kind}:{differs}:{v[1]}:{v[3]}:{p[0]}", differs=differs, features=feats,
                         expected_case=_selected(want[0], v[3]), got_case=_selected(got[0], v[3]), **vf)


def run_shard(shard, tier):
    acc = Acc()
    env = P.make_env()
    units = [u for u in _units(shard, tier)]
    kept = []
    for u in units:
        if P.class_positional_keyword_trap(u[0]):
            acc.count("not-generated:no-hy-spelling(keyword literal in class positional slot, :as of :as)")
            continue
        kept.append(u)
    for lo in range(0, len(kept), 240):
        _process(acc, kept[lo:lo + 240], env)
    for u in kept[::max(1, len(kept) // 2)][:2]:
        acc.sample({"hy": P.hy_program(u[0], u[1])})
    return acc.result()


def recheck(case, tier):
    acc = Acc()
    env = P.make_env()
    lvl, i, v = case["level"], case["index"], tuple(case["variant"])
    if lvl == "core":
        p = _core(tier)[i // len(P.VARIANTS)]
    else:
        p = [get for nm, n, get in _space(tier) if nm == lvl][0](i)
    _process(acc, [(p, v, {"level": lvl, "index": i, "variant": list(v)})], env, only_subject=case.get("subject"))
    return acc.disagreements


def snippet(d):
    c = d["case"]
    tier = "thorough" if c["level"] == "d3" else "quick"
    v = tuple(c["variant"])
    if c["level"] == "core":
        # the core set depends on the tier; find the pattern by its text
        cands = [q for t in ("quick", "thorough") for q in _core(t) if P.hy(q) == c["pattern"]]
        p = cands[0]
    else:
        p = [get for nm, n, get in _space(tier) if nm == c["level"]][0](c["index"])
    subj = P.SUBJECTS[c.get("subject", 0) or 0]
    return (
        "import hy, hy.models, types\n"
        "class Pt:\n    __match_args__ = ('x', 'y')\n    def __init__(s, x, y): s.x, s.y = x, y\n"
        "    def __eq__(s, o): return isinstance(o, Pt) and (o.x, o.y) == (s.x, s.y)\n    def __repr__(s): return f'Pt({s.x!r}, {s.y!r})'\n"
        "NS = types.SimpleNamespace(Pt=Pt); K = types.SimpleNamespace(one=2)\n"
        "KWK, KWJ = hy.models.Keyword('k'), hy.models.Keyword('j'); KWV = types.SimpleNamespace(k=KWK, j=KWJ)\n"
        f"PRE = {tuple(val for n, val in P.PRESET)!r}\n"
        "def g(i, vals, gv): print('guard called with', vals); return gv\n"
        f"HY = {P.hy_program(p, v, fname='m_hy')!r}\nPY = {P.py_program(p, v, fname='m_py')!r}\n"
        "def show(f):\n    try: print({k: w for k, w in f().items() if k in %r})\n    except Exception as e: print(type(e).__name__, e)\n" % (P.DUMP,) +
        "show(lambda: (hy.eval(hy.read_many(HY), globals()), m_hy(%s, %r))[1])\n" % (subj, c.get("gv", True)) +
        "show(lambda: (exec(PY, globals()), m_py(%s, %r))[1])\n" % (subj, c.get("gv", True)))
