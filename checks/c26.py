"""C26  Model constructors accept exactly what Hy syntax can express.

Space: every string up to length n over a 33-character alphabet for
Symbol(s) and Keyword(s); every (delimiter, content) pair over the bracket
alphabets for String(s, brackets=d).
Oracle: constructor succeeds  <=>  the reader, given the text the property
names (s / ':'+s / '#[d[' s ']d]'), yields exactly that one model.
"""
from mc import enumer
from mc.util import Acc

ID = "C26"
TECHNIQUE = "bounded exhaustive enumeration of all strings over a syntax-significant alphabet; reader as reference"
LEVEL_TEXT = ("Every string up to the length bound over the alphabet is given both to the model constructor and to the real "
              "reader; the biconditional 'constructor succeeds <=> the reader yields exactly that one model' is evaluated on every one. "
              "Exhaustive within the bound: a single character class that the constructor and the reader treat differently is found.")
RULE = ("every token string up to the stated length is enumerated (length-then-lexicographic); "
        "a case is one (constructor, string) pair, all distinct by construction; non-trivial = the string contains at "
        "least one character that is not a plain identifier letter (delimiter, whitespace, dot, colon, hash, quote, digit, ...) "
        "for Symbol/Keyword, or the content contains ']' / newline / CR for String")
ASSUMPTIONS = [
    "alphabet-bounded: strings over the listed characters only",
    "bracket delimiters 'f' and 'f-…' denote bracket f-strings (a different construct) and are outside the space",
]

SYM_ALPHA = list("a1.:#()[]{}\"'`~; \n\t-_,+@*!je é\\^=/NIfn")
PLAIN = set("ae_éfn")
DELIMS = ["", "a", "ab", "aa", "=", "x", "a b", "-", "f-", "fa"]   # 'f-' is an f-string delimiter -> skipped, listed
CONTENT_ALPHA = ["a", "b", "]", "[", "\n", "\r", "{", "}", "="]

BOUNDS = {
    "quick": dict(sym_len=3, content_len=4),
    "thorough": dict(sym_len=4, content_len=6),
}


def bounds(tier):
    b = BOUNDS[tier]
    return {"symbol_keyword_alphabet": SYM_ALPHA, "max_len": b["sym_len"],
            "bracket_delimiters": DELIMS, "bracket_content_alphabet": CONTENT_ALPHA,
            "bracket_content_max_len": b["content_len"]}


def shards(tier):
    b = BOUNDS[tier]
    out = []
    for lo, hi in enumer.string_shards(len(SYM_ALPHA), b["sym_len"], 64 if tier == "thorough" else 32):
        out.append(["symkw", lo, hi])
    for lo, hi in enumer.string_shards(len(CONTENT_ALPHA), b["content_len"], 32 if tier == "thorough" else 16):
        out.append(["str", lo, hi])
    return out


def _read_all(text):
    import hy
    try:
        return list(hy.read_many(text)), None
    except BaseException as e:  # any failure = "does not read as that model"
        return None, type(e).__name__


def check_symbol(s):
    import hy.models as M
    try:
        m = M.Symbol(s)
        ok = type(m) is M.Symbol and str(m) == s
        err = None
    except Exception as e:
        ok, err = False, type(e).__name__
    forms, rerr = _read_all(s)
    reads = forms is not None and len(forms) == 1 and type(forms[0]) is M.Symbol and str(forms[0]) == s
    return ok, reads, err, rerr


def check_keyword(s):
    import hy.models as M
    try:
        m = M.Keyword(s)
        ok = type(m) is M.Keyword and m.name == s
        err = None
    except Exception as e:
        ok, err = False, type(e).__name__
    forms, rerr = _read_all(":" + s)
    reads = forms is not None and len(forms) == 1 and type(forms[0]) is M.Keyword and forms[0].name == s
    return ok, reads, err, rerr


def render_bracket(d, s):
    # the reader discards one initial newline, so content starting with a
    # newline needs one more in front of it to be "content s"
    lead = "\n" if s[:1] in ("\n", "\r") else ""
    return "#[" + d + "[" + lead + s + "]" + d + "]"


def check_string(d, s):
    import hy.models as M
    try:
        m = M.String(s, brackets=d)
        ok = type(m) is M.String and str(m) == s and m.brackets == d
        err = None
    except Exception as e:
        ok, err = False, type(e).__name__
    forms, rerr = _read_all(render_bracket(d, s))
    reads = (forms is not None and len(forms) == 1 and type(forms[0]) is M.String
             and str(forms[0]) == s and forms[0].brackets == d)
    return ok, reads, err, rerr


def _one(acc, kind, case, res, nontrivial):
    ok, reads, err, rerr = res
    acc.states += 1
    acc.transitions += 2       # one constructor call, one read
    acc.traces += 1
    acc.evaluations += 1
    if nontrivial:
        acc.nontrivial += 1
    acc.outcome(f"{kind}:ctor={'ok' if ok else 'reject'}:read={'yes' if reads else 'no'}")
    if ok != reads:
        acc.disagree(f"{kind}-ctor-{'accepts' if ok else 'rejects'}-but-reader-{'yields' if reads else 'does-not-yield'}",
                     case, f"constructor ok={ok} ({err}); reader yields exactly that model={reads} ({rerr})",
                     sig=f"{kind}:{ok}:{reads}:{_shape(case)}", shape=_shape(case))


def _shape(case):
    """Coarse structural class of the counterexample, used for signatures and
    known-finding matchers."""
    if case["kind"] == "String":
        s, d = case["s"], case["d"]
        feats = []
        if "\r" in s:
            feats.append("has-CR")
        if ("]" + d + "]") in s + "]" + d:
            feats.append("would-close-early")
        return ",".join(feats) or "other"
    s = case["s"]
    feats = []
    for ch, nm in ((".", "dot"), (":", "colon"), ("#", "hash")):
        if ch in s:
            feats.append(nm)
    return ",".join(feats) or "other"


def run_shard(shard, tier):
    b = BOUNDS[tier]
    acc = Acc()
    what, lo, hi = shard
    if what == "symkw":
        for idx, toks in enumer.iter_strings(SYM_ALPHA, lo, hi, b["sym_len"]):
            s = "".join(toks)
            nt = any(c not in PLAIN for c in s)
            _one(acc, "Symbol", {"kind": "Symbol", "s": s}, check_symbol(s), nt)
            _one(acc, "Keyword", {"kind": "Keyword", "s": s}, check_keyword(s), nt)
            if idx % 997 == 0:
                acc.sample({"Symbol/Keyword": s})
    else:
        for idx, toks in enumer.iter_strings(CONTENT_ALPHA, lo, hi, b["content_len"]):
            s = "".join(toks)
            nt = any(c in s for c in "]\n\r")
            for d in DELIMS:
                if d == "f" or d.startswith("f-"):
                    acc.unspecified += 1
                    continue
                _one(acc, "String", {"kind": "String", "s": s, "d": d}, check_string(d, s), nt)
            if idx % 997 == 0:
                acc.sample({"String": s, "delims": DELIMS})
    return acc.result()


def recheck(case, tier):
    acc = Acc()
    if case["kind"] == "Symbol":
        _one(acc, "Symbol", case, check_symbol(case["s"]), True)
    elif case["kind"] == "Keyword":
        _one(acc, "Keyword", case, check_keyword(case["s"]), True)
    else:
        _one(acc, "String", case, check_string(case["d"], case["s"]), True)
    return acc.disagreements


def snippet(d):
    c = d["case"]
    if c["kind"] == "String":
        return (f"import hy, hy.models as M\ns={c['s']!r}; d={c['d']!r}\n"
                f"try:\n    M.String(s, brackets=d); print('constructor accepts')\nexcept ValueError: print('constructor rejects')\n"
                f"print(list(hy.read_many({render_bracket(c['d'], c['s'])!r})))\n")
    pre = ":" if c["kind"] == "Keyword" else ""
    return (f"import hy, hy.models as M\ns={c['s']!r}\n"
            f"try:\n    M.{c['kind']}(s); print('constructor accepts')\nexcept ValueError: print('constructor rejects')\n"
            f"try:\n    print(list(hy.read_many({pre!r}+s)))\nexcept Exception as e: print('reader:', type(e).__name__, e)\n")
