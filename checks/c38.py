"""C38  hy.gensym returns distinct reserved symbols under every thread schedule.

Space (engine E3, mc/sched.py): T real threads x c calls each of the REAL
gensym of $VERIF_REPO/hy/core/util.hy (a fresh copy of the module, executed
with instrumented threading.Lock/RLock factories so that its lock -- however it
is created -- is scheduler-aware).  Within a run all threads pass the SAME
argument (forced collision); the argument ranges over ARGS.  The shared
counter is reset to 0 before every execution.  Every schedule with at most b
preemptions (or every schedule at all) is executed, for the (mode, T, c, b)
combinations of the tier.

Oracle per complete schedule: no deadlock; every returned value is a
hy.models.Symbol that starts with `_hy_` and satisfies hy.mangle(s) == s; the
returned symbols are pairwise distinct; a call raises under a schedule iff the
same call raises when run alone (a call that raises returns no symbol).

Thorough tier only: a TLA+ model of the protocol (mc/tla/Gensym.tla) is checked
with the installed TLC, its state graph is unfolded into all maximal paths and
each path is replayed as a forced schedule on the implementation; after every
model action the implementation's shared counter and lock holder, and at the
end the counter value inside each thread's symbol, must equal the model's.
"""
import json
import os
import re

from mc.util import Acc

ID = "C38"
ENGINE = "E3-scheduler"
TECHNIQUE = ("stateless CHESS-style schedule exploration of real threads running the real hy.gensym under a cooperative "
             "scheduler (per-thread baton, sys.settrace opcode events, instrumented lock), depth-first over all schedules with "
             "iterative preemption bounding; thorough: all maximal paths of a TLC-checked TLA+ model replayed on the implementation")
LEVEL_TEXT = ("Every interleaving of 2-3 threads (thorough: up to 4) calling the real gensym with colliding arguments is executed, "
              "at the granularity of the bytecodes that touch the shared counter or the lock, for every schedule within the "
              "stated preemption bound (unbounded for T=2,c=1; thorough also T=3,c=1 and T=2,c=2); on each the returned symbols "
              "are compared for distinctness, the `_hy_` prefix and mangle-idempotence, and deadlocks are detected. "
              "Exhaustive within the bound: a lost update, a read outside the locked region or a lock that does not exclude "
              "is found if it can show with that many threads, calls and preemptions.")
RULE = ("a case is one complete schedule (the list of thread ids chosen at the successive scheduling points) of one "
        "(point mode, T, c, argument) harness; the shard with preemption bound b executes every schedule with <= b preemptions "
        "(evaluations) and counts as traces/transitions/states only what is new at exactly b preemptions, so all counters except "
        "`evaluations` are distinct over the whole run; states = distinct (per-thread pc, shared counter, lock holder) "
        "configurations; non-trivial = schedules with >= 1 preemption (a switch away from a thread that could have continued); "
        "outcome classes = distinct orders in which the threads' calls obtained their counter values")
ASSUMPTIONS = [
    "bound: T threads x c calls and preemption bounds as listed in `bounds`; all threads pass the same argument (from the listed alphabet) within a run",
    "granularity: a context switch is possible before every bytecode of a frame of hy.core.util that loads/stores/deletes a global "
    "which some function of that module rebinds or which holds a lock, before every closure-cell access and attribute/subscript store, "
    "and inside every lock acquire/release (mode 'shared'); modes 'globals' (every global access) and 'every' (every bytecode) "
    "confirm this reduction on smaller bounds.  Loads of never-rebound globals (hy, len) commute with everything.",
    "callees outside hy.core.util (hy.mangle, hy.models.Symbol, str.format) run atomically: audited once per worker (no global "
    "store/delete/import executed in any callee frame) and their module globals are compared with a snapshot after every execution",
    "the lock is the instrumented replacement, not the C lock: its acquire/release are assumed to behave like threading.Lock's",
    "CPython bytecode is the unit of atomicity (true under the GIL of CPython 3.12); free-threaded builds are outside the model",
    "a dotted argument ('a.b') makes gensym raise ValueError by construction; the documentation is silent, such runs are counted "
    "`unspecified` and only deadlock-freedom, distinctness of whatever is returned and schedule-independence of the raise are checked",
    "TLC cross-check: the model has 3 threads x 1 call; model actions are bound to implementation events "
    "(acquire, counter load, counter store, counter load, release); if the implementation's event sequence does not have that "
    "shape, or its counter/lock values differ from the model's, the model is reported as not describing the implementation "
    "(caps_hit, exhaustive=false) -- not a violation: the property oracle still judges every replayed path",
    "executions run on long-lived pooled OS threads (one fresh body and trace function per execution); recorded schedules "
    "(first, last, most-preempted of every shard) are replayed twice on brand-new OS threads and must observe exactly the same",
]
TIME_CAP = {"quick": 900, "thorough": 3000}

# argument alphabet: [] = no argument
ARGS = [[], ["a"], ["-"], ["☘"], ["a b"], ["X"], [5], ["a.b"], ["\ufb01x"], ["\uff41"]]     # the last two: identifier characters that are not NFKC-normal
DOTTED = 7
MAIN_ARGS = [0, 1, 2, 3, 4, 5, 6, 8, 9]

# (mode, T, c, max bound or None, argument indices)
PLAN = {
    "quick": [
        ("shared", 2, 1, None, MAIN_ARGS + [DOTTED]),
        ("shared", 2, 2, 2, MAIN_ARGS + [DOTTED]),
        ("shared", 3, 1, 2, MAIN_ARGS),
        ("globals", 2, 1, None, [1]),
    ],
    "thorough": [
        ("shared", 2, 1, None, MAIN_ARGS + [DOTTED]),
        ("shared", 2, 2, None, MAIN_ARGS + [DOTTED]),
        ("shared", 3, 1, None, MAIN_ARGS + [DOTTED]),
        ("shared", 3, 2, 3, MAIN_ARGS),
        ("shared", 4, 1, 2, MAIN_ARGS),
        ("globals", 2, 1, None, MAIN_ARGS + [DOTTED]),
        ("globals", 2, 2, 3, MAIN_ARGS),
        ("globals", 3, 1, 3, MAIN_ARGS),
        ("every", 2, 1, 2, [1, 3]),
    ],
}
TLA_ARGS = MAIN_ARGS
TLA_MODE = "globals"


def bounds(tier):
    return {
        "arguments": [("<none>" if not a else a[0]) for a in ARGS],
        "configurations": [{"points": m, "threads": T, "calls_per_thread": c,
                            "preemptions": ("unbounded" if b is None else f"<= {b}"),
                            "arguments": [("<none>" if not ARGS[i] else ARGS[i][0]) for i in args]}
                           for (m, T, c, b, args) in PLAN[tier]],
        "tla_cross_check": (tier == "thorough") and {"spec": "mc/tla/Gensym.tla", "threads": 3, "calls_per_thread": 1,
                                                     "points": TLA_MODE,
                                                     "arguments": [("<none>" if not ARGS[i] else ARGS[i][0]) for i in TLA_ARGS]},
    }


def shards(tier):
    out = []
    for (mode, T, c, b, args) in PLAN[tier]:
        for ai in args:
            if b is None:
                out.append({"kind": "dfs", "mode": mode, "T": T, "c": c, "arg": ai, "bound": None})
            else:
                for k in range(b + 1):
                    out.append({"kind": "dfs", "mode": mode, "T": T, "c": c, "arg": ai, "bound": k})
    if tier == "thorough":
        out.append({"kind": "tla"})
    return out


# ------------------------------------------------------------------ harness (one per worker process)

_H = {}
COUNTER = "_gensym_counter"


class Harness:
    def __init__(self):
        import hy
        import hy.models
        from mc import sched
        self.sched = sched
        self.hy = hy
        self.Symbol = hy.models.Symbol
        self.mod, self.replaced_locks = sched.load_instrumented("hy.core.util")
        md = vars(self.mod)
        self.fn = md["gensym"]
        self.watch = lambda code, g: g is md
        # "counter reset before each execution", generalised so that a refactored gensym keeps being
        # checkable: every data global of the module (not a module, function, class or lock) is re-bound to a
        # deep copy of its import-time value, function attributes likewise; globals that appear later are deleted
        import copy
        import types
        self._deepcopy = copy.deepcopy
        skip_types = (types.ModuleType, types.FunctionType, types.BuiltinFunctionType, type, sched.SchedLock)
        self.pristine = {}
        for k, v in md.items():
            if k.startswith("__") or isinstance(v, skip_types):
                continue
            try:
                self.pristine[k] = copy.deepcopy(v)
            except Exception:
                pass
        self.import_names = set(md)
        self.fn_attrs = [(f, copy.deepcopy(dict(f.__dict__))) for f in md.values()
                         if isinstance(f, types.FunctionType) and f.__globals__ is md]
        self.late_names = set()
        self.state_names = [COUNTER] if COUNTER in md else []

        def shared():                              # the shared state shown in configurations
            out = []
            for k in self.state_names:
                v = md.get(k)
                out.append(v if isinstance(v, (int, str, type(None))) else repr(v)[:80])
            return out[0] if len(out) == 1 else tuple(out)
        self.shared = shared
        # warm-up: every argument twice, sequentially on this thread (lazy imports, caches)
        for a in ARGS:
            self._call_alone(a)
            self._call_alone(a)
        # callees run atomically: no global write in any callee frame ...
        writes, mods = sched.audit_callees(lambda: [self._call_alone(a) for a in ARGS], self.watch)
        if writes:
            raise AssertionError("atomic-callee assumption broken: a callee of gensym writes module-level state: "
                                 + repr(writes[:5]))
        # ... and their module globals (and the never-rebound globals of hy.core.util itself) stay as they are
        mods = [m for m in mods if m is not globals()]
        self.audit_modules = [m.get("__name__") for m in mods]
        self.snap_dicts = list(mods) + [md]
        # scheduler warm-up, discovery of the watched code objects, and the sequential
        # reference: does a single call with this argument, run alone, raise?
        codes = set()
        self.seq_raises = []
        for a in ARGS:
            prev = None
            for _ in range(4):
                self.reset()
                ex = sched.Execution(self.bodies(1, 1, a), self.watch, sched.PrefixStrategy(()), self.shared,
                                     sched.Points("globals")).run()
                codes |= ex.codes_seen
                obs = ex.observation()
                if obs == prev:
                    break
                prev = obs
            else:
                raise sched.SchedError("single-thread warm-up executions keep differing")
            if ex.deadlock is not None or ex.results[0] is None or ex.results[0][0] != "ok":
                raise AssertionError(f"gensym{tuple(a)!r} does not terminate normally even when run alone: "
                                     f"deadlock={ex.deadlock} result={ex.results[0]!r}")
            o = ex.results[0][1][0]
            self.seq_raises.append(None if o[0] == "ok" else o[1])
        self.lock_names = sorted(k for k, v in md.items() if isinstance(v, sched.SchedLock))
        # globals bound to a mutable object (a lock, a list, an iterator ...) are shared mutable state too,
        # even if no function rebinds the name: a load of such a name is a scheduling point
        mutable = [k for k, v in self.pristine.items()
                   if not isinstance(v, (int, float, str, bool, tuple, bytes, frozenset, type(None)))]
        self.points = {"shared": sched.Points("shared", codes, self.lock_names + mutable),
                       "globals": sched.Points("globals"), "every": sched.Points("every")}
        written = set(self.points["shared"].written)
        self.late_names = {k for k in written if k not in self.import_names}
        self.skip_names = written | set(self.pristine) | {COUNTER}
        self.state_names = sorted(k for k in (written | set(self.pristine))
                                  if not (k.startswith("_hy_") and isinstance(self.pristine.get(k), dict)))
        self.reset()
        self.snap = sched.snapshot_globals(self.snap_dicts, self.skip_names)

    def _call_alone(self, a):
        self.reset()
        for v in list(vars(self.mod).values()):
            if isinstance(v, self.sched.SchedLock):
                v._force_reset()
        try:
            self.fn(*a)
        except Exception:
            pass

    def reset(self):
        md = vars(self.mod)
        for k, v in self.pristine.items():
            md[k] = v if isinstance(v, (int, float, str, bool, tuple, type(None))) else self._deepcopy(v)
        for k in self.late_names:
            md.pop(k, None)
        for f, d in self.fn_attrs:
            if f.__dict__ != d:
                f.__dict__.clear()
                f.__dict__.update(self._deepcopy(d))

    def bodies(self, T, c, a):
        fn = self.fn
        SchedError = self.sched.SchedError

        def body():
            out = []
            for _ in range(c):
                try:
                    out.append(("ok", fn(*a)))
                except SchedError:
                    raise
                except Exception as e:
                    out.append(("exc", type(e).__name__, str(e)))
            return out
        return [body for _ in range(T)]

    def check_snapshot(self):
        now = self.sched.snapshot_globals(self.snap_dicts, self.skip_names)
        if now != self.snap:
            diff = self.sched.diff_snapshots(self.snap, now, self.snap_dicts)
            raise AssertionError("module-level state outside the scheduler's control changed during an execution: "
                                 + ", ".join(diff))


def harness():
    if "h" not in _H:
        _H["h"] = Harness()
    return _H["h"]


# ------------------------------------------------------------------ oracle

_NUM = re.compile(r"_(\d+)\Z")


def counter_of(sym):
    m = _NUM.search(str(sym))
    return int(m.group(1)) if m else None


def outcome_class(T, c, ex):
    """The order in which the calls got their counter values."""
    got = []
    raised = 0
    for t, r in enumerate(ex.results):
        if r is None or r[0] != "ok":
            return f"T{T}c{c}:aborted"
        for k, o in enumerate(r[1]):
            if o[0] == "ok":
                got.append((counter_of(o[1]), f"t{t}.{k}"))
            else:
                raised += 1
    if raised and not got:
        return f"T{T}c{c}:all-calls-raise"
    nums = [g[0] for g in got]
    if None in nums:
        return f"T{T}c{c}:no-counter-suffix"
    tag = "dup:" if len(set(nums)) != len(nums) else ""
    got.sort()
    return f"T{T}c{c}:{tag}" + "<".join(g[1] for g in got) + (f"+{raised}raise" if raised else "")


def judge(h, shard, ex):
    """Disagreements of one complete schedule: list of (kind, detail, sig, fields)."""
    out = []
    T, c, ai = shard["T"], shard["c"], shard["arg"]
    argname = "<none>" if not ARGS[ai] else repr(ARGS[ai][0])
    if ex.deadlock is not None:
        out.append(("deadlock", f"no enabled thread; unfinished threads and their pending operations: {ex.deadlock}",
                    "deadlock", {"pending": json.dumps([list(map(str, p[1])) for p in ex.deadlock])}))
        return out
    syms = []
    for t, r in enumerate(ex.results):
        if r is None or r[0] != "ok":
            out.append(("thread-body-failed", f"thread {t}: {r!r}", "thread-body-failed", {}))
            continue
        for k, o in enumerate(r[1]):
            if o[0] == "ok":
                syms.append((t, k, o[1]))
                if h.seq_raises[ai] is not None:
                    out.append(("returns-only-under-concurrency",
                                f"gensym({argname}) raises {h.seq_raises[ai]} when run alone but returned {o[1]!r} in thread {t}",
                                "returns-only-under-concurrency", {}))
            else:
                if h.seq_raises[ai] is None:
                    out.append(("raises-only-under-concurrency",
                                f"gensym({argname}) returns a symbol when run alone but raised {o[1]}: {o[2]} in thread {t} call {k}",
                                "raises-only-under-concurrency:" + o[1], {"exc": o[1]}))
    for (t, k, s) in syms:
        if type(s) is not h.Symbol:
            out.append(("not-a-symbol", f"thread {t} call {k} returned {type(s).__name__} {s!r}", "not-a-symbol",
                        {"type": type(s).__name__}))
            continue
        if not str(s).startswith("_hy_"):
            out.append(("no-reserved-prefix", f"thread {t} call {k} returned {str(s)!r}", "no-reserved-prefix", {"symbol": str(s)}))
        try:
            m = h.hy.mangle(s)
        except Exception as e:
            m = f"<{type(e).__name__}>"
        if m != str(s):
            out.append(("not-mangled", f"hy.mangle({str(s)!r}) = {m!r}", "not-mangled", {"symbol": str(s)}))
    names = [str(s) for (_, _, s) in syms]
    if len(set(names)) != len(names):
        dup = sorted({n for n in names if names.count(n) > 1})
        who = [(t, k) for (t, k, s) in syms if str(s) in dup]
        out.append(("duplicate-symbol", f"{dup} returned by (thread, call) {who}; all returned: {names}",
                    "duplicate-symbol", {"symbol": dup[0], "preemptions": str(ex.preemptions)}))
    return out


def _case(shard, ex):
    # 'preemptions' first: among equally long cases the runner lists the least-preempted schedule first
    return {"preemptions": ex.preemptions, "mode": shard["mode"], "T": shard["T"], "c": shard["c"], "arg": shard["arg"],
            "schedule": list(ex.choices)}


def _report(acc, h, shard, ex):
    for (kind, detail, sig, fields) in judge(h, shard, ex):
        acc.disagree(kind, _case(shard, ex), detail + f"  [schedule {list(ex.choices)}, {ex.preemptions} preemption(s)]",
                     sig=sig, **fields)


# ------------------------------------------------------------------ shards

def _dfs_shard(shard, acc):
    h = harness()
    sched = h.sched
    T, c, a, bound, mode = shard["T"], shard["c"], ARGS[shard["arg"]], shard["bound"], shard["mode"]
    points = h.points[mode]
    new_cfg, old_cfg = set(), set()
    keep = {}          # schedules to replay on fresh threads: first, last, most preempted

    def on_execution(ex):
        h.check_snapshot()
        acc.evaluations += 1
        new = bound is None or ex.preemptions == bound
        cfgs = [t[3] for t in ex.trace] + [ex.final_config]
        if new:
            acc.traces += 1
            acc.transitions += len(ex.choices)
            new_cfg.update(cfgs)
            if ex.preemptions >= 1:
                acc.nontrivial += 1
            if shard["arg"] == DOTTED:
                acc.unspecified += 1
            acc.outcome(outcome_class(T, c, ex))
            acc.count(f"schedules[{mode},T{T},c{c},preemptions={ex.preemptions}]")
            if acc.traces % 4001 == 1:
                acc.sample({"points": mode, "T": T, "c": c, "arg": a, "schedule": list(ex.choices),
                            "preemptions": ex.preemptions,
                            "returned": [[(str(o[1]) if o[0] == "ok" else o[1]) for o in r[1]] for r in ex.results if r]})
            keep.setdefault("first", ex)
            keep["last"] = ex
            if "most" not in keep or ex.preemptions > keep["most"].preemptions:
                keep["most"] = ex
        else:
            old_cfg.update(cfgs)
        _report(acc, h, shard, ex)

    sched.explore(lambda: h.bodies(T, c, a), h.watch, bound, on_execution, shared=h.shared, points=points, reset=h.reset)
    acc.states += len(new_cfg - old_cfg)
    # determinism: replay recorded schedules twice on brand-new OS threads; identical observations required
    for ex in {id(e): e for e in keep.values()}.values():
        want = ex.observation()
        for _ in range(2):
            again = sched.replay(lambda: h.bodies(T, c, a), h.watch, ex.choices, shared=h.shared, points=points, reset=h.reset)
            acc.count("determinism_replays_on_fresh_threads")
            if again.observation() != want:
                raise sched.SchedError(f"nondeterministic replay of schedule {list(ex.choices)} in shard {shard}")
    acc.count("locks_still_real_after_import(replaced)", h.replaced_locks)


# -- TLC cross-check ------------------------------------------------------

_ACT = re.compile(r"(\w+)\((\d+)\)\Z")
EXPECT = {"Acq": "acq", "Rd": "rd", "Wr": "wr", "RdN": "rd", "Rel": "rel"}


def parse_state(label):
    st = {}
    for m in re.finditer(r"/\\ (\w+) = (.*)", label):
        k, v = m.group(1), m.group(2).strip()
        if v.startswith("<<"):
            st[k] = [x.strip().strip('"') for x in v[2:-2].split(",")]
        else:
            st[k] = v
    return {"lock": int(st["lock"]), "ctr": int(st["ctr"]), "n": [int(x) for x in st["n"]], "pc": st["pc"]}


class NotApplicable(Exception):
    pass


def _visible(h, pending):
    """Model-level event of a pending implementation operation (None = silent)."""
    if pending[0] == "acq":
        return "acq"
    if pending[0] == "rel":
        return "rel"
    if pending[0] == "op" and pending[2] == COUNTER:
        if pending[1] in ("LOAD_GLOBAL", "LOAD_NAME"):
            return "rd"
        if pending[1] in ("STORE_GLOBAL", "STORE_NAME"):
            return "wr"
        return "other:" + pending[1]
    return None


def replay_path(h, a, path, states, mode):
    """Run one maximal model path as a forced schedule.  Returns (execution, mismatches)."""
    sched = h.sched
    st = {"k": 0, "fired": False}
    mism = []

    def compare(k):
        want = states[path[k][1]]
        ex = cur_ex[0]
        ctr = h.shared()
        owners = [l.owner for l in ex.locks]
        holder = 0
        for o in owners:
            if o is not None:
                holder = o + 1
        if ctr != want["ctr"] or holder != want["lock"]:
            mism.append(f"after model action #{k} {path[k][0]}: implementation (counter={ctr}, lock holder={holder}) "
                        f"!= model (ctr={want['ctr']}, lock={want['lock']})")

    cur_ex = [None]

    def choose(ex, step, cur, enabled):
        cur_ex[0] = ex
        while True:
            k = st["k"]
            if k >= len(path):
                return enabled[0]
            m = _ACT.match(path[k][0])
            act, t = m.group(1), int(m.group(2)) - 1
            if act == "Inc":                       # thread-local in the implementation: no step
                st["k"] += 1
                continue
            if st["fired"]:
                compare(k)
                st["k"] += 1
                st["fired"] = False
                continue
            if act == "Fmt":
                if ex.finished[t]:
                    compare(k)
                    st["k"] += 1
                    continue
                if _visible(h, ex.pending[t]) is not None:
                    raise NotApplicable(f"thread {t} does {ex.pending[t]} after its release (model: only thread-local work)")
                return t
            if ex.finished[t]:
                raise NotApplicable(f"thread {t} finished before model action {path[k][0]}")
            ev = _visible(h, ex.pending[t])
            if ev is None:
                return t
            if ev != EXPECT[act]:
                raise NotApplicable(f"model action {path[k][0]} but thread {t}'s next shared operation is {ex.pending[t]}")
            st["fired"] = True
            return t

    def strategy_choose(ex, step, cur, enabled):
        try:
            return choose(ex, step, cur, enabled)
        except NotApplicable as e:
            st["na"] = str(e)
            raise sched.SchedError("model not applicable: " + str(e))

    h.reset()
    try:
        ex = sched.Execution(h.bodies(3, 1, a), h.watch, sched.CallbackStrategy(strategy_choose), h.shared,
                             h.points[mode]).run()
    except sched.SchedError:
        if "na" in st:
            raise NotApplicable(st["na"])
        raise
    # drain: model actions not yet accounted for (threads that finished with the last step)
    while st["k"] < len(path):
        k = st["k"]
        m = _ACT.match(path[k][0])
        act, t = m.group(1), int(m.group(2)) - 1
        if act == "Inc":
            st["k"] += 1
            continue
        if st["fired"] or (act == "Fmt" and ex.finished[t]):
            st["fired"] = False
            st["k"] += 1
            continue
        raise NotApplicable(f"implementation finished before model action {path[k][0]}")
    final = states[path[-1][1]]
    got = []
    for t, r in enumerate(ex.results):
        o = r[1][0] if (r and r[0] == "ok" and r[1]) else None
        got.append(counter_of(o[1]) if (o and o[0] == "ok") else None)
    if got != final["n"]:
        mism.append(f"counter values returned per thread {got} != model n {final['n']}")
    if h.shared() != final["ctr"]:
        mism.append(f"final counter {h.shared()} != model ctr {final['ctr']}")
    return ex, mism


def _tla_shard(acc):
    h = harness()
    sched = h.sched
    here = os.path.dirname(os.path.abspath(sched.__file__))
    work = os.path.join(os.environ.get("MC_SCRATCH") or "/tmp", f"c38-tlc-{os.getpid()}")
    try:
        rc, out, dot = sched.run_tlc(os.path.join(here, "tla", "Gensym.tla"), os.path.join(here, "tla", "Gensym.cfg"), work)
    except Exception as e:                     # environmental (no java, timeout): the cross-check is not done, say so
        acc.caps_hit.append(f"TLC could not be run ({type(e).__name__}: {e}); TLA+ cross-check skipped")
        return
    if "Model checking completed. No error has been found." not in out or not os.path.exists(dot):
        acc.caps_hit.append("TLC did not verify mc/tla/Gensym.tla; TLA+ cross-check skipped: " + out[-600:])
        return
    acc.count("tlc_invariants_verified(TypeOK,Mutex,Holder,Distinct,AllDone)", 5)
    init, nodes, edges = sched.read_dot(dot)
    states = {k: parse_state(v) for k, v in nodes.items()}
    paths = sched.maximal_paths(init, edges)
    acc.count("tla_model_states", len(nodes))
    acc.count("tla_model_transitions", sum(len(v) for v in edges.values()))
    acc.count("tla_model_maximal_paths", len(paths))
    seen_cfg = set()
    for ai in TLA_ARGS:
        a = ARGS[ai]
        shard = {"mode": TLA_MODE, "T": 3, "c": 1, "arg": ai}
        for pi, (s0, path) in enumerate(paths):
            try:
                ex, mism = replay_path(h, a, path, states, TLA_MODE)
            except NotApplicable as e:
                acc.unspecified += 1
                msg = "TLA+ model not applicable to this implementation (event shape differs): " + str(e)
                if len(acc.caps_hit) < 3 and msg not in acc.caps_hit:
                    acc.caps_hit.append(msg)
                continue
            h.check_snapshot()
            acc.evaluations += 1
            acc.traces += 1
            acc.transitions += len(ex.choices)
            if ex.preemptions >= 1:
                acc.nontrivial += 1
            acc.count("tla_paths_replayed_on_implementation")
            seen_cfg.update(("tla",) + t[3] for t in ex.trace)
            acc.outcome("tla:" + outcome_class(3, 1, ex))
            if pi % 240 == 7 and ai == 1:
                acc.sample({"tla_path": [p[0] for p in path], "forced_schedule": list(ex.choices),
                            "returned": [[str(o[1]) for o in r[1]] for r in ex.results]})
            for msg in mism:
                # the model does not describe this implementation: TLC's verdict does not transfer.  Not a
                # violation of the property (the property oracle below still judges this schedule).
                acc.count("tla_model_mismatches")
                msg = "TLA+ model and implementation disagree, cross-check void: " + msg
                if len(acc.caps_hit) < 3 and msg not in acc.caps_hit:
                    acc.caps_hit.append(msg)
            _report(acc, h, shard, ex)
            if pi in (0, len(paths) - 1):      # the forced schedule, recorded, must replay identically as a plain prefix
                want = ex.observation()
                again = sched.replay(lambda: h.bodies(3, 1, a), h.watch, ex.choices, shared=h.shared,
                                     points=h.points[TLA_MODE], reset=h.reset)
                acc.count("determinism_replays_on_fresh_threads")
                if again.observation() != want:
                    raise sched.SchedError("nondeterministic replay of a TLA path schedule")
    acc.states += len(seen_cfg)


def run_shard(shard, tier):
    acc = Acc()
    if shard["kind"] == "tla":
        _tla_shard(acc)
    else:
        _dfs_shard(shard, acc)
    return acc.result()


def recheck(case, tier):
    """Replay one recorded schedule on brand-new threads in this fresh process.  The
    recorded choices are followed wherever they are possible; where the recorded thread
    is not enabled (the tree under test differs from the one the schedule was recorded
    on, e.g. after a fix) the default choice is taken, so the case stays meaningful:
    'this interleaving, as far as it exists, satisfies the property'."""
    h = harness()
    sched = h.sched
    acc = Acc()
    shard = {"mode": case["mode"], "T": case["T"], "c": case["c"], "arg": case["arg"]}
    a = ARGS[case["arg"]]
    want = list(case["schedule"])

    def choose(ex, step, cur, enabled):
        if step < len(want) and want[step] in enabled:
            return want[step]
        return cur if cur is not None else enabled[0]

    h.reset()
    ex = sched.Execution(h.bodies(case["T"], case["c"], a), h.watch, sched.CallbackStrategy(choose), h.shared,
                         h.points[case["mode"]], fresh_threads=True).run()
    _report(acc, h, dict(shard), ex)
    for d in acc.disagreements:
        d["case"] = case
        d["replayed_exactly"] = str(list(ex.choices) == want)
    return acc.disagreements


def snippet(d):
    c = d["case"]
    a = ARGS[c["arg"]]
    return f'''# C38: forced thread schedule on hy.gensym -- self-contained (no framework import).
# Scheduling points: before every global load/store of the names in SHARED inside gensym,
# and inside acquire/release of the lock (replaced by a cooperative one).
import os, sys, threading, dis, _thread
import hy, hy.core.util as U
SCHEDULE = {list(c["schedule"])!r}; T, C, ARGS, MODE = {c["T"]}, {c["c"]}, {tuple(a)!r}, {c["mode"]!r}
code = U.gensym.__code__
stores = {{i.argval for i in dis.get_instructions(code) if i.opname in ("STORE_GLOBAL", "DELETE_GLOBAL")}}
class CoopLock:
    def __init__(s): s.owner = None
    def acquire(s, *a):
        point(("acq", s)); s.owner = me(); return True
    def release(s):
        point(("rel", s)); s.owner = None
    def __enter__(s): s.acquire()
    def __exit__(s, *e): s.release()
for k, v in list(vars(U).items()):
    if isinstance(v, type(_thread.allocate_lock())): vars(U)[k] = CoopLock()
    elif v is threading.Lock or v is threading.RLock: vars(U)[k] = CoopLock
SHARED = stores | {{k for k, v in vars(U).items() if isinstance(v, CoopLock)}}
POINTS = {{i.offset for i in dis.get_instructions(code)
          if (i.opname.endswith("_GLOBAL") and (MODE != "shared" or i.argval in SHARED))
          or (MODE == "every" and i.opname not in ("RESUME", "CACHE", "NOP"))}}
go = [threading.Semaphore(0) for _ in range(T)]; main = threading.Semaphore(0)
ids = {{}}; pending = [None] * T; done = [False] * T; out = [[] for _ in range(T)]; sched = list(SCHEDULE)
me = lambda: ids[threading.get_ident()]
def enabled(t): return not done[t] and not (pending[t] and pending[t][0] == "acq" and pending[t][1].owner is not None)
def nxt(cur):
    en = [t for t in range(T) if enabled(t)]
    if not en: main.release(); return None
    if sched:
        n = sched.pop(0)
        if n not in en: print("the recorded schedule does not exist on this tree (thread", n, "is blocked here)"); os._exit(3)
        return n
    return cur if cur in en else en[0]
def point(p):
    t = me(); pending[t] = p
    if not primed[0]: main.release(); go[t].acquire(); return
    n = nxt(t)
    if n is None: go[t].acquire()
    elif n != t: go[n].release(); go[t].acquire()
def local(f, e, a):
    if e == "opcode" and f.f_lasti in POINTS: point(("op", f.f_lasti))
    return local
def glob(f, e, a):
    if e == "call" and f.f_code is code: f.f_trace_opcodes = True; return local
def body(t):
    ids[threading.get_ident()] = t; go[t].acquire(); sys.settrace(glob)
    for _ in range(C):
        try: out[t].append(str(U.gensym(*ARGS)))
        except Exception as e: out[t].append(repr(e))
    sys.settrace(None); done[t] = True; pending[t] = None
    if not primed[0]: main.release(); return
    n = nxt(t)
    if n is not None: go[n].release()
primed = [False]
(x for x in ()).gi_frame.f_trace_opcodes = True     # CPython 3.12: arms per-opcode events for later settrace calls
for a in (ARGS,):
    try: U.gensym(*a)
    except Exception: pass
U._gensym_counter = 0
ths = [threading.Thread(target=body, args=(t,), daemon=True) for t in range(T)]
for th in ths: th.start()
for t in range(T): go[t].release(); main.acquire()
primed[0] = True; go[nxt(None)].release(); main.acquire()
flat = [s for o in out for s in o]
print(out); print("DUPLICATE" if len(set(flat)) != len(flat) else "distinct",
      "(unfinished threads: deadlock)" if not all(done) else "")
'''
