"""C13  Compiling the same source is deterministic across processes.

Space: every program of a scope-heavy family — nonlocal/global declarations
of 2-4 names resolved at mixed levels (module, enclosing function, let),
comprehension forms leaking 2-3 assignments, let with 2-3 bindings, set and
dict displays, keyword arguments, defclass with keywords, match captures,
import lists — over every ordered choice of names from a 6-name pool, compiled
in K separate interpreter processes, each started with a different
PYTHONHASHSEED.
Oracle: ast.dump(tree, include_attributes=True) and the code object (compared
structurally, field by field, recursively; marshal bytes are compared too)
are identical in all K processes.
"""
import hashlib
import itertools
import json
import os
import subprocess
import sys

from mc.util import Acc

ID = "C13"
ENGINE = "E1-enumerator"
TECHNIQUE = "bounded exhaustive enumeration of scope-heavy programs, each compiled by the real compiler in K separate processes with different hash seeds; outputs compared pairwise"
LEVEL_TEXT = ("Every program of the family is compiled in K fresh interpreter processes with distinct PYTHONHASHSEED values and the ASTs and code "
              "objects are compared. Exhaustive over the program family and the listed seeds (a finite listed set of seeds, not all 2^32).")
RULE = ("templates x ordered name choices enumerated in order; a case = one program compared across all seeds; non-trivial = the program makes the "
        "compiler build a set or dict of >=2 names (>=2 names in one nonlocal/global/leak group), counted per distinct program")
ASSUMPTIONS = [
    "hash seeds are the listed finite set; process-level nondeterminism other than string hashing is not varied",
    "marshal byte differences with structurally equal code objects are reported separately (marshal's reference flags depend on interpreter-internal refcounts)",
]
TIME_CAP = {"quick": 900, "thorough": 5400}

POOL = ["alpha", "b", "c3", "delta_x", "e", "zz"]

BOUNDS = {
    "quick": dict(seeds=[0, 1, 2, 3], k_names=3, chunk=500),
    "thorough": dict(seeds=[0, 1, 2, 3, 4, 5, 6, 12345], k_names=4, chunk=600),
}


def bounds(tier):
    b = BOUNDS[tier]
    return {"hash_seeds": b["seeds"], "names_per_program": f"2..{b['k_names']}", "name_pool": POOL, "programs": len(programs(tier))}


def _nonlocal_programs(names):
    """names: ordered tuple.  Each name is defined at module level (M), in the enclosing function (F) or by a let in it (L)."""
    for levels in itertools.product("MFL", repeat=len(names)):
        mod = " ".join(f"{n} 1" for n, l in zip(names, levels) if l == "M")
        fn = " ".join(f"{n} 2" for n, l in zip(names, levels) if l == "F")
        lt = " ".join(f"{n} 3" for n, l in zip(names, levels) if l == "L")
        decl = " ".join(names)
        asg = " ".join(f"{n} 9" for n in names)
        body = f"(defn g [] (nonlocal {decl}) (setv {asg})) (g) [{decl}]"
        if lt:
            body = f"(let [{lt}] {body})"
        yield (f"{'(setv ' + mod + ')' if mod else ''} (defn f [] {'(setv ' + fn + ')' if fn else ''} {body}) (f)")


def _other_programs(names):
    ns = " ".join(names)
    asg = " ".join(f"{n} i" for n in names)
    yield f"(setv r (lfor i [1 2] (do (setv {asg}) i)))"
    yield f"(defn f [] (lfor i [1 2] (do (setv {asg}) i)) [{ns}]) (f)"
    yield f"(defn f [] (gfor i [1 2] :do (setv {asg}) i))"
    yield f"(defn f [] (dfor i [1] i (do (setv {asg}) (lfor j [1] (do (setv {asg}) j)))))"
    yield f"(defn f [] (global {ns}) (setv {asg.replace(' i', ' 1')}))"
    yield f"(let [{' '.join(n + ' 1' for n in names)}] (fn [] [{ns}]))"
    yield "#{" + " ".join(f'"{n}"' for n in names) + "}"
    yield "{" + " ".join(f'"{n}" {n}' for n in names) + "}"
    yield "(f " + " ".join(f":{n} 1" for n in names) + ")"
    yield f"(defclass K [] (setv {asg.replace(' i', ' 1')}))"
    yield "(defclass K [:metaclass M " + " ".join(f":{n} 1" for n in names) + "])"
    yield f"(match v [{ns}] 1 {{{' '.join(chr(34) + n + chr(34) + ' ' + n for n in names)}}} 2)"
    yield f"(import m [{ns}])"
    yield f"(require m [{ns}])" if False else f"(export :objects [{ns}])"
    yield f"(defn f [{ns}] (fn [] (nonlocal {ns}) (setv {asg.replace(' i', ' 1')})))"
    yield f"(defn f [* {ns}] [{ns}])"
    yield f"(with [{' '.join(n + ' (c)' for n in names)}] [{ns}])"
    yield f"(for [[{ns}] xs] (lfor i [1] (do (setv {asg}) i)))"


def _more_programs(names):
    """set/dict-order hazards beyond plain nonlocal: declarations inside comprehension forms compiled as functions,
    and macro tables enumerated by a local (require M *)."""
    ns = " ".join(names)
    asg = " ".join(f"{n} i" for n in names)
    init = " ".join(f"{n} 0" for n in names)
    yield f"(defn f [] (setv {init}) (defn g [] (lfor i [1 2] (do (nonlocal {ns}) (setv {asg} extra i) i))) (g))"
    yield f"(defn f [] (setv {init}) (defn g [] (lfor i [1 2] :do (nonlocal {ns}) :do (setv {asg} extra i) i)) (g))"
    yield f"(setv {init}) (defn g [] (gfor i [1 2] :do (global {ns}) :do (setv {asg} extra i) i))"
    # a declaration of ONE outer name plus several NEW names assigned in the same lowered comprehension
    yield f"(defn f [] (setv total 0) (defn g [] (lfor i [1 2] :do (nonlocal total) :do (setv total i {asg}) i)) (g))"
    yield f"(setv total 0) (defn g [] (sfor i [1 2] (do (global total) (setv total i {asg}) i))) (g)"
    yield f"(defn f [] (setv {init}) (defclass K [] (nonlocal {ns}) (setv {asg.replace(' i', ' 1')})))"
    yield f"(defn f [] (let [{init}] (fn [] (nonlocal {ns}) (setv {asg.replace(' i', ' 1')}))))"


HELPER_MODULE = "c13_macros"
HELPER_SOURCE = "\n".join(f"(defmacro {m} [x] `(+ ~x {i}))" for i, m in enumerate(
    ["add-one", "twice", "halve", "negate", "add-two", "alpha", "b", "c3", "delta-x", "e", "zz", "_private"]))
REQUIRE_PROGRAMS = [
    "(defn f [] (require c13_macros *) (add-one 1))",
    "(defn f [] (require c13_macros) (c13_macros.add-one 1))",
    "(defn f [] (require c13_macros :as m) (m.twice 1))",
    "(defn f [] (require c13_macros [twice halve negate]) (twice 1))",
    "(defn f [] (require c13_macros [twice :as t halve :as h]) (t 1))",
    "(defclass K [] (require c13_macros *) (setv v (negate 1)))",
    "(setv r (lfor i [1] (do (require c13_macros *) (halve i))))",
    "(require c13_macros *) (defn f [] (add-two 1))",
    "(require c13_macros :macros [alpha b c3])",
    "(defn f [] (defmacro la [] 1) (defmacro lb [] 2) (defmacro lc [] 3) (local-macros))",
    "(defn f [] (defmacro la [] 1) (defmacro lb [] 2) [(la) (lb)])",
    "(export :objects [alpha b c3] :macros [ma mb mc])",
]

_CACHE = {}


def programs(tier):
    if tier not in _CACHE:
        from checks import c12
        b = BOUNDS[tier]
        out = []
        for k in range(2, b["k_names"] + 1):
            for names in itertools.permutations(POOL, k):
                out.extend(_nonlocal_programs(names))
                out.extend(_other_programs(names))
                out.extend(_more_programs(names))
        out.extend(REQUIRE_PROGRAMS)
        out.extend(t for t, _o, _i in c12.pair_programs())      # every pair of name-introducing constructs
        _CACHE[tier] = out
    return _CACHE[tier]


def shards(tier):
    n = len(programs(tier))
    step = BOUNDS[tier]["chunk"]
    return [[lo, min(n, lo + step)] for lo in range(0, n, step)]


CHILD = r'''
import sys, json, ast, marshal, hashlib, types, warnings
warnings.simplefilter("ignore")
import hy
from hy.compiler import hy_compile
progs = json.load(open(sys.argv[1]))
def cstruct(co):
    consts = tuple(cstruct(c) if isinstance(c, types.CodeType) else (repr(sorted(map(repr, c))) if isinstance(c, frozenset) else repr(c)) for c in co.co_consts)
    return (co.co_code.hex(), consts, co.co_names, co.co_varnames, co.co_freevars, co.co_cellvars, co.co_name, co.co_qualname,
            co.co_firstlineno, co.co_linetable.hex(), co.co_exceptiontable.hex(), co.co_flags, co.co_argcount, co.co_kwonlyargcount, co.co_posonlyargcount, co.co_stacksize)
out = []
for i, text in enumerate(progs):
    try:
        m = types.ModuleType("m%d" % i)
        tree = hy_compile(hy.read_many(text, filename="<c13>"), m, filename="<c13>", source=text)
        dump = ast.dump(tree, include_attributes=True)
        try:
            code = compile(tree, "<c13>", "exec")
            cs = hashlib.sha256(repr(cstruct(code)).encode()).hexdigest()
            ms = hashlib.sha256(marshal.dumps(code)).hexdigest()
        except Exception as e:
            cs = ms = "compile-error:" + type(e).__name__
        out.append(["ok", hashlib.sha256(dump.encode()).hexdigest(), cs, ms, dump if len(dump) < 6000 else dump[:6000]])
    except BaseException as e:
        out.append(["err", type(e).__name__, "", "", str(e)[:200]])
json.dump(out, open(sys.argv[2], "w"))
'''


def compile_under_seeds(progs, seeds, tag):
    scratch = os.environ.get("MC_SCRATCH", "/tmp")
    base = os.path.join(scratch, f"c13-{os.getpid()}-{tag}")
    os.makedirs(base, exist_ok=True)
    inp = os.path.join(base, "progs.json")
    json.dump(progs, open(inp, "w"))
    open(os.path.join(base, HELPER_MODULE + ".hy"), "w").write(HELPER_SOURCE)
    child = os.path.join(base, "child.py")
    open(child, "w").write(CHILD)
    procs = []
    for s in seeds:
        env = dict(os.environ)
        env["PYTHONHASHSEED"] = str(s)
        env["PYTHONPATH"] = env.get("PYTHONPATH", "") + os.pathsep + base      # the helper macro module
        outp = os.path.join(base, f"out-{s}.json")
        procs.append((s, outp, subprocess.Popen([sys.executable, child, inp, outp], env=env, stdout=subprocess.PIPE, stderr=subprocess.PIPE)))
    res = {}
    for s, outp, p in procs:
        so, se = p.communicate(timeout=1200)
        if p.returncode != 0 or not os.path.exists(outp):
            raise RuntimeError(f"child for seed {s} failed: {se.decode()[-800:]}")
        res[s] = json.load(open(outp))
    return res


def _judge(acc, text, per_seed, seeds):
    acc.states += 1
    acc.evaluations += len(seeds)
    acc.transitions += len(seeds)
    acc.traces += 1
    first = per_seed[seeds[0]]
    groups = [g for g in (text.count("nonlocal"), text.count("global"), text.count("setv"), text.count("#{"), text.count(":")) if g]
    if groups:
        acc.nontrivial += 1
    if first[0] != "ok":
        acc.outcome("rejected:" + first[1])
        if any(per_seed[s][:2] != first[:2] for s in seeds):
            acc.disagree("error-differs-across-seeds", {"text": text}, str({s: per_seed[s][:2] for s in seeds}), sig="error-differs")
        return
    acc.outcome("compiled:" + _construct(text))
    for s in seeds[1:]:
        o = per_seed[s]
        if o[0] != "ok" or o[1] != first[1]:
            acc.disagree("ast-differs-across-hash-seeds", {"text": text}, f"seed {seeds[0]} vs seed {s}: {_firstdiff(first[4], o[4])}",
                         sig="ast-differs:" + _construct(text), construct=_construct(text))
            return
        if o[2] != first[2]:
            acc.disagree("bytecode-differs-across-hash-seeds", {"text": text}, f"seed {seeds[0]} vs seed {s}: code objects differ structurally while ASTs are equal",
                         sig="code-differs:" + _construct(text), construct=_construct(text))
            return
        if o[3] != first[3]:
            acc.count("marshal-bytes-differ-though-code-structurally-equal")


def _construct(text):
    for k in ("require", "local-macros", "defmacro", "nonlocal", "global", "lfor", "gfor", "dfor", "let", "defclass", "match", "import", "export", "with", "#{"):
        if k in text:
            return k
    return "other"


def _firstdiff(a, b):
    for i, (x, y) in enumerate(zip(a, b)):
        if x != y:
            return f"...{a[max(0, i - 60):i + 60]!r} vs ...{b[max(0, i - 60):i + 60]!r}"
    return "length differs"


def run_shard(shard, tier):
    acc = Acc()
    lo, hi = shard
    progs = programs(tier)[lo:hi]
    seeds = BOUNDS[tier]["seeds"]
    res = compile_under_seeds(progs, seeds, f"{lo}")
    for i, text in enumerate(progs):
        _judge(acc, text, {s: res[s][i] for s in seeds}, seeds)
        if i % 997 == 0:
            acc.sample({"hy": text, "seeds": seeds})
    return acc.result()


def recheck(case, tier):
    acc = Acc()
    seeds = BOUNDS[tier]["seeds"]
    res = compile_under_seeds([case["text"]], seeds, "recheck")
    _judge(acc, case["text"], {s: res[s][0] for s in seeds}, seeds)
    return acc.disagreements


def snippet(d):
    return ("# run this file twice: PYTHONHASHSEED=0 python x.py ; PYTHONHASHSEED=1 python x.py  and compare the output\n"
            "import hy, ast, types\nfrom hy.compiler import hy_compile\n"
            f"print(ast.dump(hy_compile(hy.read_many({d['case']['text']!r}), types.ModuleType('m'))))\n")
