"""C06  let bindings are lexically scoped.

Space: every program (forest) of <= n binding constructs over
{let [v E] (nested), setv, +=, setx, for, fn []/defn closures called right
away and/or at the END of the enclosing function/module body (after every let
has been left), ((fn [v] ...) E) parameter shadowing, lfor v, with [v ...],
except [v ...], match capture, defn/defclass/import of a pool name} with every
name drawn from a small shared pool, plus every single `let` with 2-3 bindings
(each a pool name with a value that may read an earlier name - the same name
may be bound twice - or a helper bound to a closure `(fn [] reads)` / generator
`(gfor _ [0] [reads])` that is called / consumed after the later bindings) and a
small body; a logged read `(log i v)` of EVERY pool
name at EVERY statement boundary of every body; at module level, inside a
function whose parameters are the pool names, and inside a parameterless
function (pool names are module globals).
Oracle: mc/ref/sc_let.py (frames + let cells + closures; written from
docs/api.rst let/lfor/setx/with/try/defn and tests/native_tests/let.hy): exact
log (site, value) sequence = the value read at every reference, including
after each let is left and inside closures called later; escaping exception
class; module globals afterwards restricted to user names (no name the model
does not have, every model name with the model's value).
"""
import json

from mc.util import Acc, time_limit, CaseTimeout
from mc.ref import sc_let as S

ID = "C06"
ENGINE = "E1-enumerator"
TECHNIQUE = ("bounded exhaustive enumeration of all forests of binding constructs over a shared name pool, reads of every pool name "
             "inserted at every statement boundary; compiled by the real compiler, executed, compared with a reference scope "
             "resolver + interpreter (exact read values, exception class, final module globals)")
LEVEL_TEXT = ("Every program of at most n binding constructs (let, nested let, setv/+=/setx/for, closures called inside and after the let, "
              "parameter shadowing, lfor, with, except, match capture, defn/defclass/import) over the name pool is compiled with the real "
              "Hy compiler and run at module level and inside functions; the value seen by a read of every pool name at every statement "
              "boundary, and the module globals afterwards, must equal those of a reference interpreter that implements lexical let "
              "scoping on top of Python scoping. Exhaustive within the bound.")
RULE = ("forests enumerated by construct count, then first-tree size, then alphabet order; one representative per rotation of the name pool "
        "(first binder name = first pool name); a case = (forest, wrapper); non-trivial = a construct that binds/assigns/defines v, or a "
        "closure definition, occurs inside a let / except / lfor binding (of the same name for non-closures), counted per distinct forest; "
        "'unspecified' = classes listed in ASSUMPTIONS (weak oracle: compiles, terminates)")
ASSUMPTIONS = [
    "constructs, value expressions {fresh constant, read of the target's own name, read of the next pool name} and pools as printed in bounds",
    "reads the model predicts unbound are rendered (log i (try v (except [NameError] \"U\"))) so that a program keeps running; the model iterates to a fixed rendering",
    "unspecified: assignment to a comprehension's iteration variable inside its body",
    "unspecified: defn/defclass/import inside a comprehension body (whether such a definition is 'visible outside the form' is not documented)",
    "unspecified: defn/defclass/import of the except variable inside its handler, or of a name bound by two nested let / except bindings of one Python scope",
    "unspecified: an except variable used by a closure after its handler has ended (Python deletes it; Hy's docs say only 'like except ETYPE as VAR')",
    "every body reads every pool name at least twice (an empty body gets two rounds of reads), so every scope has two reference nodes per name",
    "pinned by tests/native_tests/let.hy rather than api.rst: with/for targets assign the let binding; after defn/defclass/import of a let-bound name the name means the Python-scope variable for the rest of the let; a name assigned in a nested function's own scope is local there even when let-bound outside",
]
TIME_CAP = {"quick": 900, "thorough": 5400}

XY = ("x", "y")
XYZ = ("x", "y", "z")
# levels: (n, pool, alphabet 0 mini / 1 core / 2 full, wrappers)
# letm:   (number of bindings of the single multi-binding let, pool, max constructs in its body, body alphabet, wrappers)
BOUNDS = {
    "quick": dict(levels=[(1, XY, 2, S.WRAPPERS), (2, XY, 2, S.WRAPPERS), (3, XY, 0, ("mod", "fnp"))], per_shard=600,
                  letm=[(2, XY, 1, 0, S.WRAPPERS), (3, XY, 0, 0, S.WRAPPERS)]),
    "thorough": dict(levels=[(1, XYZ, 2, S.WRAPPERS), (2, XYZ, 2, S.WRAPPERS), (3, XYZ, 1, S.WRAPPERS),
                             (3, XY, 2, S.WRAPPERS), (4, XY, 0, ("mod", "fng"))], per_shard=6000,
                     letm=[(2, XYZ, 1, 1, S.WRAPPERS), (2, XY, 2, 1, S.WRAPPERS), (3, XY, 1, 0, S.WRAPPERS), (3, XYZ, 0, 0, S.WRAPPERS)]),
}


def bounds(tier):
    b = BOUNDS[tier]
    out = {"levels(n_constructs, pool, alphabet(0 mini/1 core/2 full), wrappers)": [[n, list(p), f, list(w)] for n, p, f, w in b["levels"]]}
    out["multi_binding_lets(bindings, pool, max_body_constructs, body_alphabet, wrappers)"] = [
        [nb, list(p), bn, f, list(w)] for nb, p, bn, f, w in b["letm"]]
    out["multi_binding_slot"] = "v x {K, read own name, read next name} for v in pool, or helper = (fn [] reads) / (gfor _ [0] [reads]) called/consumed at the start of the body"
    for full in (0, 1, 2):
        lv, hd = S.alphabet(XY, full)
        out["alphabet_" + ("mini", "core", "full")[full]] = sorted({":".join(x for x in t if x not in XY) for t in lv + hd})
    return out


def _count_forests(n, pool, full, memo={}):
    """Counts without materialising."""
    key = (n, pool, full)
    if key not in memo:
        leaves, heads = S.alphabet(pool, full)
        F = [1]
        T = [0]
        for m in range(1, n + 1):
            t = (len(leaves) if m == 1 else 0) + len(heads) * F[m - 1]
            T.append(t)
            F.append(sum(T[k] * F[m - k] for k in range(1, m + 1)))
        memo[key] = (F, T)
    return memo[key]


def shards(tier):
    """A shard = [level, k, head_index(-1: leaves), lo, hi]: first tree of size k is heads[h] + (forests(k-1)[j],) for lo<=j<hi
    (or leaves[j]); the rest ranges over all forests(n-k)."""
    b = BOUNDS[tier]
    out = []
    for li, (n, pool, full, wr) in enumerate(b["levels"]):
        leaves, heads = S.alphabet(pool, full)
        F, T = _count_forests(n, pool, full)
        for k in range(1, n + 1):
            rest = F[n - k]
            step = max(1, b["per_shard"] // rest)
            if k == 1:
                for lo in range(0, len(leaves), step):
                    out.append([li, k, -1, lo, min(len(leaves), lo + step)])
            for h in range(len(heads)):
                for lo in range(0, F[k - 1], step):
                    out.append([li, k, h, lo, min(F[k - 1], lo + step)])
    for li, (nb, pool, bn, full, wr) in enumerate(b["letm"]):
        total = len(S.letm_programs(nb, pool, bn, full))
        step = max(1, b["per_shard"] // 2)
        for lo in range(0, total, step):
            out.append(["m", li, lo, min(total, lo + step)])
    return out


def _iter_shard(shard, tier):
    if shard[0] == "m":
        _, li, lo, hi = shard
        nb, pool, bn, full, wr = BOUNDS[tier]["letm"][li]
        for f in S.letm_programs(nb, pool, bn, full)[lo:hi]:
            if S.canonical(f, pool):
                yield f, pool, wr
        return
    li, k, h, lo, hi = shard
    n, pool, full, wr = BOUNDS[tier]["levels"][li]
    leaves, heads = S.alphabet(pool, full)
    rests = S.forests(n - k, pool, full)
    if h == -1:
        firsts = leaves[lo:hi]
    else:
        firsts = [heads[h] + (b,) for b in S.forests(k - 1, pool, full)[lo:hi]]
    for a in firsts:
        for r in rests:
            f = (a,) + r
            if S.canonical(f, pool):
                yield f, pool, wr


# ---------------------------------------------------------------- implementation side
def _rep(v):
    import types
    if isinstance(v, bool) or not isinstance(v, (int, str)):
        if isinstance(v, types.ModuleType):
            return "<module>"
        if isinstance(v, type):
            return "<class>"
        if isinstance(v, BaseException):
            return "<exc %s>" % (v.args[0] if v.args else "")
        if callable(v):
            return "<fn>"
        return "<?%s>" % type(v).__name__
    return repr(v) if isinstance(v, int) else v


class _Fuel(BaseException):
    pass


def run_impl(text):
    from mc import hyside
    import warnings
    warnings.simplefilter("ignore")
    mod = hyside.fresh_module()
    log = []

    def logf(i, v):
        if len(log) >= 2 * S.Interp.FUEL:
            raise _Fuel()
        log.append((i, _rep(v)))
        return v

    class cm:
        def __init__(self, k):
            self.k = k

        def __enter__(self):
            return self.k

        def __exit__(self, *a):
            return False
    mod.log, mod.cm = logf, cm
    base = set(mod.__dict__)
    try:
        with time_limit(20):
            code = compile(hyside.compile_text(text, mod), "<case>", "exec")
    except CaseTimeout:
        return dict(outcome=("compile-timeout",), trace=[], globals={})
    except BaseException as e:
        return dict(outcome=("compile-error", type(e).__name__, str(e)[:200]), trace=[], globals={})
    try:
        with time_limit(20):
            exec(code, mod.__dict__)
        out = ("ok",)
    except _Fuel:
        out = ("fuel",)
    except CaseTimeout:
        out = ("timeout",)
    except BaseException as e:
        n = type(e).__name__
        out = ("exc", "NameError" if n == "UnboundLocalError" else n)
    g = {k: _rep(v) for k, v in mod.__dict__.items()
         if k not in base and not k.startswith("_hy_") and k not in ("hy", "__builtins__")}
    return dict(outcome=out, trace=log, globals=g)


def _jsonable(f):
    return json.loads(json.dumps(f))


def _tuplify(t):
    return tuple(_tuplify(e) for e in t) if isinstance(t, list) else t


def _shape(forest):
    """Coarse root-cause signature: constructor nesting skeleton with same/other-name marks, first three constructs."""
    out = []

    def walk(fs, depth, names):
        for t in fs:
            if len(out) >= 4:
                return
            if t[0] == "letm":
                bound = [b[1] for b in t[1] if b[0] == "b"]
                out.append("%sletm[%s]" % (">" * depth, ",".join(("=" if b[1] in names or bound.count(b[1]) > 1 else "~") + b[2]
                                                                   if b[0] == "b" else b[1] for b in t[1])))
                walk(t[2], depth + 1, names | set(bound))
            elif t[0] == "clo":
                out.append("%s%s.%s" % (">" * depth, t[1], t[2]))
                walk(t[3], depth + 1, names)
            else:
                mark = "=" if t[1] in names else "~"
                out.append("%s%s%s" % (">" * depth, t[0], mark))
                if t[0] in S.BODY_OPS:
                    walk(t[-1], depth + 1, names | {t[1]})
    walk(forest, 0, frozenset())
    return ",".join(out)


def _tag(forest, lets=frozenset(), inmatch=frozenset(), depth=0):
    """Structural class for narrow known-finding matchers.
    lets: names whose innermost binding in the current Python scope is a let / except binding;
    depth: number of enclosing comprehension forms in the current Python scope."""
    for t in forest:
        op = t[0]
        if op in S.DEFINERS and t[1] in inmatch:
            return "definition-of-let-bound-capture-name-inside-match-body"
        if op in ("setv", "aug", "setx", "forv", "with", "match") and depth >= 2 and t[1] in lets:
            return "assignment-to-let-bound-name-inside-nested-comprehensions"
        r = None
        if op in ("clo", "fnp"):
            r = _tag(t[3])
        elif op == "let":
            r = _tag(t[3], lets | {t[1]}, inmatch, depth)
        elif op == "letm":
            r = _tag(t[2], lets | {b[1] for b in t[1] if b[0] == "b"}, inmatch, depth)
        elif op == "match":
            r = _tag(t[2], lets, inmatch | ({t[1]} & lets), depth)
        elif op in ("lfor", "lforr"):
            if op == "lforr" and t[1] in lets:
                return "let-bound-name-read-in-the-iterable-of-the-comprehension-clause-that-rebinds-it"
            r = _tag(t[2], lets - {t[1]}, inmatch - {t[1]}, depth + 1)
        elif op == "exc":
            r = _tag(t[2], lets | {t[1]}, inmatch - {t[1]}, depth)
        elif op == "with":
            r = _tag(t[2], lets, inmatch, depth)
        if r and r != "other":
            return r
    return "other"


def check_case(acc, forest, pool, wrapper, sample=False):
    prog = S.expand(forest, pool, wrapper)
    m = S.run_model(prog)
    text = S.render(prog, m["guard"])
    case = {"forest": _jsonable(forest), "pool": list(pool), "wrapper": wrapper, "text": text}
    acc.evaluations += 1
    if m["outcome"] == ("fuel",):
        acc.outcome("skipped:model-fuel")
        return
    r = run_impl(text)
    acc.traces += 1
    acc.transitions += len(r["trace"]) + 1
    if sample:
        acc.sample({"hy": text, "model_outcome": m["outcome"], "events": len(m["trace"])})
    shape = _shape(forest)
    tag = _tag(forest)

    def bad(kind, detail, **kw):
        acc.disagree(kind, case, detail, sig=kind + ":" + tag + ":" + wrapper[:3] + ":" + shape, shape=shape, wrapper=wrapper, tag=tag, **kw)

    if r["outcome"][0] in ("compile-error", "compile-timeout"):
        acc.outcome("compile-error")
        bad("compile-failed", str(r["outcome"]), exc=str(r["outcome"][1:2]))
        return
    if m["unspecified"]:
        acc.unspecified += 1
        acc.outcome("unspecified")
        acc.count("unspecified: " + m["unspecified"])
        if r["outcome"][0] in ("timeout", "fuel"):
            bad("nontermination-in-unspecified-program", str(r["outcome"]))
        return
    acc.outcome(":".join(m["outcome"]) + (":guarded" if m["guard"] else ""))
    if tuple(r["outcome"]) != tuple(m["outcome"]):
        k = _first_diff(m["trace"], r["trace"])
        bad("wrong-outcome", f"model {m['outcome']} impl {r['outcome']}; first trace difference at {k}: model {m['trace'][k:k+2]} impl {r['trace'][k:k+2]}")
        return
    if r["trace"] != m["trace"]:
        k = _first_diff(m["trace"], r["trace"])
        site = (m["trace"][k][0] if k < len(m["trace"]) else r["trace"][k][0])
        bad("wrong-value-at-reference",
            f"event {k}: model {m['trace'][k:k+1]} impl {r['trace'][k:k+1]} (site {site}: {_site_text(prog, site)})")
        return
    if r["globals"] != m["globals"]:
        extra = sorted(set(r["globals"]) - set(m["globals"]))
        missing = sorted(set(m["globals"]) - set(r["globals"]))
        diff = {k: (m["globals"][k], r["globals"][k]) for k in m["globals"] if k in r["globals"] and m["globals"][k] != r["globals"][k]}
        bad("wrong-module-globals", f"extra {extra} missing {missing} different(model,impl) {diff}")


def _first_diff(a, b):
    k = 0
    while k < len(a) and k < len(b) and a[k] == b[k]:
        k += 1
    return k


def _site_text(prog, site):
    def walk(stmts):
        for s in stmts:
            if s[0] == "read" and s[1] == site:
                return f"read of {s[2]}"
            for part in s[1:]:
                if isinstance(part, tuple) and part and part[0] == "ref" and part[1] == site:
                    return f"value expression reading {part[2]} in {s[0]} {s[1]}"
                if isinstance(part, list):
                    r = walk(part)
                    if r:
                        return r
        return None
    return walk(prog["body"]) or walk(prog["tail"]) or "?"


def run_shard(shard, tier):
    acc = Acc()
    for i, (forest, pool, wrappers) in enumerate(_iter_shard(shard, tier)):
        acc.states += 1
        if S.nontrivial(forest):
            acc.nontrivial += 1
        for op in S.ops_in(forest):
            acc.count("op:" + op)
        for w in wrappers:
            check_case(acc, forest, pool, w, sample=(i == 7 and w == wrappers[0] and shard[-2] == 0))
    return acc.result()


def recheck(case, tier):
    acc = Acc()
    check_case(acc, _tuplify(case["forest"]), tuple(case["pool"]), case["wrapper"])
    return acc.disagreements


def snippet(d):
    c = d["case"]
    return ("import hy, types\nfrom hy.compiler import hy_compile\nLOG = []\n"
            "def log(i, v): LOG.append((i, v)); return v\n"
            "class cm:\n    def __init__(s, k): s.k = k\n    def __enter__(s): return s.k\n    def __exit__(s, *a): return False\n"
            f"text = {c['text']!r}\n"
            "m = types.ModuleType('case'); m.log, m.cm = log, cm\n"
            "try:\n    exec(compile(hy_compile(hy.read_many(text), m), '<case>', 'exec'), m.__dict__)\n"
            "except Exception as e: print('raised', type(e).__name__, e)\n"
            "print(LOG)\nprint({k: v for k, v in m.__dict__.items() if not k.startswith('__') and k not in ('log', 'cm', 'hy')})\n"
            f"# reference interpreter: {d['detail'][:400]!r}\n")
