"""C07  nonlocal and global reach the binding scoping prescribes.

Space: every linear nesting  module > L1 > ... > Ld  (d = 1..D) of levels from
{function, class, let}; for every pool name an action at every level
(module: not defined / defined before L1 / defined late; inner levels: nothing /
defined (setv, or bound by the let) / (nonlocal v)+assignment /
(global v)+assignment), several names declared at one level sharing one
`(nonlocal a b)` / `(global a b)` form; a logged read of every name at the end
of every level, after the inner level has been defined and run; plus, for
every declaring (level, name), the two declare-after-use variants (a read or
an assignment of the name placed before the declaration).
Oracle: mc/ref/sc_nl.py - static resolution of every declaration and reference
(nearest enclosing let binding / function variable, else module variable;
`global` always the module variable; declarations inside a let belong to the
enclosing Python scope), then a direct execution giving the value every read
must see and the module globals afterwards; declare-after-use must be a syntax
error raised by Hy itself (in function/class scopes), a nonlocal without any
binding a SyntaxError.
"""
import json

import itertools

from mc.util import Acc, time_limit, CaseTimeout
from mc.ref import sc_nl as N

ID = "C07"
ENGINE = "E1-enumerator"
TECHNIQUE = ("bounded exhaustive enumeration of all function/class/let nestings x per-level per-name actions (define / nonlocal / global / nothing) "
             "x declare-after-use variants; compiled by the real compiler and executed; compared with a static scope resolver + executor "
             "(value seen by a read of every name at every level after the calls, module globals, error class and error stage)")
LEVEL_TEXT = ("Every nesting of functions, classes and lets up to the depth bound, with every combination of definitions and nonlocal/global "
              "declarations of the pool names at every level, is compiled with the real Hy compiler and run; the values all names have at "
              "every level after the inner calls, and the module globals, must equal those prescribed by lexical resolution (nearest enclosing "
              "let binding or function variable, else the module variable; global always the module variable); declare-after-use must be "
              "rejected by Hy with a syntax error and a nonlocal without binding must be a SyntaxError. Exhaustive within the bound.")
RULE = ("cases are the integers below family_size(names, depth), decoded digit by digit into level kinds and actions; variants enumerated per "
        "declaring (level, name); non-trivial = at least one nonlocal/global declaration, counted per distinct (nesting, actions); "
        "'unspecified' classes are listed in ASSUMPTIONS (weak oracle: a clean run or a SyntaxError, no internal error)")
ASSUMPTIONS = [
    "linear nestings only (one inner level per level); every function is called exactly once, right after its definition",
    "unspecified: a declaration naming a let binding of the same Python scope (pinned by let.hy as 'elided', not documented)",
    "unspecified: nonlocal whose nearest enclosing definition is a class variable (Python's nonlocal skips class scopes; Hy's docs say 'any enclosing scope')",
    "unspecified: nonlocal whose nearest enclosing scope declares the name global; nonlocal reaching a module variable that only a `global` assignment creates",
    "unspecified: nonlocal at module scope (inside a module-level let)",
    "unspecified: a let in a class body with a function or class nested inside it (the let variable becomes a class attribute, invisible to nested scopes in Python)",
    "declare-after-use at module scope and no-binding errors may be raised by Hy or by Python's compile(); in function and class scopes declare-after-use must be Hy's own error (property statement)",
    "reads the model predicts unbound are written (log i (try v (except [NameError] \"U\"))) so that unbound names are observed instead of ending the run",
]
TIME_CAP = {"quick": 900, "thorough": 5400}

POOLS = {1: ("x",), 2: ("x", "y"), 3: ("x", "y", "z")}
# families: (number of names, depth, with declare-after-use variants)
BOUNDS = {
    "quick": dict(families=[(1, 0, True), (1, 1, True), (1, 2, True), (1, 3, True), (2, 1, True), (2, 2, False)], per_shard=700),
    "thorough": dict(families=[(1, 0, True), (1, 1, True), (1, 2, True), (1, 3, True), (1, 4, True), (2, 1, True), (2, 2, True),
                               (2, 3, False), (3, 1, True), (3, 2, False)], per_shard=6000),
}


def bounds(tier):
    return {"families(names, depth, declare_after_use_variants)": [list(f) for f in BOUNDS[tier]["families"]],
            "level_kinds": list(N.KINDS), "module_actions": list(N.ACTS_M), "level_actions": list(N.ACTS_L),
            "sibling_declarations": "module defs of a,b x f's variables plain/let-bound x f defs of a,b x (nonlocal|global, a|b) for each of two sibling functions: %d programs" % len(sib_space())}


def shards(tier):
    b = BOUNDS[tier]
    out = []
    for fi, (npool, d, var) in enumerate(b["families"]):
        total = N.family_size(npool, d)
        step = b["per_shard"] if not var else max(1, b["per_shard"] // 3)
        for lo in range(0, total, step):
            out.append([fi, lo, min(total, lo + step)])
    n = len(sib_space())
    for lo in range(0, n, 64):
        out.append(["sib", lo, min(n, lo + 64)])
    return out


# ---------------------------------------------------------------- implementation side
def _rep(v):
    if isinstance(v, type):
        return "<class>"
    if callable(v):
        return "<fn>"
    return repr(v) if isinstance(v, int) else str(v)


def run_impl(text):
    from mc import hyside
    from hy.errors import HyLanguageError
    import warnings
    warnings.simplefilter("ignore")
    mod = hyside.fresh_module()
    log = []

    def logf(i, v):
        log.append((i, _rep(v)))
        return v
    mod.log = logf
    base = set(mod.__dict__)
    try:
        with time_limit(20):
            tree = hyside.compile_text(text, mod)
    except CaseTimeout:
        return dict(outcome=("timeout",))
    except BaseException as e:
        return dict(outcome=("error", "SyntaxError" if isinstance(e, SyntaxError) else type(e).__name__,
                             "hy" if isinstance(e, HyLanguageError) else ("hy-plain" if isinstance(e, SyntaxError) else "hy-internal"), str(e)[:160]))
    try:
        code = compile(tree, "<case>", "exec")
    except BaseException as e:
        return dict(outcome=("error", "SyntaxError" if isinstance(e, SyntaxError) else type(e).__name__, "python", str(e)[:160]))
    try:
        with time_limit(20):
            exec(code, mod.__dict__)
        out = ("ok",)
    except CaseTimeout:
        out = ("timeout",)
    except BaseException as e:
        out = ("raised", type(e).__name__, str(e)[:160])
    g = {k: _rep(v) for k, v in mod.__dict__.items()
         if k not in base and not k.startswith("_hy_") and k not in ("hy", "__builtins__")}
    return dict(outcome=out, trace=log, globals=g)


def _column(acts, vi):
    return "/".join(a[vi] for a in acts)


def _tags(kinds, acts):
    """Structural classes for narrow known-finding matchers (joined with '+', '-' if none)."""
    d = len(kinds) - 1
    scope = []
    for i, k in enumerate(kinds):
        scope.append(scope[i - 1] if k == "T" else i)
    tags = set()
    for vi in range(len(acts[0])):
        for t in range(1, d + 1):
            if kinds[t] != "T":
                continue
            a = acts[t][vi]
            if a == "def":
                for c in range(t + 1, d + 1):
                    if kinds[c] == "C" and acts[c][vi] != "none" and any(k != "T" for k in kinds[c + 1:]):
                        tags.add("class-binding-between-let-and-nested-scope")
            if a == "global" and any(acts[n][vi] == "nonlocal" and scope[n] != scope[t] for n in range(t + 1, d + 1)):
                tags.add("nonlocal-below-let-holding-global-declaration")
            if a == "global" and any(acts[n][vi] in ("nonlocal", "global") and scope[n] == scope[t] for n in range(t + 1, d + 1)):
                tags.add("redeclaration-after-global-inside-let")
            if a == "nonlocal" and scope[t] == 0:
                tags.add("nonlocal-at-module-scope")
    return "+".join(sorted(tags)) or "-"


def check_case(acc, npool, kinds, acts, use, sample=False):
    pool = POOLS[npool]
    m = N.run_model(pool, kinds, acts, use)
    if m["error"] and not m["unspecified"]:
        guard = set()                      # never executed
    elif m["unspecified"] or m["trace"] is None:
        guard = set()                      # weak oracle looks at compilation only; a NameError at run time is not judged
    else:
        guard = {site for site, v in m["trace"] if v == N.UNBOUND}
    text = N.render(pool, kinds, acts, use, guard)
    case = {"names": npool, "kinds": kinds, "acts": [list(a) for a in acts], "use": list(use) if use else None, "text": text}
    acc.evaluations += 1
    r = run_impl(text)
    acc.traces += 1
    acc.transitions += len(r.get("trace") or ()) + 1
    if sample:
        acc.sample({"hy": text, "model": {"error": m["error"], "unspecified": m["unspecified"], "trace": m["trace"]}})
    out = r["outcome"]

    def bad(kind, detail, vi=None, **kw):
        col = _column(acts, vi) if vi is not None else "-"
        usek = (use[2] + "@" + kinds[use[0]]) if use else "-"
        tags = _tags(kinds, acts)
        if kind == "internal-error-in-unspecified-program":
            sig = f"{kind}:{kw['exc']}"
        elif tags != "-":
            sig = f"{kind}:{tags}:{kinds[:3]}"
        else:
            sig = f"{kind}:{kinds}:{col}:{usek}"
        acc.disagree(kind, case, detail, sig=sig, kinds=kinds, column=col, use=usek, tags=tags, **kw)

    def errname():
        if m["error"]:
            w = m["error"][0]
            for vi, v in enumerate(pool):
                if w.startswith(v + " ") or w.endswith(" " + v):
                    return vi
        return None

    if m["unspecified"]:
        acc.unspecified += 1
        acc.outcome("unspecified")
        acc.count("unspecified: " + m["unspecified"])
        if out[0] == "timeout" or (out[0] == "error" and (out[1] != "SyntaxError" or out[2] == "hy-internal")):
            bad("internal-error-in-unspecified-program", str(out), exc=str(out[1:3]))
        return
    if m["error"]:
        why, hy_stage = m["error"]
        acc.outcome("syntax-error:" + ("hy" if hy_stage else "any-stage"))
        if out[0] != "error":
            bad("accepted-invalid-declaration", f"model: SyntaxError ({why}); implementation {out[:2]} trace {r.get('trace')}", errname())
        elif out[1] != "SyntaxError" or out[2] == "hy-internal":
            bad("wrong-error-class", f"model: SyntaxError ({why}); implementation {out}", errname(), exc=str(out[1]))
        elif hy_stage and not out[2].startswith("hy"):
            bad("declare-after-use-not-a-hy-error", f"model: Hy syntax error ({why}); implementation let Python's compile() raise: {out[3]}", errname())
        return
    acc.outcome("ok")
    if out[0] != "ok":
        bad("wrong-outcome", f"model: runs, trace {m['trace']}; implementation {out}", None,
            exc=str(out[1]), stage=str(out[2]) if out[0] == "error" else "run")
        return
    if r["trace"] != m["trace"]:
        k = 0
        while k < len(m["trace"]) and k < len(r["trace"]) and m["trace"][k] == r["trace"][k]:
            k += 1
        site = m["trace"][k][0] if k < len(m["trace"]) else r["trace"][k][0]
        vi = site % 10
        bad("wrong-binding-reached", f"read of {pool[vi]} at level {site // 10}: model {m['trace'][k:k+1]} implementation {r['trace'][k:k+1]}; "
            f"model trace {m['trace']} implementation trace {r['trace']}", vi)
        return
    if r["globals"] != m["globals"]:
        bad("wrong-module-globals", f"model {m['globals']} implementation {r['globals']}", None)


# ---------------------------------------------------------------- sibling declarations
# Two SIBLING functions g, h inside one function f, each declaring one of the names a, b nonlocal/global and assigning it
# (several separate declarations resolved through the same enclosing scope), f's own variables plain or let-bound.
SIB_DECL = [(d, n) for d in ("nonlocal", "global") for n in (0, 1)]


def sib_space():
    out = []
    for macts in itertools.product(("none", "def"), repeat=2):
        for fkind in ("F", "T"):
            for facts in itertools.product(("none", "def"), repeat=2):
                for g in SIB_DECL:
                    for h in SIB_DECL:
                        out.append((macts, fkind, facts, g, h))
    return out


def sib_render(p):
    macts, fkind, facts, g, h = p
    names = ("a", "b")

    def rd(site, v):
        return f'(log {site} (try {v} (except [NameError] "U")))'
    top = "".join(f"(setv {names[i]} {100 + i}) " for i in (0, 1) if macts[i] == "def")
    inner = (f"(defn g [] ({g[0]} {names[g[1]]}) (setv {names[g[1]]} 120) None) "
             f"(defn h [] ({h[0]} {names[h[1]]}) (setv {names[h[1]]} 130) None) (g) (h) {rd(10, 'a')} {rd(11, 'b')}")
    if fkind == "F":
        body = "".join(f"(setv {names[i]} {110 + i}) " for i in (0, 1) if facts[i] == "def") + inner
    else:
        binds = " ".join(f"{names[i]} {110 + i}" for i in (0, 1) if facts[i] == "def")
        body = f"(let [{binds}] {inner})"
    return f"{top}(defn f [] {body} None) (f) {rd(0, 'a')} {rd(1, 'b')}"


def sib_model(p):
    """-> dict(error=why|None, trace, globals)"""
    macts, fkind, facts, g, h = p
    M = {i: 100 + i for i in (0, 1) if macts[i] == "def"}
    F = {i: 110 + i for i in (0, 1) if facts[i] == "def"}
    targets = []
    for decl, n in (g, h):
        if decl == "global":
            targets.append(("M", n))
        elif n in F:
            targets.append(("F", n))          # the enclosing function's variable / its let binding
        elif n in M:
            targets.append(("M", n))          # api.rst: a global statement for names originally defined in the global scope
        else:
            return dict(error=f"no binding for nonlocal {'ab'[n]}", trace=None, globals=None)
    for (where, n), val in zip(targets, (120, 130)):
        (M if where == "M" else F)[n] = val
    trace = []
    for n in (0, 1):
        trace.append((10 + n, _rep(F[n] if n in F else M.get(n, "U"))))
    for n in (0, 1):
        trace.append((n, _rep(M.get(n, "U"))))
    glob = {"ab"[n]: _rep(v) for n, v in M.items()}
    glob["f"] = "<fn>"
    return dict(error=None, trace=trace, globals=glob)


def check_sib(acc, p, sample=False):
    text = sib_render(p)
    m = sib_model(p)
    case = {"sib": [list(x) if isinstance(x, tuple) else x for x in p], "text": text}
    acc.evaluations += 1
    r = run_impl(text)
    acc.traces += 1
    acc.transitions += len(r.get("trace") or ()) + 1
    out = r["outcome"]
    if sample:
        acc.sample({"hy": text, "model": m})
    shape = f"{p[1]}:{p[3][0]}/{p[4][0]}:{'same' if p[3][1] == p[4][1] else 'different'}-name"

    def bad(kind, detail, **kw):
        acc.disagree(kind, case, detail, sig=f"sib:{kind}:{shape}", kinds="sib", column="-", use="-", tags="sibling-declarations", **kw)
    if m["error"]:
        acc.outcome("sib:syntax-error:any-stage")
        if out[0] != "error":
            bad("accepted-invalid-declaration", f"model: SyntaxError ({m['error']}); implementation {out[:2]} trace {r.get('trace')}")
        elif out[1] != "SyntaxError" or out[2] == "hy-internal":
            bad("wrong-error-class", f"model: SyntaxError ({m['error']}); implementation {out}", exc=str(out[1]))
        return
    acc.outcome("sib:ok")
    if out[0] != "ok":
        bad("wrong-outcome", f"model: runs, trace {m['trace']}; implementation {out}", exc=str(out[1]), stage=str(out[2]) if out[0] == "error" else "run")
    elif r["trace"] != m["trace"]:
        bad("wrong-binding-reached", f"model trace {m['trace']} implementation trace {r['trace']}")
    elif r["globals"] != m["globals"]:
        bad("wrong-module-globals", f"model {m['globals']} implementation {r['globals']}")


def run_shard(shard, tier):
    acc = Acc()
    if shard[0] == "sib":
        space = sib_space()
        for idx in range(shard[1], shard[2]):
            acc.states += 1
            acc.nontrivial += 1
            acc.count("sibling-declaration programs")
            check_sib(acc, space[idx], sample=(idx % 97 == 5))
        return acc.result()
    fi, lo, hi = shard
    npool, d, var = BOUNDS[tier]["families"][fi]
    for idx in range(lo, hi):
        kinds, acts = N.decode(idx, npool, d)
        acc.states += 1
        decl = any(a in ("nonlocal", "global") for lv in acts[1:] for a in lv)
        if decl:
            acc.nontrivial += 1
        acc.count("nesting:" + kinds)
        for use in (N.variants(kinds, acts) if var else (None,)):
            if use:
                acc.count("declare-after-use variants")
            check_case(acc, npool, kinds, acts, use, sample=(idx % 1789 == 777 and use is None))
    return acc.result()


def recheck(case, tier):
    acc = Acc()
    if "sib" in case:
        p = case["sib"]
        check_sib(acc, (tuple(p[0]), p[1], tuple(p[2]), tuple(p[3]), tuple(p[4])))
        return acc.disagreements
    check_case(acc, case["names"], case["kinds"], tuple(tuple(a) for a in case["acts"]),
               tuple(case["use"]) if case.get("use") else None)
    return acc.disagreements


def snippet(d):
    c = d["case"]
    return ("import hy, types\nfrom hy.compiler import hy_compile\nLOG = []\n"
            "def log(i, v): LOG.append((i, v)); return v\n"
            f"text = {c['text']!r}\n"
            "m = types.ModuleType('case'); m.log = log\n"
            "try:\n    tree = hy_compile(hy.read_many(text), m)\n    code = compile(tree, '<case>', 'exec')\n    exec(code, m.__dict__)\n"
            "except Exception as e: print('raised', type(e).__mro__[0].__name__, e)\n"
            "print(LOG)\nprint({k: v for k, v in m.__dict__.items() if not k.startswith('__') and k not in ('log', 'hy')})\n"
            f"# reference: {d['detail'][:400]!r}\n")
