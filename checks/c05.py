"""C05  fn/defn bind arguments exactly like the equivalent Python def.

Space
  bind:   every legal lambda list with at most p parameters (positional-only
          / ordinary / keyword-only, each with or without default, #* args,
          bare *, #** kw)  x  {defn, fn}  x  every call of at most a argument
          items over {positional value, :name value for every parameter name
          and one unknown name, #* [v v], #** {"name" v}}, keyword items
          mingled anywhere.  Each definition and each call form is compiled
          once by the real compiler; every definition meets every call.
  wide:   (thorough) lambda lists up to 6 parameters x a per-arity family of
          calls (all-positional with under/over-supply, positional/keyword
          splits in both orders, ** splits, * unpackings).
  illegal: every token sequence one edit (delete / insert / swap adjacent /
          duplicate a name) away from a legal lambda list.
  body:   every body of at most n forms over {expression, setv, return,
          "string", #[[string]], b"bytes", yield, (do)} for defn / fn / :async.
Oracle: CPython executing the same abstract signature rendered as `def`, the
same call rendered in Python order (keyword items moved back, docs/syntax.rst),
the same body rendered with an explicit `return` of the last form (none for
async generators) and a docstring exactly when the first of >= 2 forms is a
string literal.  Compared: the dict of bound parameter values (with the types
of the collectors) or the exception type; the multiset of default-value
evaluations at definition time, none at call time; legality (Hy must reject
with a syntax error exactly the lambda lists for which Python's def is a
SyntaxError); return value, yielded values, effect order, __doc__.
"""
import itertools

from mc.util import Acc
from mc.ref import cd_sig as S

ID = "C05"
TECHNIQUE = ("bounded exhaustive enumeration of lambda-list shapes x call shapes (each compiled once by the real compiler, every definition run against "
             "every call), of all single-edit neighbours of legal lambda lists, and of small function bodies; differential against CPython's own def/call/return")
LEVEL_TEXT = ("Every legal parameter-list shape up to the bound, as defn and as fn, is called with every call shape up to the bound; the bound-parameter "
              "dictionary or TypeError is compared with CPython executing the equivalent def and call. Every one-edit neighbour of a legal lambda "
              "list is compiled by Hy and by CPython and must be rejected by both or by neither. Every small body is compared with its Python rendering "
              "for return value, yields, effects and __doc__. Exhaustive within the bounds.")
RULE = ("signatures enumerated by parameter count then kind counts then default patterns; calls by length then lexicographically over the item alphabet; "
        "a case = (signature, defn|fn, call); all distinct; non-trivial = the signature has a marker, default or collector AND the call has a keyword or unpacking item, "
        "or the case is an illegal-neighbour or body case; counted per case")
ASSUMPTIONS = [
    "parameter kinds, call items and body forms as listed; argument values are distinct integer constants, defaults are logged constants",
    "calls that repeat a literal keyword (f :a 1 :a 2) are a SyntaxError in Python; Hy's documentation is silent: counted unspecified (Hy must not fail with an internal error)",
    "the relative order in which default values are evaluated is not compared (docs silent); how often and when (definition time) is",
    "async-generator bodies containing (return v) are a Python SyntaxError: counted unspecified",
    "annotations, type parameters and decorators are outside the space",
]
ENGINE = "E1-enumerator"
TIME_CAP = {"quick": 600, "thorough": 3600}

BOUNDS = {
    "quick": dict(p=3, a=3, sig_chunks=16, call_chunks=1, wide_p=0, body_len=3, body_chunks=16, illegal_chunks=8),
    "thorough": dict(p=4, a=4, sig_chunks=4, call_chunks=64, wide_p=6, body_len=4, body_chunks=64, illegal_chunks=32),
}
FN_KINDS = ["defn", "fn"]
BODY_FORMS = ["E", "S", "R", "Str", "BStr", "Byt", "Y", "YL", "Do"]     # YL: a yield inside a let
BODY_KINDS = ["defn", "fn", "defn-async", "fn-async"]


def bounds(tier):
    b = BOUNDS[tier]
    return {"max_parameters": b["p"], "max_call_items": b["a"], "parameter_kinds": ["posonly", "posonly=default", "ordinary", "ordinary=default", "#* args", "bare *", "kwonly", "kwonly=default", "#** kw"],
            "call_items": ["positional", ":name v (each parameter name, one unknown)", "#* [v v]", "#** {name v} (each name, one unknown)"],
            "definers": FN_KINDS, "wide_max_parameters": b["wide_p"], "illegal": "all single-token edits of every legal lambda list with <= max_parameters",
            "body_forms": BODY_FORMS, "max_body_forms": b["body_len"], "body_definers": BODY_KINDS}


def _chunks(n, k):
    k = max(1, min(k, n))
    step = -(-n // k)
    return [[lo, min(n, lo + step)] for lo in range(0, n, step)]


def _all_calls(tier):
    b = BOUNDS[tier]
    return [c for c in S.calls(b["p"], b["a"])]


def _illegal_space(tier):
    seen = set()
    out = []
    for sig in S.signatures(BOUNDS[tier]["p"]):
        for nb in S.neighbours(S.tokens(sig)):
            if nb not in seen:
                seen.add(nb)
                out.append(nb)
    return out


def _bodies(tier):
    out = []
    for k in range(BOUNDS[tier]["body_len"] + 1):
        out.extend(itertools.product(BODY_FORMS, repeat=k))
    return out


def shards(tier):
    b = BOUNDS[tier]
    out = []
    nsig = len(S.signatures(b["p"]))
    ncall = len(_all_calls(tier))
    for slo, shi in _chunks(nsig, b["sig_chunks"]):
        for clo, chi in _chunks(ncall, b["call_chunks"]):
            out.append(["bind", slo, shi, clo, chi])
    if b["wide_p"]:
        nw = len(S.signatures(b["wide_p"])) - nsig
        for lo, hi in _chunks(nw, 48):
            out.append(["wide", nsig + lo, nsig + hi, 0, 0])
    for lo, hi in _chunks(len(_illegal_space(tier)), b["illegal_chunks"]):
        out.append(["illegal", lo, hi, 0, 0])
    for lo, hi in _chunks(len(_bodies(tier)), b["body_chunks"]):
        out.append(["body", lo, hi, 0, 0])
    return out


# ---------------------------------------------------------------- compiling both sides

def _exec_hy(text, events):
    from mc import hyside
    mod = hyside.fresh_module()

    def log(i, v):
        events.append(i)
        return v
    mod.log = log
    tree = hyside.compile_text(text, mod)
    exec(compile(tree, "<c05>", "exec"), mod.__dict__)
    return mod


def _exec_py(text, events):
    def log(i, v):
        events.append(i)
        return v
    g = {"log": log}
    exec(compile(text, "<c05-py>", "exec"), g)
    return g


def compile_calls_hy(calls):
    """-> list of callables g(f) (or an exception instance), compiling in batches."""
    out = [None] * len(calls)

    def do(idx):
        text = "(setv calls [" + "\n".join(f"(fn [f] {S.hy_call(calls[i])})" for i in idx) + "])"
        mod = _exec_hy(text, [])
        for i, g in zip(idx, mod.calls):
            out[i] = g
    B = 100
    plain = [i for i in range(len(calls)) if not S.has_repeated_literal_keyword(calls[i])]
    for i in range(len(calls)):
        if S.has_repeated_literal_keyword(calls[i]):
            try:
                do([i])
            except Exception as e:
                out[i] = e
    for lo in range(0, len(plain), B):
        idx = plain[lo:lo + B]
        try:
            do(idx)
        except Exception:
            for i in idx:
                try:
                    do([i])
                except Exception as e:
                    out[i] = e
    return out


def compile_calls_py(calls):
    out = [None] * len(calls)
    for i, c in enumerate(calls):
        try:
            out[i] = eval("lambda f: " + S.py_call(c))
        except SyntaxError as e:
            out[i] = e
    return out


def observe_call(g, f):
    try:
        r = g(f)
    except Exception as e:
        return "exc " + type(e).__name__
    if not isinstance(r, dict):
        return "ok non-dict " + repr(r)
    parts = []
    for k, v in r.items():
        if k == "kw" and isinstance(v, dict):
            parts.append(f"{k}=dict" + repr(sorted(v.items())))
        else:
            parts.append(f"{k}={type(v).__name__}:{v!r}")
    return "ok " + " ".join(parts)


def sig_shape(sig):
    pos, ord_, star, kwo, kw = sig
    f = lambda ds: "".join("d" if d else "n" for d in ds)
    return f"pos={f(pos)};ord={f(ord_)};star={star};kwo={f(kwo)};kw={'y' if kw else 'n'}"


def _sig_nontrivial(sig):
    pos, ord_, star, kwo, kw = sig
    return bool(pos or star or kw or any(ord_) or kwo)


def _call_nontrivial(call):
    return any(it[0] != "P" for it in call)


class Definer:
    """one signature compiled as def (CPython) and as defn / fn (Hy)."""

    def __init__(self, acc, sig, case0):
        self.ok = False
        self.sig = sig
        toks = S.tokens(sig)
        self.toks = toks
        self.py_text = S.py_def(toks)
        self.py_events = []
        self.py_f = _exec_py(self.py_text, self.py_events)["f"]
        self.py_def_events = sorted(self.py_events)
        self.hy = {}
        for kind in FN_KINDS:
            text = S.hy_def(toks, kind)
            ev = []
            acc.evaluations += 1
            try:
                f = _exec_hy(text, ev).f
            except Exception as e:
                acc.outcome("compile-error")
                acc.disagree("compile-failed", dict(case0, fn=kind, call=None), f"{text}: {type(e).__name__}: {e}",
                             sig=f"compile:{kind}:{type(e).__name__}", exc=type(e).__name__, shape=sig_shape(sig), fn=kind)
                continue
            if sorted(ev) != self.py_def_events:
                acc.disagree("default-evaluation-at-definition-differs", dict(case0, fn=kind, call=None),
                             f"{text}: defining evaluated default sites {sorted(ev)}; Python `{self.py_text.splitlines()[0]}` evaluates {self.py_def_events}",
                             sig=f"defaults-at-def:{kind}", shape=sig_shape(sig), fn=kind)
            self.hy[kind] = (f, ev, text)


def _bind_case(acc, d, kind, call, g_hy, g_py, case0):
    sig = d.sig
    f, ev, text = d.hy[kind]
    case = dict(case0, fn=kind, call=[list(it) for it in call])
    acc.states += 1
    acc.transitions += 1
    if _sig_nontrivial(sig) and _call_nontrivial(call):
        acc.nontrivial += 1
    if S.has_repeated_literal_keyword(call):
        # Python: SyntaxError (keyword argument repeated); Hy docs silent
        acc.unspecified += 1
        from mc import hyside
        if isinstance(g_hy, Exception):
            acc.outcome("repeated-keyword:hy-rejects")
            if not hyside.is_user_error(g_hy):
                acc.disagree("internal-error", case, f"{S.hy_call(call)}: {type(g_hy).__name__}: {g_hy}",
                             sig="internal:" + type(g_hy).__name__, exc=type(g_hy).__name__)
        else:
            acc.outcome("repeated-keyword:hy-accepts")
        return
    if isinstance(g_hy, Exception):
        acc.outcome("compile-error")
        acc.disagree("compile-failed", case, f"call form {S.hy_call(call)}: {type(g_hy).__name__}: {g_hy}",
                     sig=f"compile-call:{type(g_hy).__name__}", exc=type(g_hy).__name__, fn=kind, shape=sig_shape(sig))
        return
    n_ev = len(ev)
    n_pev = len(d.py_events)
    want = observe_call(g_py, d.py_f)
    got = observe_call(g_hy, f)
    acc.traces += 1
    acc.evaluations += 1
    acc.outcome(f"{kind}:{'bound' if want.startswith('ok') else want[4:]}")
    if got != want:
        mingled = "yes" if S.call_is_mingled(call) else "no"
        acc.disagree("binding-differs", case,
                     f"{text} ; {S.hy_call(call)} gives {got}; Python `{d.py_text.splitlines()[0]}` ; {S.py_call(call)} gives {want}",
                     sig=f"bind:{kind}:{want.split(' ')[0]}:{got.split(' ')[0]}:{sig[2]}:{mingled}",
                     fn=kind, shape=sig_shape(sig), expected=want[:2] if want.startswith("ok") else want[4:],
                     got=got[:2] if got.startswith("ok") else got[4:], mingled=mingled)
    elif len(ev) != n_ev and len(d.py_events) == n_pev:
        acc.disagree("default-evaluated-at-call", case, f"{text} ; {S.hy_call(call)} evaluated default sites {ev[n_ev:]} during the call",
                     sig=f"defaults-at-call:{kind}", fn=kind, shape=sig_shape(sig))


def _run_bind(acc, tier, slo, shi, clo, chi, only=None):
    b = BOUNDS[tier]
    sigs = S.signatures(max(b["p"], b["wide_p"]) if only else b["p"])
    if only is not None:
        calls = [tuple(tuple(it) for it in only["call"])]
        sig_ids = [only["sig_index"]]
        kinds = [only["fn"]]
    else:
        calls = _all_calls(tier)[clo:chi]
        sig_ids = range(slo, shi)
        kinds = FN_KINDS
    g_hy = compile_calls_hy(calls)
    g_py = compile_calls_py(calls)
    acc.evaluations += len(calls)
    acc.transitions += len(calls)
    needs = [S.call_needs(c) for c in calls]
    for si in sig_ids:
        sig = sigs[si]
        case0 = {"mode": "bind", "sig_index": si, "sig": sig_shape(sig)}
        d = Definer(acc, sig, case0)
        nn = len(S.names(sig))
        for kind in kinds:
            if kind not in d.hy:
                continue
            for ci, call in enumerate(calls):
                if needs[ci] > nn and only is None:
                    continue        # enumerated with the larger name universe only
                _bind_case(acc, d, kind, call, g_hy[ci], g_py[ci], case0)
        if si % 37 == 0:
            acc.sample({"hy": d.hy.get("defn", (0, 0, None))[2], "python": d.py_text.splitlines()[0], "calls": len(calls)})


def wide_calls(k):
    """a per-arity family of calls for signatures with k named parameters"""
    nm = list(S.LETTERS[:k])
    out = []
    P = ("P",)
    for m in range(k + 2):
        out.append((P,) * m)
    for j in range(k + 1):
        out.append((P,) * j + tuple(("K", n) for n in nm[j:]))
        out.append(tuple(("K", n) for n in reversed(nm[j:])) + (P,) * j)
        out.append((P,) * j + tuple(("D", n) for n in nm[j:]))
        out.append(tuple(("D", n) for n in nm[j:]) + (P,) * j)
    for m in range(k // 2 + 2):
        out.append((("S",),) * m + tuple(("K", n) for n in nm[2 * m:]))
        out.append(tuple(("K", n) for n in nm[2 * m:]) + (("S",),) * m)
    out.append(tuple(("K", n) for n in nm) + (("K", S.UNKNOWN),))
    out.append((("D", S.UNKNOWN),) + (P,) * k)
    seen = set()
    res = []
    for c in out:
        if c not in seen:
            seen.add(c)
            res.append(c)
    return res


def _run_wide(acc, tier, lo, hi):
    b = BOUNDS[tier]
    sigs = S.signatures(b["wide_p"])
    compiled = {}
    for si in range(lo, hi):
        sig = sigs[si]
        k = len(S.names(sig))
        if k not in compiled:
            calls = wide_calls(k)
            compiled[k] = (calls, compile_calls_hy(calls), compile_calls_py(calls))
            acc.evaluations += len(calls)
        calls, g_hy, g_py = compiled[k]
        case0 = {"mode": "bind", "sig_index": si, "sig": sig_shape(sig)}
        d = Definer(acc, sig, case0)
        for kind in FN_KINDS:
            if kind in d.hy:
                for ci, call in enumerate(calls):
                    _bind_case(acc, d, kind, call, g_hy[ci], g_py[ci], case0)


# ---------------------------------------------------------------- illegal neighbours

def _illegal_case(acc, toks):
    from mc import hyside
    toks = tuple(tuple(t) for t in toks)
    case = {"mode": "illegal", "tokens": [list(t) for t in toks]}
    hy_text = f"(defn f {S.hy_lambda_list(toks, logged=False)} 1)"
    py_text = f"def f({S.py_param_list(toks, logged=False)}): return 1\n"
    acc.states += 1
    acc.transitions += 1
    acc.nontrivial += 1
    acc.traces += 1
    acc.evaluations += 1
    try:
        compile(py_text, "<c05-py>", "exec")
        py = "accepts"
    except SyntaxError as e:
        py = "SyntaxError"
    try:
        compile(hyside.compile_text(hy_text, hyside.fresh_module()), "<c05>", "exec")
        hy, info = "accepts", ""
    except Exception as e:
        hy = "syntax-error" if isinstance(e, SyntaxError) else ("user-error" if hyside.is_user_error(e) else "other-error")
        info = f"{type(e).__name__}: {str(e)[:100]}"
    acc.outcome(f"illegal:python={py}:hy={hy}")
    if (py == "accepts") != (hy == "accepts") or hy in ("other-error", "user-error"):
        kind = "lambda-list-legality-differs" if (py == "accepts") != (hy == "accepts") else "lambda-list-rejected-with-non-syntax-error"
        acc.disagree(kind, case, f"{hy_text}: Hy {hy} {info}; Python `{py_text.strip()}`: {py}",
                     sig=f"{kind}:{py}:{hy}:{info.split(':')[0]}", python=py, hy=hy, exc=info.split(":")[0])


# ---------------------------------------------------------------- bodies

def body_hy(body, kind):
    forms = []
    for i, b in enumerate(body):
        v = i + 1
        forms.append({"E": f"(log {i} {v})", "S": f"(setv t (log {i} {v}))", "R": f"(return (log {i} {v}))",
                      "Str": '"doc"', "BStr": "#[[doc]]", "Byt": 'b"doc"', "Y": f"(yield (log {i} {v}))", "YL": f"(let [z{i} (log {i} {v})] (yield z{i}))", "Do": "(do)"}[b])
    a = ":async " if kind.endswith("async") else ""
    if kind.startswith("defn"):
        return f"(defn {a}f [] {' '.join(forms)})"
    return f"(setv f (fn {a}[] {' '.join(forms)}))"


def body_py(body, kind):
    is_async = kind.endswith("async")
    asyncgen = is_async and ("Y" in body or "YL" in body)
    lines = []
    for i, b in enumerate(body):
        v = i + 1
        last = i == len(body) - 1 and not asyncgen
        expr = {"E": f"log({i}, {v})", "S": None, "R": None, "Str": '"doc"', "BStr": '"doc"', "Byt": 'b"doc"', "Y": f"(yield log({i}, {v}))", "YL": f"(yield log({i}, {v}))", "Do": "None"}[b]
        if b == "S":
            lines.append(f"t = log({i}, {v})")
            if last:
                lines.append("return None")
        elif b == "R":
            lines.append(f"return log({i}, {v})")
        elif last:
            lines.append(f"return {expr}")
        else:
            lines.append(expr)
    if not lines:
        lines = ["return None"]
    return ("async " if is_async else "") + "def f():\n" + "".join("    " + ln + "\n" for ln in lines)


def drive(f, events):
    """call f and run the result to completion -> printable observation"""
    import inspect
    del events[:]
    ys = []
    try:
        r = f()
        if inspect.isasyncgen(r):
            while True:
                try:
                    r.__anext__().send(None)
                except StopIteration as e:
                    ys.append(e.value)
                except StopAsyncIteration:
                    r = "<asyncgen end>"
                    break
        elif inspect.iscoroutine(r):
            try:
                r.send(None)
                r = "<coroutine suspended>"
            except StopIteration as e:
                r = ("coroutine", e.value)
        elif inspect.isgenerator(r):
            while True:
                try:
                    ys.append(next(r))
                except StopIteration as e:
                    r = ("generator", e.value)
                    break
        out = f"returns {r!r}"
    except Exception as e:
        out = "exc " + type(e).__name__
    return f"{out}; yields {ys!r}; effects {list(events)!r}; __doc__ {f.__doc__!r}"


def _body_case(acc, body, kind):
    from mc import hyside
    body = tuple(body)
    case = {"mode": "body", "body": list(body), "fn": kind}
    hy_text, py_text = body_hy(body, kind), body_py(body, kind)
    acc.states += 1
    acc.transitions += 1
    acc.nontrivial += 1
    acc.evaluations += 1
    pev, hev = [], []
    try:
        pf = _exec_py(py_text, pev)["f"]
    except SyntaxError:
        acc.unspecified += 1          # 'return' with value in async generator
        acc.outcome("body:python-syntax-error")
        try:
            _exec_hy(hy_text, hev)
        except Exception as e:
            if not hyside.is_user_error(e):
                acc.disagree("internal-error", case, f"{hy_text}: {type(e).__name__}: {e}", sig="internal:" + type(e).__name__, exc=type(e).__name__)
        return
    want = drive(pf, pev)
    acc.traces += 1
    try:
        hf = _exec_hy(hy_text, hev).f
    except Exception as e:
        acc.outcome("compile-error")
        acc.disagree("compile-failed", case, f"{hy_text}: {type(e).__name__}: {e}", sig=f"compile-body:{kind}:{type(e).__name__}", exc=type(e).__name__, fn=kind)
        return
    got = drive(hf, hev)
    acc.outcome("body:" + want.split(";")[0].split("(")[0].strip()[:24] + (":doc" if "__doc__ 'doc'" in want else ""))
    if got != want:
        wparts, gparts = want.split("; "), got.split("; ")
        what = [w.split(" ")[0] for w, g in zip(wparts, gparts) if w != g]
        kind_d = "docstring-differs" if what == ["__doc__"] else "implicit-return-differs"
        acc.disagree(kind_d, case, f"{hy_text}: {got}   Python `{py_text!r}`: {want}",
                     sig=f"{kind_d}:{','.join(what)}", fn=kind, differs=",".join(what), body=",".join(body))


def run_shard(shard, tier):
    acc = Acc()
    mode, lo, hi, clo, chi = shard
    if mode == "bind":
        _run_bind(acc, tier, lo, hi, clo, chi)
    elif mode == "wide":
        _run_wide(acc, tier, lo, hi)
    elif mode == "illegal":
        sp = _illegal_space(tier)
        for i in range(lo, hi):
            _illegal_case(acc, sp[i])
            if i % 997 == 0:
                acc.sample({"lambda list": S.hy_lambda_list(sp[i], logged=False)})
    else:
        bodies = _bodies(tier)
        for i in range(lo, hi):
            for kind in BODY_KINDS:
                _body_case(acc, bodies[i], kind)
            if i % 97 == 0:
                acc.sample({"body": body_hy(bodies[i], "defn")})
    return acc.result()


def recheck(case, tier):
    acc = Acc()
    if case["mode"] == "bind":
        if case.get("call") is None:
            sigs = S.signatures(max(BOUNDS[tier]["p"], BOUNDS[tier]["wide_p"]))
            Definer(acc, sigs[case["sig_index"]], {"mode": "bind", "sig_index": case["sig_index"], "sig": case["sig"]})
        else:
            _run_bind(acc, tier, 0, 0, 0, 0, only=case)
    elif case["mode"] == "illegal":
        _illegal_case(acc, case["tokens"])
    else:
        _body_case(acc, case["body"], case["fn"])
    return acc.disagreements


def snippet(d):
    c = d["case"]
    if c["mode"] == "bind" and c.get("call") is not None:
        sig = S.signatures(6)[c["sig_index"]]
        toks = S.tokens(sig)
        call = tuple(tuple(it) for it in c["call"])
        return ("import hy\ndef log(i, v): return v\n"
                f"hy.eval(hy.read_many({S.hy_def(toks, c['fn'])!r}), globals())\nhy_f = f\n{S.py_def(toks)}\n"
                "def show(t):\n    try: print(t())\n    except Exception as e: print(type(e).__name__, e)\n"
                f"show(lambda: hy.eval(hy.read({S.hy_call(call, 'hy_f')!r}), globals()))\nshow(lambda: {S.py_call(call)})\n")
    if c["mode"] == "body":
        return ("import hy, inspect\ndef log(i, v): print('effect', i); return v\n"
                f"hy.eval(hy.read_many({body_hy(tuple(c['body']), c['fn'])!r}), globals())\nhy_f = f\nexec({body_py(tuple(c['body']), c['fn'])!r})\n"
                "print('Hy __doc__:', hy_f.__doc__, '| Python __doc__:', f.__doc__)\n"
                "# drive both (call / send(None) / next) and compare return value, yields and effects\n")
    if c["mode"] == "illegal":
        toks = tuple(tuple(t) for t in c["tokens"])
        return ("import hy\n"
                f"try:\n    hy.eval(hy.read_many({'(defn f ' + S.hy_lambda_list(toks, logged=False) + ' 1)'!r}), {{}}); print('Hy accepts')\n"
                "except Exception as e: print('Hy:', type(e).__name__, e)\n"
                f"try:\n    compile({'def f(' + S.py_param_list(toks, logged=False) + '): return 1'!r}, 'x', 'exec'); print('Python accepts')\n"
                "except SyntaxError as e: print('Python: SyntaxError', e)\n")
    return f"import hy\n# {d['detail']}\n"
