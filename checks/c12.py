"""C12  Compiler-introduced names are reserved and never clobber user names.

Space: (a) the whole C01 program space (every term of language L up to the
size bound and every context x filler composition, under the four wrappers);
(b) every ordered pair (outer construct, inner construct) from a list of
compiler paths that introduce names (quote, quasiquote, f-strings, local and
module macros, require, import, defclass, decorators, match, comprehension
forms with statements, with, try, chained comparisons, cut, annotations, let,
nested functions, async forms ...), the inner construct placed in the outer
one's expression slot.
Oracle, static (every program): every identifier that the compiled AST binds
or references as a variable / function / class / parameter / handler /
capture / global / nonlocal / import alias, and every attribute it stores or
deletes, is the mangling of a symbol that occurs in the program, or `hy`, or
starts with `_hy_`; attribute loads must be program names, `_hy_`-prefixed, or
rooted at the implicit `hy` module.  Oracle, dynamic (programs of (a) whose
compilation introduced at least two temporaries): the C01 oracle — user
variables keep the values the reference interpreter predicts, i.e. no two live
temporaries were merged and no temporary clobbered a user variable.
"""
import ast
import itertools
import json

from mc.util import Acc
from mc.ref import lang
from checks import c01

ID = "C12"
ENGINE = "E1-enumerator"
TECHNIQUE = "bounded exhaustive enumeration of programs (C01 term space + all construct pairs); static inspection of every identifier in the AST from the real compiler, plus the C01 reference-interpreter oracle on programs with >=2 compiler temporaries"
LEVEL_TEXT = ("Every program of the C01 space and every ordered pair of name-introducing constructs is compiled with the real compiler; "
              "all identifiers of the resulting AST are checked against the reservation rule, and programs with two or more temporaries are "
              "executed and compared with the reference interpreter so that a merged or clobbering temporary shows as a wrong value. Exhaustive within the bounds.")
RULE = ("C01's enumeration, plus construct pairs in list order; a case = one compiled program; non-trivial = the compiled AST contains at least one "
        "compiler-introduced identifier (starts with _hy_), counted per distinct program; outcome classes = number of distinct temporaries (0,1,2,3+) x family")
ASSUMPTIONS = [
    "program names are the manglings of the symbols (and dotted-symbol parts, keyword-argument names, attribute names) that occur in the source models",
    "`hy` (the implicit import) and attribute loads rooted at it are allowed, as documented in semantics.rst",
    "the dynamic part inherits C01's assumptions (argument-group order unspecified, etc.)",
]
TIME_CAP = {"quick": 900, "thorough": 5400}

BOUNDS = {
    "quick": dict(n=4, ctx=[[1, 2]], sib_levels=["lite", "lite"], shards=96),
    "thorough": c01.BOUNDS["thorough"],
}

# ---------------------------------------------------------------- construct pairs (family b)
# {} marks the expression slot
OUTER = [
    "(setv v {})", "(setx v {})", "[{} 1]", "(f {} 2)", "(+ 1 {})", "(if {} 1 2)", "(if 1 {} 2)", "(and 1 {})", "(or {} 1)",
    "(when 1 {})", "(cond 0 1 True {})", "(do {} 3)", "(let [a {}] a)", "(let [a 1] {})", "(fn [] {})", "(defn g [] {})",
    "(defn g [a [b {}]] a)", "(defclass K [] (setv q {}))", "(defclass K [{}])", "(with [w (cmx)] {})", "(with [(cmx)] {})", "(try {} (except [e E1] e))",
    "(try 1 (except [e E1] {}))", "(try 1 (finally {}))", "(while {} (break))", "(while False {})", "(for [i {}] i)", "(for [i [1]] {})",
    "(lfor i [1] {})", "(lfor i {} i)", "(lfor i [1] :if {} i)", "(lfor i [1] :setv j {} j)", "(dfor i [1] i {})", "(gfor i [1] {})", "(sfor i [1] {})",
    "(match {} 1 2)", "(match 1 k {})", "(match 1 k :if {} 3)", "(get [1] {})", "(cut [1] {})", "(< 1 {} 3)", "(chainc 1 < {} <= 3)",
    "f\"a{{{}}}\"", "(. o (m {}))", "(.m o {})", "(o.m {})", "(f :k {})", "(f #* {})", "(f #** {})", "(return {})", "(raise {})", "(assert {})",
    "(assert True {})", "(del (get o {}))", "(yield {})", "(await {})", "(with-decorator? {})", "(annotate v {})", "(setv #^ int v {})",
    "(print (quote {}))", "`(a ~{})", "`(a ~@{})", "(not {})", "(in 1 {})", "(global v) (setv v {})", "{{1 {}}}", "#{{{}}}", "#({} 1)",
    "(defmacro mm [] {})", "(eval-and-compile {})", "(eval-when-compile {})", "(import os) {}", "(defn [d] g [] {})", "(defn g [#^ {} a] a)",
    "(fn [#* a #** kw] {})", "(nonlocal-test {})", "(setv [a b] {})", "(setv (get o 1) {})", "(setv o.at {})", "(+= v {})",
]
OUTER = [o for o in OUTER if "with-decorator?" not in o and "nonlocal-test" not in o]

INNER = [
    "1", "v", "(do (setv t 1) t)", "(if a (do (setv t 1) t) 2)", "(and a (do (setv t 1) t))", "(or (do (setv t 1) t) a)",
    "(with [(cmx)] 1)", "(with [w (cmx)] w)", "(try 1 (except [e E1] 2))", "(try 1 (except [E1] 2) (else 3) (finally 4))",
    "(match a 1 2 _ 3)", "(match a [p #* q] p {\"k\" z #** rest} z (K :at u) u)", "(lfor i [1] (do (setv t i) t))", "(gfor i [1] :do (setv t i) t)",
    "(dfor i [1] i (do (setv t i) t))", "(sfor i [1] :if (do (setv t i) t) i)", "(lfor i [1] #* [i])", "(let [b 1] b)", "(let [b 1] (fn [] b))",
    "(fn [] (setv t 1) t)", "(fn [z] (return z))", "(while a (break))", "(for [i [1]] i)", "(for [i [1]] i (else 2))", "(setv t 1)", "(setx t 1)",
    "'sym", "'(a b)", "`(a ~v ~@[1])", "'f\"{a !r :>{w}}\"", "f\"{a}{(do (setv t 1) t) =}\"", "#[f[{a}]f]", "(defn h [] 1)", "(defclass C2 [])",
    "(defmacro lm [] 1)", "(do (defmacro lm [] 1) (lm))", "(require os)", "(import os)", "(import os [path :as pth])", "(hy.I.os.getcwd)", "(hy.R.os.x 1)",
    "(chainc 1 < (do (setv t 2) t) < 3)", "(< 1 (do (setv t 2) t) 3)", "(cut [1 2] (do (setv t 1) t))", "(get [1] (do (setv t 0) t))",
    "(. o at (m 1))", "(:kw o)", "(raise (E1))", "(assert a \"m\")", "(del t)", "(global gl)", "(yield 1)", "(yield :from [1])", "(await a)",
    "(with [:async w (cmx)] w)", "(lfor :async i a i)", "(fn [:async] 1)", "(unpack-iterable a)", "(eval-and-compile 1)",
    "(eval-when-compile 1)", "(do-mac '1)", "(pragma :warn-on-core-shadow False)", "(setv #^ int t 1)", "(deftype Ty int)", "(not a)", "(bnot a)",
    "(+ a (do (setv t 1) t))", "(+= t 1)", "(nonlocal t)", "(export :objects [a])", "(. None a)", "..a", "(f :k (do (setv t 1) t))",
]


def pair_programs():
    for o in OUTER:
        for i in INNER:
            yield o.format(i), o, i


_PAIRS = None


def _pairs():
    global _PAIRS
    if _PAIRS is None:
        _PAIRS = list(pair_programs())
    return _PAIRS


def bounds(tier):
    b = dict(c01.bounds(tier))
    b["max_nodes"] = BOUNDS[tier]["n"]
    b["contexts[depth,max_filler_nodes]"] = BOUNDS[tier]["ctx"]
    b["construct_pairs"] = {"outer": len(OUTER), "inner": len(INNER), "programs": len(OUTER) * len(INNER)}
    return b


def _c01_tier(tier):
    """C12 walks C01's space; its quick tier uses a sub-bound registered as a pseudo-tier of C01."""
    if tier == "quick":
        c01.BOUNDS["c12quick"] = BOUNDS["quick"]
        return "c12quick"
    return tier


def shards(tier):
    out = [["c01"] + s for s in c01.shards(_c01_tier(tier))]
    n = len(OUTER) * len(INNER)
    step = -(-n // 32)
    out += [["pairs", lo, min(n, lo + step)] for lo in range(0, n, step)]
    return out


# ---------------------------------------------------------------- static oracle
def program_names(text):
    """Manglings of every symbol-ish name occurring in the source models."""
    import hy
    from hy.models import Symbol, Keyword, Sequence, FComponent, FString, String
    names = set()

    def add(s):
        s = str(s)
        if s and not s.strip("."):
            names.add(hy.mangle(s))       # an all-dots symbol such as `..` is one name
        for part in s.replace("/", ".").split("."):
            if part:
                try:
                    names.add(hy.mangle(part))
                except Exception:
                    pass

    def walk(m):
        if isinstance(m, Symbol):
            add(m)
        elif isinstance(m, Keyword):
            if m.name:
                add(m.name)
        elif isinstance(m, (Sequence, FString, FComponent)):
            for k in m:
                walk(k)
        elif isinstance(m, String):
            pass
    for form in hy.read_many(text):
        walk(form)
    return names


def identifiers(tree):
    """Yield (role, name) for every identifier in a Python AST."""
    for node in ast.walk(tree):
        if isinstance(node, ast.Name):
            yield "name", node.id
        elif isinstance(node, (ast.FunctionDef, ast.AsyncFunctionDef, ast.ClassDef)):
            yield "def", node.name
        elif isinstance(node, ast.arg):
            yield "param", node.arg
        elif isinstance(node, ast.ExceptHandler):
            if node.name:
                yield "handler", node.name
        elif isinstance(node, (ast.Global, ast.Nonlocal)):
            for n in node.names:
                yield "scope-decl", n
        elif isinstance(node, ast.alias):
            yield "import", (node.asname or node.name).split(".")[0]
        # keyword-argument names in calls are part of the callee's protocol, not bindings: not inspected
        elif isinstance(node, ast.MatchAs):
            if node.name:
                yield "capture", node.name
        elif isinstance(node, ast.MatchStar):
            if node.name:
                yield "capture", node.name
        elif isinstance(node, ast.MatchMapping):
            if node.rest:
                yield "capture", node.rest
        elif isinstance(node, ast.MatchClass):
            for k in node.kwd_attrs:
                yield "attr-pattern", k
        elif isinstance(node, ast.Attribute):
            if isinstance(node.ctx, ast.Load):
                root = node
                while isinstance(root, ast.Attribute):
                    root = root.value
                rooted_at_hy = isinstance(root, ast.Name) and root.id == "hy"
                yield ("attr-load-hy" if rooted_at_hy else "attr-load"), node.attr
            else:
                yield "attr-store", node.attr
        elif hasattr(ast, "TypeAlias") and isinstance(node, ast.TypeAlias):
            pass
        elif hasattr(ast, "TypeVar") and isinstance(node, (ast.TypeVar,)):
            yield "typevar", node.name


# `__debug__`: Hy's assert compiles to `if __debug__: ...` (a constant Python forbids rebinding);
# `__all__`: what the documented `export` macro is specified to assign.
ALLOWED_EXTRA = {"hy", "__debug__"}


def static_check(tree, prog_names):
    """Returns (violations, temporaries) where violations = sorted list of (role, name)."""
    bad = set()
    temps = set()
    for role, name in identifiers(tree):
        if name.startswith("_hy_"):
            temps.add(name)
            continue
        if role == "attr-load-hy":
            continue
        if name in prog_names or name in ALLOWED_EXTRA:
            continue
        if name == "__all__" and "export" in prog_names:
            continue
        bad.add((role, name))
    return sorted(bad), temps


# ---------------------------------------------------------------- cases
def _c01_case(acc, term, wrapper, sample):
    nt = lang.number(term)
    text = lang.wrap_text(nt, wrapper)
    info = {}

    def hook(tree):
        info["bad"], info["temps"] = static_check(tree, program_names(text))
    before = len(acc.disagreements)
    sub = Acc()
    c01.check_case(sub, term, wrapper, ast_hook=hook)
    acc.evaluations += 1
    acc.states += 1
    acc.transitions += sub.transitions
    case = {"family": "c01", "term": json.loads(json.dumps(term)), "wrapper": wrapper, "text": text}
    if "temps" not in info:
        acc.outcome("c01:not-compiled-or-diverging")
        return
    ntemps = len(info["temps"])
    acc.traces += 1
    if ntemps:
        acc.nontrivial += 1
    acc.outcome(f"c01:temps={min(ntemps, 3)}{'+' if ntemps >= 3 else ''}")
    if sample:
        acc.sample({"hy": text, "temporaries": sorted(info["temps"])})
    if info["bad"]:
        acc.disagree("unreserved-compiler-name", case, f"identifiers not from the program, not `hy`, not _hy_-prefixed: {info['bad']}",
                     sig="unreserved:" + ",".join(sorted({n for _, n in info["bad"]}))[:60], names=",".join(n for _, n in info["bad"]))
    if ntemps >= 2:
        acc.count("dynamic-oracle-applied(>=2 temporaries)")
        for d in sub.disagreements:
            if d["kind"] in ("wrong-outcome", "wrong-effect-trace", "wrong-final-environment", "leaked-variable"):
                acc.disagree("temporaries-clobber:" + d["kind"], case, d["detail"], sig="clobber:" + d["sig"], shape=d.get("shape", ""))


def _pair_case(acc, idx, sample):
    from mc import hyside
    text, o, i = _pairs()[idx]
    case = {"family": "pairs", "idx": idx, "text": text}
    acc.evaluations += 1
    acc.states += 1
    acc.transitions += 1
    mod = hyside.fresh_module()
    import warnings
    warnings.simplefilter("ignore")
    try:
        tree = hyside.compile_text(text, mod)
    except BaseException as e:
        acc.outcome("pairs:rejected:" + ("user-error" if hyside.is_user_error(e) else type(e).__name__))
        return
    acc.traces += 1
    bad, temps = static_check(tree, program_names(text))
    if temps:
        acc.nontrivial += 1
    acc.outcome(f"pairs:temps={min(len(temps), 3)}{'+' if len(temps) >= 3 else ''}")
    if sample:
        acc.sample({"hy": text, "temporaries": sorted(temps)})
    if bad:
        acc.disagree("unreserved-compiler-name", case, f"identifiers not from the program, not `hy`, not _hy_-prefixed: {bad}",
                     sig="unreserved:" + ",".join(sorted({n for _, n in bad}))[:60], names=",".join(n for _, n in bad))


def run_shard(shard, tier):
    acc = Acc()
    if shard[0] == "pairs":
        for idx in range(shard[1], shard[2]):
            _pair_case(acc, idx, idx % 401 == 0)
        return acc.result()
    _, kind, w_fn, n, lo, hi = shard
    tier = _c01_tier(tier)
    b = c01.BOUNDS[tier]
    wrappers = ("fn_ret", "fn_x") if w_fn else ("mod_r", "mod_x")
    if kind == "sized":
        terms = lang.gen(n, w_fn, False)
        for idx in range(lo, hi):
            for w in wrappers:
                _c01_case(acc, terms[idx], w, idx % 4001 == 11 and w == wrappers[0])
    elif kind == "xop":
        terms = c01._xop_terms(n, w_fn)
        for idx in range(lo, hi):
            for w in wrappers:
                _c01_case(acc, terms[idx], w, idx % 4001 == 13 and w == wrappers[0])
    elif kind == "sib":
        paths = c01._sib_ctxs(tier, w_fn)
        for idx in range(lo, hi):
            path, level = paths[idx]
            for si, st in enumerate(c01._sib_terms(level)):
                _c01_case(acc, c01._plug(path, st), wrappers[0], idx % 17 == 3 and si % 211 == 7)
    else:
        ctxs = c01._ctx_space(tier, w_fn)
        for idx in range(lo, hi):
            path, f, l, mf = ctxs[idx]
            for m in range(1, mf + 1):
                for filler in lang.gen(m, f, l):
                    t = c01._plug(path, filler)
                    if lang.size(t) <= b["n"]:
                        continue
                    for w in wrappers:
                        _c01_case(acc, t, w, idx % 997 == 5 and w == wrappers[0])
    return acc.result()


def recheck(case, tier):
    acc = Acc()
    if case["family"] == "pairs":
        _pair_case(acc, case["idx"], False)
    else:
        _c01_case(acc, c01._tuplify(case["term"]), case["wrapper"], False)
    return acc.disagreements


def snippet(d):
    return ("import hy, ast, types\nfrom hy.compiler import hy_compile\n"
            f"text = {d['case']['text']!r}\n"
            "print(ast.unparse(hy_compile(hy.read_many(text), types.ModuleType('m'))))\n"
            f"# {d['detail'][:300]!r}\n")
