"""C28  hy.repr has no leaking state.

Space (E2): every history of <= k hy.repr calls over 19 operands (model atoms,
nested models, containers holding models, self-referential list / dict,
instances of registered classes whose printers call hy.repr re-entrantly on
models, on containers, on their own container, and catch failures of nested
calls), every call carrying a call-local *fault set*: the printers' fault
points ("ticks") at which they raise.  Every single fault and every pair of
faults that can fire in one call is an operation; a history carries at most
F faults in total.

Oracle, after EVERY call of every history, on the real module:
  * hy.core.hy_repr._quoting is False and _seen is empty (returned or raised);
  * the outcome (text / raised) equals what the same operation gives in a
    pristine interpreter (table computed in pristine state, and separately
    re-derived with one brand-new process per operation);
  * the (quoting, seen) state observed at every fault point inside the call
    equals the reference model's, stepped in lock-step; the text equals the
    reference model's text.
"""
import json
import os
import subprocess
import sys

from mc.util import Acc

ID = "C28"
ENGINE = "E2-history"
TECHNIQUE = ("explicit-state BFS over histories of hy.repr calls executed on the real module (replay from a forced-pristine state), "
             "exhaustive call-local fault sets (every single and every pair of printer fault points), reference model of "
             "quoting/cycle state stepped in lock-step, fresh-process table as text oracle")
LEVEL_TEXT = ("Every history of up to k hy.repr calls over the operand alphabet, with every placement of up to F printer failures "
              "(each fault point of each printer, singly and in pairs, including failures caught by an enclosing printer), is executed "
              "on the real hy.repr. After every call the module state must be pristine and the text must equal the fresh-interpreter text. "
              "Exhaustive within the bound: a cleanup that is skipped on one particular exit path is found, not sampled.")
RULE = ("BFS over operation sequences, shortest first; an operation is (operand, set of call-local fault points that all fire); "
        "a state is the canonical form (_quoting, labels of the objects whose ids are in _seen, faults spent) read from the real module "
        "at call boundaries and at every printer fault point; 'states' counts the distinct canonical states of the pruned state-graph "
        "search; non-trivial = the history contains at least one call in which a registered printer fails (raises at a fault point, "
        "escaping or caught by an enclosing printer); histories that enter a test printer at all are counted separately")
ASSUMPTIONS = [
    "operand alphabet and printer scripts as listed in mc/ref/hs_repr.py; history depth and total faults per history as stated in bounds",
    "printer failures are raised as a BaseException subclass at the listed fault points only",
    "single-threaded; hy.repr-register'ed test classes are registered once per worker and the registry is verified before every history",
    "a call whose printer failure escapes is required to leave no state; WHAT it raises is not constrained (unspecified) beyond being compared with the fresh-interpreter outcome",
]

BOUNDS = {
    "quick": dict(depth=3, call_faults=2, total_faults=2, graph_depth=6),
    "thorough": dict(depth=4, call_faults=2, total_faults=2, graph_depth=8),
}
TIME_CAP = {"quick": 600, "thorough": 3600}

_OPS = {}


def _ops(tier):
    from mc.ref import hs_repr as H
    if tier not in _OPS:
        _OPS[tier] = H.all_ops(BOUNDS[tier]["call_faults"])
    return _OPS[tier]


def bounds(tier):
    from mc.ref import hs_repr as H
    b = BOUNDS[tier]
    return {"operands": {k: repr(v) for k, v in H.OPERANDS.items()}, "printer_scripts": {k: repr(v) for k, v in H.SCRIPTS.items()},
            "max_history_length": b["depth"], "max_faults_per_call": b["call_faults"], "max_faults_per_history": b["total_faults"],
            "state_graph_search_depth": b["graph_depth"],
            "fault_sets": "every set of <= max_faults_per_call fault points of a call all of which fire"}


N_OPS_HINT = 61     # shards() must not import hy; the number of first operations is fixed by the operand table


def shards(tier):
    out = [["graph"]]
    out += [["hist", i] for i in range(N_OPS_HINT)]
    out += [["fresh", i, N_OPS_HINT] for i in range(0, N_OPS_HINT, 6)]
    return out


def _key(op):
    return op[0] + ":" + ",".join(map(str, op[1]))


class Ctx:
    pass


class ReprSystem:
    def __init__(self, ops, total_faults, acc=None):
        from mc.ref import hs_repr as H
        self.H = H
        self.ops = ops
        self.total_faults = total_faults
        self.acc = acc
        H.classes()
        self.fresh = {}
        for op in ops:
            self.fresh[_key(op)] = H.fresh_outcome(op[0], op[1])
        H.force_pristine()

    def reset(self):
        H = self.H
        repaired = H.force_pristine()
        if repaired and self.acc is not None:
            self.acc.count("harness_reset_repaired_leaked_state")
        if not H.registry_intact():
            raise RuntimeError("hy.repr registry entries of the test classes were changed")
        ctx = Ctx()
        ctx.labels = {}
        ctx.nodes = {}
        ctx.spent = 0
        ctx.mid = []
        ctx.entered = False
        ctx.failed = False
        ctx.last = None
        return ctx

    def enabled(self, ctx, d):
        left = self.total_faults - ctx.spent
        return [op for op in self.ops if len(op[1]) <= left]

    def canon(self, ctx):
        return (self.H.module_state(ctx.labels), ctx.spent)

    def mid_states(self, ctx):
        return ctx.mid

    def nontrivial(self, ctx):
        return ctx.failed

    def step(self, ctx, op):
        H = self.H
        name, faults = op
        node = ctx.nodes.get(name)
        if node is None:
            node = ctx.nodes[name] = H.build(H.OPERANDS[name], ctx.labels, name)
        out, run = H.call(node, ctx.labels, faults)
        state = H.module_state(ctx.labels)
        ref_out, st = H.ref_run(node, ctx.labels, faults)
        ctx.spent += len(faults)
        ctx.mid = [("mid",) + e[1:] for e in run.log]
        ctx.entered = ctx.entered or run.ticks > 0
        ctx.failed = ctx.failed or bool(run.fired)
        ctx.last = (out, run.ticks, tuple(run.fired))
        problems = []
        opk = _key(op)
        how = "raised" if out[0] == "raise" else ("returned-after-caught-failure" if run.fired else "returned")
        if state != (False, ()):
            leaked = "+".join(x for x, bad in (("quoting", state[0] is not False), ("seen", bool(state[1]))) if bad)
            problems.append(dict(kind="state-leak-after-call", sig="leak:%s:%s" % (leaked, how), leaked=leaked, call=how, op=opk,
                                 detail="after hy.repr(%s) with printer faults %s (%s): _quoting=%r, _seen labels=%r"
                                        % (name, faults, how, state[0], list(state[1]))))
        fr = self.fresh[opk]
        if list(out) != fr["out"]:
            cls = "text" if out[0] == "ok" and fr["out"][0] == "ok" else "outcome"
            problems.append(dict(kind="%s-differs-from-fresh-interpreter" % cls, sig="fresh:%s:%s" % (cls, how), call=how, op=opk,
                                 detail="in this history hy.repr gave %r; a pristine interpreter gives %r" % (out, fr["out"])))
        if out[0] == "raise" and ref_out[0] == "raise" and out != ref_out:
            if self.acc is not None:
                self.acc.unspecified += 1
        elif tuple(out) != tuple(ref_out):
            problems.append(dict(kind="outcome-differs-from-reference-model", sig="ref:out:%s" % how, call=how, op=opk,
                                 detail="hy.repr gave %r; the reference model gives %r" % (out, ref_out)))
        if run.log != st.log:
            k = next((i for i, (a, b) in enumerate(zip(run.log, st.log)) if a != b), min(len(run.log), len(st.log)))
            problems.append(dict(kind="mid-call-state-differs-from-reference-model", sig="ref:mid:%s" % how, call=how, op=opk,
                                 detail="(tick, _quoting, _seen labels) at printer fault points: real %r, model %r (first difference at index %d)"
                                        % (run.log[k:k + 2], st.log[k:k + 2], k)))
        return problems

    def outcome(self, ctx):
        out, ticks, fired = ctx.last
        return "%s/ticks=%s/fired=%d" % ("raise" if out[0] == "raise" else "ok", "0" if not ticks else ("1-2" if ticks < 3 else "3+"), len(fired))

    def case(self, history):
        return {"history": [list(map(list_or, op)) for op in history]}


def list_or(x):
    return list(x) if isinstance(x, (list, tuple)) else x


def _explore(acc, tier, roots, prune, depth, count_states):
    from mc import hist
    b = BOUNDS[tier]
    system = ReprSystem(_ops(tier), b["total_faults"], acc)

    def on_problem(history, p):
        p = dict(p)
        kind = p.pop("kind")
        detail = p.pop("detail")
        sig = p.pop("sig")
        acc.disagree(kind, {"history": [[o[0], list(o[1])] for o in history]}, detail, sig=sig, depth=str(len(history)), **p)

    def on_history(history, ctx):
        acc.outcome(system.outcome(ctx))
        if ctx.entered:
            acc.count("histories_entering_a_test_printer")
        if ctx.failed and history[-1][1] == [] and len(history) > 1:
            acc.count("histories_ending_in_a_clean_call_after_a_failure")

    ex = hist.Explorer(system, depth, prune=prune, on_problem=on_problem, on_history=on_history)
    st = ex.run(roots)
    hist.report(acc, st, count_states=count_states, prefix="graph:" if prune else "hist:")
    return st


def _fresh_process(op):
    code = ("import json,sys\nfrom mc.ref import hs_repr as H\nH.classes()\n"
            "print('HS_FRESH '+json.dumps(H.fresh_outcome(%r, %r)))\n" % (op[0], list(op[1])))
    p = subprocess.run([sys.executable, "-c", code], capture_output=True, text=True, timeout=120,
                       cwd=os.path.dirname(os.path.dirname(os.path.abspath(__file__))))
    for line in p.stdout.splitlines():
        if line.startswith("HS_FRESH "):
            return json.loads(line[len("HS_FRESH "):])
    return {"error": (p.stdout + p.stderr)[-600:]}


def _fresh_shard(acc, tier, lo, step):
    """One brand-new interpreter per operation: the property's own reference."""
    from mc.ref import hs_repr as H
    H.classes()
    ops = _ops(tier)
    for op in ops[lo:lo + step]:
        opk = _key(op)
        case = {"fresh": [op[0], list(op[1])]}
        got = _fresh_process(op)
        acc.evaluations += 1
        acc.traces += 1
        acc.transitions += 1
        if "error" in got:
            acc.disagree("fresh-process-failed", case, got["error"], sig="fresh-process-failed", op=opk)
            continue
        here = json.loads(json.dumps(H.fresh_outcome(op[0], op[1])))
        ref_out, ticks, fired, log = H.ref_call(op[0], op[1])
        acc.outcome("fresh-process:" + got["out"][0])
        if got != here:
            acc.disagree("pristine-in-process-differs-from-new-process", case,
                         "new process: %r; this worker after force_pristine(): %r" % (got, here), sig="fresh:inproc", op=opk)
        if got["state_after"] != [False, []]:
            acc.disagree("state-leak-after-call", case, "in a new process, state after the call: %r" % (got["state_after"],),
                         sig="leak:fresh-process", leaked="fresh-process", call=got["out"][0], op=opk)
        reflog = [list(x[:2]) + [list(x[2])] for x in log]
        if got["out"][0] == "raise" and ref_out[0] == "raise" and got["out"] != list(ref_out):
            acc.unspecified += 1
        elif got["out"] != list(ref_out):
            acc.disagree("outcome-differs-from-reference-model", case,
                         "new process gives %r; the reference model gives %r" % (got["out"], ref_out), sig="ref:out:fresh", call="fresh", op=opk)
        if got["log"] != reflog:
            acc.disagree("mid-call-state-differs-from-reference-model", case,
                         "new process log %r; model %r" % (got["log"], reflog), sig="ref:mid:fresh", call="fresh", op=opk)


def run_shard(shard, tier):
    acc = Acc()
    b = BOUNDS[tier]
    ops = _ops(tier)
    if len(ops) != N_OPS_HINT:
        raise RuntimeError("N_OPS_HINT=%d but the operand table yields %d operations" % (N_OPS_HINT, len(ops)))
    if shard[0] == "graph":
        _explore(acc, tier, ((),), True, b["graph_depth"], True)
        acc.sample({"operations": [_key(o) for o in ops]})
    elif shard[0] == "hist":
        op = ops[shard[1]]
        if len(op[1]) <= b["total_faults"]:
            _explore(acc, tier, ((op,),), False, b["depth"], False)
        if shard[1] % 17 == 0:
            acc.sample({"first_operation": _key(op), "then": "every continuation up to length %d" % b["depth"]})
    else:
        _fresh_shard(acc, tier, shard[1], 6)
    return acc.result()


def recheck(case, tier):
    from mc import hist
    acc = Acc()
    if "fresh" in case:
        ops = _ops(tier)
        i = [k for k, o in enumerate(ops) if [o[0], list(o[1])] == case["fresh"]]
        if i:
            _fresh_shard(acc, tier, i[0], 1)
        return acc.disagreements
    b = BOUNDS[tier]
    system = ReprSystem(_ops(tier), b["total_faults"], acc)
    out = []
    for p in hist.replay(system, [[o[0], list(o[1])] for o in case["history"]]):
        p = dict(p)
        out.append(p)
    return out


def snippet(d):
    c = d["case"]
    hist_ = c.get("history") or [c["fresh"]]
    return ("import sys; sys.path.insert(0, '/verif')\n"
            "import hy, hy.core.hy_repr as R\nfrom mc.ref import hs_repr as H\n"
            "H.classes(); labels = {}; nodes = {}\n"
            f"for name, faults in {hist_!r}:\n"
            "    node = nodes.setdefault(name, H.build(H.OPERANDS[name], labels, name))\n"
            "    out, run = H.call(node, labels, faults)   # hy.repr(node.real); the test printers raise at ticks `faults`\n"
            "    print(name, faults, '->', out, '| state after:', R._quoting, R._seen)\n"
            "# C28: after every call R._quoting must be False and R._seen empty, and every returned text must be the\n"
            "# text a fresh interpreter returns for the same call.\n")
