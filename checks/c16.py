"""C16  Compile-time staging: eval-when-compile / eval-and-compile / do-mac.

Space (E2): every program of <= n nodes over {(rc_log i), do, defn+calls,
eval-when-compile, eval-and-compile, do-mac returning a quoted logging form,
do-mac returning a constant, (rc_val j FORM) value probe} that contains a
staging form, plus (mc/ref/rc_staging.py extra_programs) do-mac leaving each
false constant, a do-mac / eval-when-compile that is the whole body of an
eval-when-compile, and an eval-when-compile inside a function that assigns a
let-bound name, each in every context of depth <= 2 — staging forms at top level, inside `do`, inside function bodies
(called 0 or 2 times), as the probed argument — written to a fresh .hy file
and put through EVERY history of <= k steps over
    L  drop the module from sys.modules and import it
    T  touch the source file (new mtime, same content), then the same
with the real import system and real .pyc files.  rc_log / rc_val live in
builtins and tag every event with the stage: "C" while the import system is
obtaining the module's code object (SourceFileLoader.get_code: compiling the
source or reading the .pyc), "R" while the code object is executed.
Oracle after EVERY step (mc/ref/rc_staging.py): the file is compiled exactly
when no valid .pyc exists (observed through HY_MESSAGE_WHEN_COMPILING); the
event list of the load equals [compile-time events if compiled] + [run-time
events], with the reference's order, multiplicities and probed values.
"""
from mc.util import Acc

ID = "C16"
ENGINE = "E2-history"
TECHNIQUE = ("bounded exhaustive enumeration of staged programs x explicit-state exploration of load/touch histories through the real importer "
             "and real .pyc files; reference staging model (event lists per stage) compared after every step")
LEVEL_TEXT = ("Every program up to n nodes with compile-time forms in every position is imported from source, from cached bytecode and after a touch, "
              "in every order up to k steps; the stage-tagged effect log of every load is compared with the reference staging model. Exhaustive within the bounds.")
RULE = ("programs enumerated by size then constructor order (all distinct as trees); each is run through every maximal history over {L, T} with the "
        "oracle applied after every step, so every history of length <= k is compared once per program; 'states' = distinct (program, valid bytecode "
        "present?) configurations reached; non-trivial program = it has at least one compile-time event AND at least one run-time event "
        "(so the two stages can be confused); outcome classes = (compiled?, #C events, #R events)")
ASSUMPTIONS = [
    "constructors and size bound as listed; a compile-time form directly inside an eval-and-compile or do-mac body, or next to other forms in an eval-when-compile body, is outside the space (how often / in which order it runs is undocumented); a do-mac or eval-when-compile that is the whole body of an eval-when-compile is inside it (that body runs once, at compile time)",
    "compile-time forms only in statement position or as the single argument of the value probe, so the documentation's silence on argument "
    "evaluation order does not matter; compile-time events are expected in textual order (api.rst: evaluated 'as soon as the form is compiled')",
    "stage tagging relies on the import protocol (get_code, then exec of the code object), not on Hy internals",
    "touch changes the mtime by whole seconds; content and size unchanged",
]

BOUNDS = {
    "quick": dict(n=3, k=3, shards=64),
    "thorough": dict(n=4, k=3, shards=512),
}
TIME_CAP = {"quick": 1800, "thorough": 7200}


def bounds(tier):
    from mc.ref import rc_staging as S
    b = BOUNDS[tier]
    return {"constructors": ["L (rc_log i)", "DO", "FN body calls in %r" % (S.CALLS,), "EWC", "EAC", "DMQ", "DMV", "V (rc_val j T)"],
            "max_nodes": b["n"], "history_ops": {"L": "drop from sys.modules + import", "T": "touch source, drop, import"}, "max_history": b["k"]}


_PROGS = {}


def _programs(tier):
    from mc.ref import rc_staging as S
    if tier not in _PROGS:
        _PROGS[tier] = S.programs(BOUNDS[tier]["n"])
    return _PROGS[tier]


def shards(tier):
    from mc import enumer
    n = len(_programs(tier))
    return [["p", lo, hi] for lo, hi in enumer.chunk(n, BOUNDS[tier]["shards"])]


# ------------------------------------------------------------------ harness

_EVENTS = []


def _install():
    import builtins
    from mc.ref import rc_modload as M

    def rc_log(i):
        _EVENTS.append([M.STAGE[-1], "log", i])
        return 10 * i

    def rc_val(j, v):
        _EVENTS.append([M.STAGE[-1], "val", j, repr(v)])
        return v

    import contextlib
    builtins.rc_log, builtins.rc_val, builtins.rc_cm = rc_log, rc_val, contextlib.nullcontext


def run_history(program, history):
    """Executes one history on a fresh file.  -> list of per-step records
    dict(step, op, compiled, exp_compiled, events, exp_events, exc)"""
    import os
    import sys
    from mc.ref import rc_modload as M
    from mc.ref import rc_staging as S
    _install()
    build = S.Build(program)
    d = M.fresh_dir("c16_")
    name = "rc16_" + M.fresh_id()
    path = os.path.join(d, name + ".hy")
    M.write(path, build.text)
    valid = False
    out = []
    with M.on_sys_path(d), M.stage_hook():
        for step, op in enumerate(history):
            if op == "T":
                M.touch(path)
                valid = False
            del _EVENTS[:]
            mod, exc, compiled, other = M.load(name)
            events = [list(e) for e in _EVENTS]
            exp_compiled = not valid
            rec = dict(step=step, op=op, compiled=(path in compiled), compiled_paths=compiled, exp_compiled=exp_compiled,
                       events=events, exp_events=S.expected(build, exp_compiled),
                       exc=(None if exc is None else "%s: %s" % (type(exc).__name__, str(exc)[:200])), stderr=other[-300:])
            out.append(rec)
            if exc is not None:
                break
            valid = True
        sys.modules.pop(name, None)
    return out, build


def _diff_class(ev, exp):
    """Coarse class of the first difference between two event lists."""
    n = min(len(ev), len(exp))
    for i in range(n):
        if ev[i] != exp[i]:
            a, b = ev[i], exp[i]
            if a[0] != b[0]:
                return "stage:%s-for-%s" % (a[0], b[0])
            if a[1:3] == b[1:3] and a[1] == "val":
                return "value-in-stage-%s" % a[0]
            return "order-or-site-in-stage-%s" % b[0]
    if len(ev) > len(exp):
        return "extra-%s-event" % ev[n][0]
    if len(ev) < len(exp):
        return "missing-%s-event" % exp[n][0]
    return "same"


def _staging_tags(build):
    return ",".join(sorted(c for c in build.constructs if c.split("@")[0] in ("EWC", "EAC", "DMQ", "DMV")))


def judge(program, history, recs, build):
    problems = []
    for r in recs:
        load = "source" if r["exp_compiled"] else "bytecode"
        where = dict(step=str(r["step"]), load=load, forms=_staging_tags(build))
        if r["exc"] is not None:
            problems.append(dict(kind="staged-module-load-raised", sig="raised:%s:%s" % (load, r["exc"].split(":")[0]), exc=r["exc"].split(":")[0],
                                 detail="step %d (%s) of history %s raised %s\nprogram:\n%s" % (r["step"], r["op"], history, r["exc"], build.text), **where))
            break
        if r["compiled"] != r["exp_compiled"]:
            k = "source-recompiled-although-bytecode-was-valid" if r["compiled"] else "stale-or-missing-bytecode-not-recompiled"
            problems.append(dict(kind=k, sig=k, detail="step %d (%s) of history %s: 'Compiling' lines %r\nprogram:\n%s"
                                                        % (r["step"], r["op"], history, r["compiled_paths"], build.text), **where))
            break
        if r["events"] != r["exp_events"]:
            dc = _diff_class(r["events"], r["exp_events"])
            problems.append(dict(kind="staging-events-differ-from-reference", sig="events:%s:%s:%s" % (load, dc, _staging_tags(build)), diff=dc,
                                 detail="step %d (%s) of history %s, load from %s:\n got      %r\n expected %r\nprogram:\n%s"
                                        % (r["step"], r["op"], history, load, r["events"], r["exp_events"], build.text), **where))
            break
    return problems


def _maximal(k):
    import itertools
    return ["".join(h) for h in itertools.product("LT", repeat=k)]


def run_shard(shard, tier):
    b = BOUNDS[tier]
    acc = Acc()
    progs = _programs(tier)[shard[1]:shard[2]]
    maxi = _maximal(b["k"])
    for pi, program in enumerate(progs):
        seen_prefix = set()
        cfgs = set()
        nontriv = False
        for h in maxi:
            recs, build = run_history(program, h)
            acc.evaluations += len(recs)
            problems = judge(program, h, recs, build)
            bad_step = int(problems[0]["step"]) if problems else None
            for r in recs:
                pre = h[:r["step"] + 1]
                cfgs.add(r["step"] > 0)        # state before the step: no bytecode yet / valid bytecode present
                if pre in seen_prefix:
                    continue
                seen_prefix.add(pre)
                acc.traces += 1
                acc.transitions += 1
                acc.outcome("compiled=%s,C=%d,R=%d" % (r["compiled"], sum(1 for e in r["events"] if e[0] == "C"), sum(1 for e in r["events"] if e[0] == "R")))
                if bad_step is not None and r["step"] == bad_step:
                    p = dict(problems[0])
                    acc.disagree(p.pop("kind"), {"program": program, "history": pre}, p.pop("detail"), sig=p.pop("sig"), **p)
            nontriv = bool(build.ct) and bool(build.rt)
        acc.states += len(cfgs)
        if nontriv:
            acc.nontrivial += 1
        for c in build.constructs:
            acc.count("programs_with:" + c)
        if pi % 211 == 0:
            acc.sample({"program": build.text.strip().split("\n"), "compile_time": build.ct, "run_time": build.rt})
    return acc.result()


def recheck(case, tier):
    recs, build = run_history(case["program"], case["history"])
    return judge(case["program"], case["history"], recs, build)


def snippet(d):
    from mc.ref import rc_staging as S
    c = d["case"]
    build = S.Build(c["program"])
    return ("# run with PYTHONDONTWRITEBYTECODE unset and a scratch PYTHONPYCACHEPREFIX\n"
            "import builtins, importlib, os, sys, tempfile, hy\n"
            "events = []\n"
            "builtins.rc_log = lambda i: (events.append(('log', i)), 10 * i)[1]\n"
            "builtins.rc_val = lambda j, v: (events.append(('val', j, repr(v))), v)[1]\n"
            "import contextlib; builtins.rc_cm = contextlib.nullcontext\n"
            "d = tempfile.mkdtemp(); sys.path.insert(0, d); os.environ['HY_MESSAGE_WHEN_COMPILING'] = '1'\n"
            f"p = os.path.join(d, 'rc16m.hy'); open(p, 'w').write({build.text!r})\n"
            f"for op in {c['history']!r}:\n"
            "    if op == 'T': st = os.stat(p); os.utime(p, (st.st_mtime + 10, st.st_mtime + 10))\n"
            "    sys.modules.pop('rc16m', None); importlib.invalidate_caches(); del events[:]\n"
            "    importlib.import_module('rc16m'); print(op, events)\n"
            f"# reference: compile-time events {build.ct!r} (only when 'Compiling' is printed), then run-time events {build.rt!r}\n")
