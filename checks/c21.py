"""C21  Reader source positions delimit each form's text.

Space: every reader term up to n nodes (mc.ref.rd_terms, the C19 space: all
form kinds, sugar, #^, discards, comments, f-strings, strings containing
newlines) laid out over several lines in every layout of a fixed set (LF with
indentation, CRLF with tabs, ragged blank lines, VT/FF separators, plain,
tight).

Oracle.  The renderer knows the 0-based offsets of every form it emitted;
offsets map to 1-based (line, column) with lines split on '\\n' only.  The
models read from the text are walked in parallel with the rendered tree:

 * every model that is a *form* (top-level forms, elements of sequences,
   operands of sugar, the value form of an f-string field) must carry exactly
   the region of its text (first to last character, 1-based, inclusive --
   hy.models.Object's documented convention), and the text in the region it
   carries must read back to an equal model;
 * every model, including reader-synthesised ones (sugar heads, parts of
   dotted identifiers, f-string chunks and fields), must lie within its
   parent's region;
 * sibling forms must be disjoint and in source order (#^ swaps its two
   operands in the model: documented).
"""
import itertools

from mc.util import Acc

ID = "C21"
TECHNIQUE = ("bounded exhaustive enumeration of all reader terms up to n nodes x a fixed set of multi-line layouts; the positions on the "
             "models the real reader returns compared with the offsets the renderer recorded, plus read-back of every form's region")
LEVEL_TEXT = ("Every reader term with at most n nodes is rendered in every layout (known offsets for every form), read by the real reader, "
              "and the model tree is walked in parallel with the rendered tree: exact region per form, read-back of the region, containment "
              "in the parent for every model, order/disjointness of sibling forms. Exhaustive within the bound: a position bookkeeping slip "
              "for one construct in one line layout (column after a newline, end before a closing delimiter, start before the first "
              "character, a handler that peeks one character too far) is found.")
RULE = ("cases = (term, layout), distinct texts only; checked units = models; non-trivial = a form that starts after the first line break "
        "or spans several lines; outcome classes = (node kind, verdict)")
ASSUMPTIONS = [
    "terms over the listed alphabets and layouts only; node bound as stated",
    "lines are counted by '\\n' only (a '\\r' is an ordinary column-consuming character), as the reader counts",
    "reader-synthesised models (sugar heads, parts of dotted identifiers, f-string text chunks, FComponents) are only required to lie within "
    "their parent's region; only forms are required to carry exactly their own text's region",
    "texts where the closing delimiter of a bracket f-string occurs inside one of its fields are excluded (documentation silent)",
]
TIME_CAP = {"quick": 900, "thorough": 3000}

# (alphabet, n_lo, n_hi, max top-level items, layouts)
L3 = ["lines", "crlf", "ragged"]
L6 = ["lines", "crlf", "ragged", "vtff", "plain", "tight"]
BOUNDS = {
    "quick": dict(spaces=[("full", 1, 2, 3, L6), ("full", 3, 3, 1, L3), ("core", 3, 3, 3, L3), ("core", 4, 4, 2, L3)], target=500),
    "thorough": dict(spaces=[("full", 1, 3, 3, L6), ("full", 4, 4, 1, L3), ("core", 4, 4, 3, L6), ("core", 5, 5, 2, L3)], target=4000),
}

_GENS = {}
_BACK = {}


def _gen(alpha):
    from mc.ref import rd_terms as T
    if alpha not in _GENS:
        _GENS[alpha] = T.Gen(alpha)
    return _GENS[alpha]


def bounds(tier):
    from mc.ref import rd_terms as T
    b = BOUNDS[tier]
    out = {"spaces": [dict(alphabet=a, nodes_from=lo, nodes_to=hi, max_top_level_items=mi, layouts=ls) for a, lo, hi, mi, ls in b["spaces"]],
           "layouts": {name: dict(sibling=repr(l._sib), top=repr(l._top), indent=repr(l.indent), open_pad=repr(l.open_pad),
                                  close_pad=repr(l.close_pad), after_quote_like_prefix=repr(l.pgap), after_hash_prefix=repr(l.hgap),
                                  lead=repr(l.lead), trail=repr(l.trail), field_pad=repr(l.fpad), tight=l.tight)
                       for name, l in T.LAYOUTS.items()}}
    for name in sorted({sp[0] for sp in b["spaces"]}):
        al = T.ALPHABETS[name]
        out["alphabet_" + name] = {
            "atoms": [T.render((x,), "plain").text for x in al["atoms"]],
            "sequences": al["seqs"], "prefixes": al["pres"] + (["#^"] if al["ann"] else []) + ["#_"],
            "junk_items": [";c\\n", "#_ FORM"], "fstring_shapes": [s[0] for s in al["fshapes"]]}
    return out


def _shards_main(tier):
    from mc.ref import rd_terms as T
    b = BOUNDS[tier]
    out = []
    for si, (alpha, lo, hi, maxitems, lays) in enumerate(b["spaces"]):
        g = _gen(alpha)
        for n in range(lo, hi + 1):
            for ln in range(1, min(maxitems, n) + 1):
                for split in T._compositions(n, ln):
                    sizes = [len(g.items(s)) for s in split]
                    if not all(sizes):
                        continue
                    rest = 1
                    for s in sizes[1:]:
                        rest *= s
                    step = max(1, b["target"] // rest)
                    for a in range(0, sizes[0], step):
                        out.append([si, alpha, n, list(split), a, min(sizes[0], a + step)])
    return out


# ------------------------------------------------------------------ positions

class Lines:
    def __init__(self, text):
        self.text = text
        self.starts = [0]
        for i, c in enumerate(text):
            if c == "\n":
                self.starts.append(i + 1)

    def to_linecol(self, off):
        import bisect
        li = bisect.bisect_right(self.starts, off) - 1
        return li + 1, off - self.starts[li] + 1

    def to_off(self, line, col):
        if not (1 <= line <= len(self.starts)) or col < 1:
            return None
        off = self.starts[line - 1] + col - 1
        end = self.starts[line] if line < len(self.starts) else len(self.text) + 1
        if off >= end and not (line == len(self.starts) and off <= len(self.text)):
            return None
        return off


def region(m, L):
    """((start, end) 0-based inclusive offsets of the region a model carries, why).
    `why` is None for a proper 1-based region.  A column 0 (the reader's own
    coordinate for the newline character that ended the previous line) is not
    a 1-based position: it is reported (why = '...-column-0') and mapped to
    that newline character so that the remaining checks still run.  Anything
    else that is not a region of the text gives (None, why)."""
    try:
        sl, sc, el, ec = m.start_line, m.start_column, m.end_line, m.end_column
    except Exception as e:
        return None, "no-position:" + type(e).__name__
    why = None

    def conv(line, col, which):
        nonlocal why
        if not all(isinstance(v, int) for v in (line, col)):
            why = why or which + "-not-an-int"
            return None
        if col == 0 and 2 <= line <= len(L.starts) + 0:
            why = why or which + "-column-0"
            return L.starts[line - 1] - 1
        off = L.to_off(line, col)
        if off is None:
            why = why or which + ("-line-out-of-range" if not (1 <= line <= len(L.starts)) else "-column-out-of-range")
        return off
    s = conv(sl, sc, "start")
    e = conv(el, ec, "end")
    if s is None or e is None:
        return None, why
    if e < s:
        return None, "end-before-start"
    if e >= len(L.text):
        return None, "end-past-the-text"
    return (s, e), why


def pos4(m):
    return (m.start_line, m.start_column, m.end_line, m.end_column)


# ------------------------------------------------------------------ the walk

class Walk:
    def __init__(self, acc, r, case):
        from mc.ref import rd_modelkey as K
        self.acc = acc
        self.r = r
        self.L = Lines(r.text)
        self.case = case
        self.K = K
        self.first_nl = r.text.find("\n")

    def bad(self, kind, nd_tag, detail, **kw):
        self.acc.outcome(f"{nd_tag.split(':')[0]}:{kind}")
        f = dict(node=nd_tag, layout=self.r.layout, dstart="", dend="", exc="", why="")
        f.update({k: str(v) for k, v in kw.items()})
        self.acc.disagree(kind, self.case, f"{self.r.text!r}: {detail}",
                          sig=f"{kind}:{nd_tag}:{f['dstart']}:{f['dend']}:{f['exc']}:{f['why']}", **f)

    def form(self, m, nd, parent_reg):
        """m: model, nd: rendered Node of a form.  Returns its region (or None)."""
        acc = self.acc
        acc.states += 1
        acc.transitions += 1
        tag = nd.tag
        reg, why = region(m, self.L)
        want = (nd.start, nd.end)
        if self.first_nl != -1 and (nd.start > self.first_nl or "\n" in self.r.text[nd.start:nd.end + 1]):
            acc.nontrivial += 1
        ok = True
        if why is not None:
            ok = False
            self.bad("position-not-a-1-based-region-of-the-text", tag, f"{type(m).__name__} carries {pos4(m)} ({why}); "
                     f"its text {self.r.text[nd.start:nd.end + 1]!r} is at {self.L.to_linecol(nd.start) + self.L.to_linecol(nd.end)}", why=why)
        if reg is None:
            return None
        if reg != want:
            ok = False
            self.bad("form-region-not-exact", tag,
                     f"{type(m).__name__} for {self.r.text[nd.start:nd.end + 1]!r} carries {pos4(m)} = text {self.r.text[reg[0]:reg[1] + 1]!r}; "
                     f"its text is at {self.L.to_linecol(nd.start) + self.L.to_linecol(nd.end)}",
                     dstart=reg[0] - want[0], dend=reg[1] - want[1])
        # read-back of the region the model carries
        sub = self.r.text[reg[0]:reg[1] + 1]
        mk = self.K.key(m)
        back = _BACK.get(sub)
        if back is None:
            back = self.K.read_keys(sub)
            acc.evaluations += 1
            if len(_BACK) < 300000:
                _BACK[sub] = back
        if not (back[0] == "ok" and len(back[1]) == 1 and back[1][0] == mk):
            ok = False
            what = (f"reads as {back[1]!r}"[:300] if back[0] == "ok" else f"raises {back[1]}: {back[2]}")
            self.bad("form-region-does-not-read-back", tag,
                     f"{type(m).__name__} carries {pos4(m)} = text {sub!r}, which {what}; the model is {mk!r}"[:900],
                     dstart=reg[0] - want[0], dend=reg[1] - want[1], exc=("" if back[0] == "ok" else back[1]))
        if parent_reg is not None and not (parent_reg[0] <= reg[0] and reg[1] <= parent_reg[1]):
            ok = False
            self.bad("child-region-outside-parent", tag, f"{type(m).__name__} {pos4(m)} is not within its parent's region "
                     f"{self.L.to_linecol(parent_reg[0]) + self.L.to_linecol(parent_reg[1])}")
        if ok:
            acc.outcome(f"{tag.split(':')[0]}:ok")
        self.children(m, nd, reg)
        return reg

    def synth(self, m, parent_reg, tag):
        """A model with no syntax of its own (and everything below it): containment only."""
        acc = self.acc
        acc.transitions += 1
        reg, why = region(m, self.L)
        if why is not None:
            self.bad("position-not-a-1-based-region-of-the-text", "synth:" + tag,
                     f"synthesised {type(m).__name__} {str(m)!r} carries {pos4(m)} ({why})", why=why)
        if reg is None:
            return
        if not (parent_reg[0] <= reg[0] and reg[1] <= parent_reg[1]):
            self.bad("child-region-outside-parent", "synth:" + tag,
                     f"synthesised {type(m).__name__} {str(m)!r} carries {pos4(m)}, not within its parent's "
                     f"{self.L.to_linecol(parent_reg[0]) + self.L.to_linecol(parent_reg[1])}")
        elif why is None:
            acc.outcome("synth:ok")
        import hy.models as M
        if isinstance(m, M.Sequence):
            for x in m:
                self.synth(x, reg, tag)

    def shape(self, tag, m, why):
        self.bad("model-shape-unexpected", tag, f"{why}: got {self.K.key(m)!r}"[:600])

    def ordered(self, regs, tag):
        prev = None
        for rg in regs:
            if rg is None:
                continue
            if prev is not None and not prev[1] < rg[0]:
                self.bad("sibling-forms-overlap-or-out-of-order", tag,
                         f"regions {self.L.to_linecol(prev[0]) + self.L.to_linecol(prev[1])} and "
                         f"{self.L.to_linecol(rg[0]) + self.L.to_linecol(rg[1])} of consecutive sibling forms")
            prev = rg

    def children(self, m, nd, reg):
        import hy.models as M
        tag = nd.tag
        if tag == "atom":
            if isinstance(m, M.Sequence):      # dotted identifier: an Expression of synthesised symbols
                for x in m:
                    self.synth(x, reg, "dotted")
            return
        if tag in ("str", "bstr"):
            return
        if tag.startswith("seq:"):
            if not isinstance(m, M.Sequence) or len(m) != len(nd.kids):
                return self.shape(tag, m, f"expected a sequence of {len(nd.kids)} forms")
            self.ordered([self.form(x, k, reg) for x, k in zip(m, nd.kids)], tag)
            return
        if tag.startswith("pre:"):
            if not isinstance(m, M.Expression) or len(m) != 2 or len(nd.kids) != 1:
                return self.shape(tag, m, "expected (head form)")
            self.synth(m[0], reg, "sugar-head")
            self.form(m[1], nd.kids[0], reg)
            return
        if tag == "ann":
            if not isinstance(m, M.Expression) or len(m) != 3 or len(nd.kids) != 2:
                return self.shape(tag, m, "expected (annotate target type)")
            self.synth(m[0], reg, "sugar-head")
            r_typ = self.form(m[2], nd.kids[0], reg)       # source order: type first, then target
            r_tgt = self.form(m[1], nd.kids[1], reg)
            self.ordered([r_typ, r_tgt], tag)
            return
        if tag == "fstr":
            if not isinstance(m, M.FString):
                return self.shape(tag, m, "expected an FString")
            self.fparts(list(m), nd.kids, reg, tag)
            return
        raise ValueError(tag)

    def fparts(self, comps, fld_nodes, reg, tag):
        import hy.models as M
        fcs = [c for c in comps if isinstance(c, M.FComponent)]
        if len(fcs) != len(fld_nodes):
            return self.bad("model-shape-unexpected", tag, f"expected {len(fld_nodes)} replacement fields, got {len(fcs)}")
        it = iter(fld_nodes)
        for c in comps:
            if not isinstance(c, M.FComponent):
                self.synth(c, reg, "fstring-chunk")
                continue
            fn = next(it)
            self.acc.transitions += 1
            creg, why = region(c, self.L)
            if why is not None:
                self.bad("position-not-a-1-based-region-of-the-text", "fld", f"FComponent carries {pos4(c)} ({why})", why=why)
            if creg is None:
                continue
            if not (reg[0] <= creg[0] and creg[1] <= reg[1]):
                self.bad("child-region-outside-parent", "fld", f"FComponent {pos4(c)} not within its f-string's region")
            elif why is None:
                self.acc.outcome("fld:ok")
            if len(c) < 1 or not fn.kids:
                self.bad("model-shape-unexpected", "fld", "FComponent without a value form")
                continue
            self.form(c[0], fn.kids[0], creg)
            self.fparts(list(c)[1:], fn.kids[1:], creg, "fld")


def check_text(acc, r, case):
    from mc.ref import rd_modelkey as K
    import hy
    acc.traces += 1
    acc.evaluations += 1
    try:
        models = list(hy.read_many(r.text))
    except BaseException as e:
        acc.outcome("text:does-not-read")
        acc.disagree("generated-text-does-not-read", case, f"{r.text!r}: {type(e).__name__}: {e}",
                     sig="does-not-read:" + type(e).__name__, node="text", layout=r.layout, dstart="", dend="", exc=type(e).__name__, why="")
        return
    w = Walk(acc, r, case)
    if len(models) != len(r.nodes):
        w.bad("model-shape-unexpected", "top", f"expected {len(r.nodes)} top-level forms, got {len(models)}")
        return
    regs = [w.form(m, nd, None) for m, nd in zip(models, r.nodes)]
    w.ordered(regs, "top")


def _run_shard_main(shard, tier):
    from mc.ref import rd_terms as T
    b = BOUNDS[tier]
    acc = Acc()
    si, alpha, n, split, lo, hi = shard
    lays = b["spaces"][si][4]
    g = _gen(alpha)
    pools = [g.items(s) for s in split]
    k = 0
    for prog in itertools.product(pools[0][lo:hi], *pools[1:]):
        seen = set()
        for lay in lays:
            r = T.render(prog, lay)
            if r.text in seen:
                continue
            seen.add(r.text)
            if r.ambiguous:
                acc.unspecified += 1
                continue
            acc.count("layout:" + lay)
            check_text(acc, r, {"alpha": alpha, "term": T.to_jsonable(prog), "layout": lay, "text": r.text})
            if k % 2003 == 0:
                acc.sample(r.text)
            k += 1
    return acc.result()


def _recheck_main(case, tier):
    from mc.ref import rd_terms as T
    acc = Acc()
    r = T.render(T.from_jsonable(case["term"]), case["layout"])
    if r.text != case["text"]:
        return [{"kind": "recheck-render-differs", "sig": "recheck-render-differs", "detail": r.text}]
    check_text(acc, r, case)
    return acc.disagreements


def snippet(d):
    c = d["case"]
    return (f"import hy\ntext = {c['text']!r}\nlines = text.split('\\n')\n"
            "def show(m, depth=0):\n"
            "    sl, sc, el, ec = m.start_line, m.start_column, m.end_line, m.end_column\n"
            "    if sl == el: sub = lines[sl-1][sc-1:ec]\n"
            "    else: sub = '\\n'.join([lines[sl-1][sc-1:]] + lines[sl:el-1] + [lines[el-1][:ec]])\n"
            "    print('  ' * depth, type(m).__name__, (sl, sc, el, ec), repr(sub))\n"
            "    if isinstance(m, hy.models.Sequence):\n"
            "        for x in m: show(x, depth + 1)\n"
            "for m in hy.read_many(text): show(m)\n"
            "# C21: each form's region must be exactly its own text (1-based, inclusive) and read back to an equal model;\n"
            "# every child within its parent; sibling forms disjoint and in source order\n")


# ---------------------------------------------------------------- reader reuse leg (E2: histories of two reads on ONE reader)
def shards(tier):
    return list(_shards_main(tier)) + [["reuse-leg"]]


def _reuse_case(acc, t1, t2, how):
    from mc.ref import rd_reuse
    fresh, reused = rd_reuse.run_pair(t1, t2, how)
    acc.states += 1
    acc.transitions += 2
    acc.traces += 1
    acc.evaluations += 2
    acc.nontrivial += 1
    acc.outcome("reuse:" + fresh[0] + "/" + reused[0])
    if fresh[0] == "models" and reused[0] == "models" and fresh != reused:
        acc.disagree("reused-reader-positions-differ", {"reuse": [t1, t2, how]},
                     f"after reading {t1!r} ({how}) with a HyReader, reading {t2!r} with the SAME reader gave {str(reused)[:200]}; a fresh reader gives {str(fresh)[:200]}",
                     sig="reused-reader-positions-differ:" + reused[0], how=how)


def run_shard(shard, tier):
    if shard == ["reuse-leg"]:
        from mc.util import Acc as _Acc
        from mc.ref import rd_reuse
        acc = _Acc()
        for i, (t1, t2, how) in enumerate(rd_reuse.pairs()):
            _reuse_case(acc, t1, t2, how)
            if i % 487 == 0:
                acc.sample({"first_source": t1, "second_source": t2, "first_read": how})
        return acc.result()
    return _run_shard_main(shard, tier)


def recheck(case, tier):
    if "reuse" in case:
        from mc.util import Acc as _Acc
        acc = _Acc()
        _reuse_case(acc, *case["reuse"])
        return acc.disagreements
    return _recheck_main(case, tier)
