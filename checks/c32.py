"""C32  hy.mangle always yields a canonical Python identifier.

Space: every Unicode code point (all 1 114 112, surrogates included) in each
positional context of mc/ref/mg_space.py, plus every token string up to
length n over a 13-token tricky alphabet (delimiter X, '_', '-', an illegal
character, NFKC-foldable letters, a character that folds to '_', one that
folds to 'X', a combining mark that composes with 'X', '.', a digit, 'hyx_').
Oracle, on every name: hy.mangle returns a str that (a) is a valid Python
identifier, (b) is in NFKC normal form, (c) has as many leading '_' as the name
has leading characters normalising to '_', (d) is the name itself if the name
already is an NFKC-normal identifier, (e) is a fixed point of hy.mangle, and
(f) equals the reference transcription of the five documented mangling steps
(mc/ref/mg_mangle_ref.py).  Dotted names: part-wise, against the reference.
"""
import unicodedata

from mc.util import Acc
from mc.ref import mg_space

ID = "C32"
TECHNIQUE = ("exhaustive sweep of all Unicode code points in fixed positional contexts plus bounded exhaustive enumeration of "
             "short strings; invariants + an independent reference implementation of the documented mangling steps")
LEVEL_TEXT = ("hy.mangle is run on every one of the 1,114,112 code points in every listed context and on every short string over the "
              "alphabet; the five clauses of the property (identifier, NFKC-normal, leading underscores kept, normal identifiers "
              "unchanged, idempotent) and equality with a reference written from docs/syntax.rst are evaluated on each. A single code "
              "point or character class that is classified, escaped, named or normalised wrongly in any listed position is found.")
RULE = ("a case is one (context, code point) pair or one token string (all distinct by construction); non-trivial = hy.mangle "
        "changes the name (hyphen conversion, hyx_ escape, NFKC folding or underscore transliteration); outcome classes = "
        "which of those transformations the reference applies")
ASSUMPTIONS = [
    "contexts and string alphabet as listed in bounds; names longer than the contexts / string bound are not explored",
    "'Python-legal' means str.isidentifier of the running CPython (Unicode %s); reserved words count as identifiers" % unicodedata.unidata_version,
    "names with an empty dot-separated part other than leading dots (a..b, a.) are neither symbols nor dotted identifiers: unspecified, no oracle",
    "the reference fixes two readings the docs leave open (legality is tested with the leading underscores put back; after 'hyx_' is "
    "prepended every character is in a non-initial position) - see mc/ref/mg_mangle_ref.py",
]
TIME_CAP = {"quick": 600, "thorough": 3600}


def bounds(tier):
    return mg_space.bounds(tier)


def shards(tier):
    return list(mg_space.shards(tier)) + [["history-leg"]]


def _a(s):
    return ascii(s)


def _cat(case):
    if "cp" in case:
        return unicodedata.category(chr(case["cp"]))
    return "-"


def check_name(acc, case, name, ctx, ntok, mangle, ref):
    """Evaluate all clauses on one name; returns the outcome class."""
    acc.states += 1
    acc.transitions += ntok
    kind = ref.classify(name)
    if kind == "unspecified":
        acc.unspecified += 1
        try:
            mangle(name)
            acc.evaluations += 1
            acc.outcome("unspecified-empty-part:returned")
        except Exception as e:
            acc.evaluations += 1
            acc.outcome("unspecified-empty-part:raised-" + type(e).__name__)
        return
    acc.traces += 1
    acc.evaluations += 1
    extra = dict(ctx=ctx, cat=_cat(case), cp=("U+%04X" % case["cp"]) if "cp" in case else "-")

    def bad(k, detail):
        acc.disagree(k, case, detail, sig="%s:%s:%s" % (k, ctx, extra["cat"]), **extra)

    try:
        r = mangle(name)
    except BaseException as e:
        acc.outcome("raised:" + type(e).__name__)
        bad("mangle-raised", "hy.mangle(%s) raised %s: %s" % (_a(name), type(e).__name__, _a(str(e))[:200]))
        return
    if type(r) is not str:
        bad("mangle-not-str", "hy.mangle(%s) returned %s" % (_a(name), type(r).__name__))
        return
    expected = ref.mangle(name)
    if kind == "symbol":
        st = ref.mangle_symbol_steps(name)
        cls = []
        if st["escaped"]:
            cls.append("escaped")
        if st["n_lead"]:
            cls.append("lead_")
        if st["pre_nfkc"] != st["result"]:
            cls.append("nfkc-folds")
        if not st["escaped"] and st["pre_nfkc"] != name:
            cls.append("hyphen/underscore-translit")
        parts_in, parts_out = [name], [r]
    else:
        cls = ["dotted"]
        body = name.lstrip(".")
        parts_in = body.split(".")
        rb = r.lstrip(".")
        parts_out = rb.split(".")
        if len(r) - len(rb) != len(name) - len(body) or len(parts_out) != len(parts_in):
            bad("dotted-structure-changed", "hy.mangle(%s) = %s: dots not preserved" % (_a(name), _a(r)))
            parts_in, parts_out = [], []
    acc.outcome("+".join(cls) or "unchanged")
    if r != name:
        acc.nontrivial += 1
    for pin, pout in zip(parts_in, parts_out):
        if not pout.isidentifier():
            bad("not-identifier", "hy.mangle(%s) -> %s is not a Python identifier" % (_a(pin), _a(pout)))
        if unicodedata.normalize("NFKC", pout) != pout:
            bad("not-nfkc", "hy.mangle(%s) -> %s is not NFKC-normal" % (_a(pin), _a(pout)))
        n_in = ref.count_leading_underscores(pin)
        n_out = len(pout) - len(pout.lstrip("_"))
        if n_in != n_out:
            bad("leading-underscores-changed", "hy.mangle(%s) -> %s: %d leading underscores in, %d out" % (_a(pin), _a(pout), n_in, n_out))
        if pin.isidentifier() and unicodedata.normalize("NFKC", pin) == pin and pout != pin:
            bad("normal-identifier-changed", "%s is an NFKC-normal identifier but hy.mangle gives %s" % (_a(pin), _a(pout)))
    try:
        r2 = mangle(r)
        acc.evaluations += 1
    except BaseException as e:
        r2 = "<raised %s>" % type(e).__name__
    if r2 != r:
        bad("not-idempotent", "mangle(%s) = %s but mangling that gives %s" % (_a(name), _a(r), _a(r2)))
    if r != expected:
        bad("differs-from-reference", "hy.mangle(%s) = %s, documented steps give %s" % (_a(name), _a(r), _a(expected)))


def _run_shard_main(shard, tier):
    import hy
    from mc.ref import mg_mangle_ref as ref
    mangle = hy.mangle
    acc = Acc()
    n = 0
    for case, name, ctx, ntok in mg_space.iter_shard(shard, tier):
        check_name(acc, case, name, ctx, ntok, mangle, ref)
        acc.count("ctx:" + ctx)
        n += 1
        if n % 9973 == 1:
            acc.sample({"case": case, "mangled": ascii(_safe(mangle, name))})
    return acc.result()


def _safe(f, x):
    try:
        return f(x)
    except BaseException as e:
        return "<%s>" % type(e).__name__


def _recheck_main(case, tier):
    import hy
    from mc.ref import mg_mangle_ref as ref
    acc = Acc()
    name, ctx = mg_space.name_of(case)
    check_name(acc, case, name, ctx, 1, hy.mangle, ref)
    return acc.disagreements


def snippet(d):
    name, _ = mg_space.name_of(d["case"])
    return ("import hy, unicodedata\ns = %s\nr = hy.mangle(s)\nprint(ascii(r), r.isidentifier(), unicodedata.normalize('NFKC', r) == r, "
            "hy.mangle(r) == r)\n# %s: %s\n" % (ascii(name), d.get("kind"), d.get("detail")))


# ---------------------------------------------------------------- history leg: mangle must be a function of its argument alone
# every ordered pair of calls (s1, then s2) over all token strings of <= 2 tokens from a small alphabet chosen so that names
# differ only by leading underscores / hyphens / a leading digit: the second result must equal the reference (which is stateless)
HIST_ALPHA = ["_", "1", "a", "-", "2", "?"]


def _hist_names():
    import itertools
    out = []
    for n in (1, 2, 3):
        out += ["".join(t) for t in itertools.product(HIST_ALPHA, repeat=n)]
    return out


def _hist_case(acc, s1, s2):
    import hy
    from mc.ref import mg_mangle_ref as ref
    acc.states += 1
    acc.transitions += 2
    acc.traces += 1
    acc.evaluations += 2
    acc.nontrivial += 1
    try:
        hy.mangle(s1)
    except Exception:
        pass
    if ref.classify(s2) == "unspecified":
        return
    try:
        got = hy.mangle(s2)
    except Exception as e:
        got = "<raised %s>" % type(e).__name__
    want = ref.mangle(s2)
    acc.outcome("history:" + ("same" if got == want else "DIFFERS"))
    if got != want:
        acc.disagree("mangle-depends-on-earlier-call", {"history": [s1, s2]},
                     f"after hy.mangle({s1!r}), hy.mangle({s2!r}) returned {got!r}; a fresh interpreter (and the documented algorithm) gives {want!r}",
                     sig="history:" + ("underscore" if s2.lstrip("_") == s1.lstrip("_") else "other"))


def run_shard(shard, tier):
    if shard == ["history-leg"]:
        acc = Acc()
        names = _hist_names()
        for s1 in names:
            for s2 in names:
                if s1 != s2:
                    _hist_case(acc, s1, s2)
        acc.sample({"history": ["1a", "_1a"]})
        return acc.result()
    return _run_shard_main(shard, tier)


def recheck(case, tier):
    if "history" in case:
        acc = Acc()
        _hist_case(acc, *case["history"])
        return acc.disagreements
    return _recheck_main(case, tier)
