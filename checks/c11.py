"""C11  No subform is silently dropped by the compiler.

Space: every form built from a list of templates (collection displays,
calls, method calls, subscripts, cut, operators, comparisons, attribute
access, control forms, decorator / base-class / exception-type lists,
f-strings, comprehension and loop heads ...) in which EVERY evaluated slot is
filled, in every combination, with one of  vN | #* vN | #** vN  where vN is a
uniquely named variable; plus every such form nested in every slot of every
other template (one level).
Oracle: if the compiler accepts the form then (static) every vN occurs as a
Name in the compiled AST, and (dynamic, for templates that can be executed in
a world where every value supports every operation and is truthy) every vN
whose slot control reaches is looked up at run time — observed through a
logging globals mapping; otherwise compilation must have failed with a
user-facing Hy error (or Python's own SyntaxError for the construct).
"""
import ast
import itertools
import re

from mc.util import Acc

ID = "C11"
ENGINE = "E1-enumerator"
TECHNIQUE = "bounded exhaustive enumeration of forms with every slot filled by a unique variable, plain or under #*/#**; static (AST) and dynamic (logging globals) presence check on the real compiler's output"
LEVEL_TEXT = ("Every template x every assignment of {v, #* v, #** v} to its slots (and every one-level nesting) is compiled with the real compiler; "
              "each uniquely named variable must appear in the AST and, where the form can be executed, be looked up at run time when control reaches it. "
              "Exhaustive within the template list and nesting bound.")
RULE = ("templates in list order, slot fillings in lexicographic order over (plain, #*, #**), then nestings; a case = one form; non-trivial = the form "
        "contains at least one unpacking filler (the F4-style dropping can only happen there) — counted per distinct form; outcome classes = accepted / rejected-with-Hy-error / rejected-by-Python x template kind")
ASSUMPTIONS = [
    "templates as listed (about 60); nesting depth one",
    "dynamic oracle only for templates marked executable; values are 'universal' objects that support every operation and are truthy, so reachability is static",
]
TIME_CAP = {"quick": 900, "thorough": 3600}

# (name, text with {0} {1}... slots, executable?, indices of slots NOT reached in the all-truthy world)
T = [
    ("list", "[{0} {1} {2}]", True, ()),
    ("tuple", "#({0} {1} {2})", True, ()),
    ("set", "#{{{0} {1} {2}}}", True, ()),
    ("dict", "{{{0} {1}  {2} {3}}}", True, ()),
    ("dict-unpack", "{{{0} {1} {2}}}", True, ()),
    ("call", "(v0 {0} {1} {2})", True, ()),
    ("call-kw", "(v0 {0} :k {1} {2})", True, ()),
    ("call-head", "({0} {1})", True, ()),
    ("method", "(.m {0} {1} {2})", True, ()),
    ("dotted-call", "(v0.m {0} {1})", True, ()),
    ("get", "(get {0} {1} {2})", True, ()),
    ("cut", "(cut {0} {1} {2})", True, ()),
    ("cut4", "(cut {0} {1} {2} {3})", True, ()),
    ("plus", "(+ {0} {1} {2})", True, ()),
    ("minus1", "(- {0})", True, ()),
    ("mul", "(* {0} {1})", True, ()),
    ("pow", "(** {0} {1} {2})", True, ()),
    ("lt", "(< {0} {1} {2})", True, ()),
    ("eq", "(= {0} {1})", True, ()),
    ("eq-unary", "(= {0})", True, ()),
    ("lt-unary", "(< {0})", True, ()),
    ("is-unary", "(is {0})", True, ()),
    ("ne", "(!= {0} {1})", True, ()),
    ("in", "(in {0} {1})", True, ()),
    ("is", "(is {0} {1} {2})", True, (2,)),
    ("chainc", "(chainc {0} < {1} <= {2})", True, ()),
    ("not", "(not {0})", True, ()),
    ("bnot", "(bnot {0})", True, ()),
    ("and", "(and {0} {1} {2})", True, ()),
    ("or", "(or {0} {1})", True, (1,)),
    ("attr", "(. {0} a)", True, ()),
    ("attr-sub", "(. {0} [{1}])", True, ()),
    ("attr-call", "(. {0} (m {1} {2}))", True, ()),
    ("if", "(if {0} {1} {2})", True, (2,)),
    ("when", "(when {0} {1})", True, ()),
    ("cond", "(cond {0} {1} {2} {3})", True, (2, 3)),
    ("do", "(do {0} {1})", True, ()),
    ("setv", "(setv t {0})", True, ()),
    ("setv-sub", "(setv (get {0} {1}) {2})", True, ()),
    ("setv-attr", "(setv (. {0} a) {1})", True, ()),
    ("augassign", "(+= t0 {0} {1})", False, ()),
    ("raise", "(raise {0})", False, ()),
    ("raise-from", "(raise {0} :from {1})", False, ()),
    ("assert", "(assert {0} {1})", True, (1,)),
    ("del-sub", "(del (get {0} {1}))", True, ()),
    ("fstring", 'f"a{{ {0}}}b{{ {1} !r}}"', True, ()),
    ("fstring-spec", 'f"{{ {0} :{{ {1}}}}}"', True, ()),
    ("with", "(with [{0}] {1})", True, ()),
    ("with-as", "(with [w {0} u {1}] {2})", True, ()),
    ("for", "(for [i {0}] {1})", True, ()),
    ("while", "(while {0} {1} (break))", True, ()),
    ("lfor", "(lfor i {0} {1})", True, ()),
    ("lfor-if", "(lfor i {0} :if {1} {2})", True, ()),
    ("dfor", "(dfor i {0} {1} {2})", True, ()),
    ("gfor", "(list (gfor i {0} {1}))", True, ()),
    ("sfor-setv", "(sfor i {0} :setv j {1} {2})", True, ()),
    ("fn-default", "(fn [a [b {0}]] {1})", True, (1,)),
    ("fn-ann-param", "(fn [#^ {0} a] {1})", True, (1,)),
    ("fn-ann-rest", "(fn [#^ {0} #* rest] {1})", True, (1,)),
    ("fn-ann-kwargs", "(fn [a #^ {0} #** kw] {1})", True, (1,)),
    ("fn-ann-kwonly", "(fn [* #^ {0} [k {1}]] 1)", True, ()),
    ("fn-ann-return", "(fn #^ {0} [] {1})", True, (1,)),
    ("defn-ann-rest", "(do (defn g [#^ {0} #* rest #^ {1} #** kw] 1) 2)", True, ()),
    ("defn-ann-return", "(do (defn #^ {0} g [a [b {1}]] 1) 2)", True, ()),
    ("defn-posonly-default", "(do (defn g [[a {0}] / [b {1}]] 1) 2)", True, ()),
    ("defn-decorators", "(defn [{0} {1}] g [] {2})", False, ()),
    ("defclass-bases", "(defclass K [{0} {1}])", False, ()),
    ("defclass-kw", "(defclass K [{0} :metaclass {1}])", False, ()),
    ("except-types", "(try {0} (except [[{1} {2}]] 1))", False, ()),
    ("except-type", "(try {0} (except [{1}] 1))", False, ()),
    ("match-subject", "(match {0} 1 {1} _ {2})", True, (2,)),
    ("match-guard", "(match 1 x :if {0} {1})", True, ()),
    ("annotate", "(setv #^ {0} t {1})", True, ()),
    ("return", "(fn [] (return {0}))", False, ()),
    ("yield", "(fn [] (yield {0}))", False, ()),
    ("yield-from", "(fn [] (yield :from {0}))", False, ()),
    ("await", "(fn [:async] (await {0}))" if False else "(defn :async g [] (await {0}))", False, ()),
    ("unpack-long", "[{0} (unpack-iterable {1})]", True, ()),
    ("unpack-map-long", "(v0 {0} (unpack-mapping {1}))", True, ()),
    ("unpack-map-extra", "(v0 (unpack-mapping {0} {1}))", False, ()),
    ("unpack-map-extra-dict", "{{1 2 (unpack-mapping {0} {1})}}", False, ()),
    ("unpack-map-extra-dfor", "(dfor i [1] (unpack-mapping {0} {1}))", False, ()),
    ("unpack-iter-extra-lfor", "(lfor i [1] (unpack-iterable {0} {1}))", False, ()),
    ("print-kw", "(print {0} :sep {1})", True, ()),
    ("quasi", "`(a ~{0} ~@{1})", True, ()),
]
NSLOTS = {name: len(set(re.findall(r"\{(\d)\}", text.replace("{{", "").replace("}}", "")))) for name, text, _, _ in T}
FILL = ["{v}", "#* {v}", "#** {v}"]
# slots whose value the form discards (statement position): a bare variable there may be dropped by the compiler on purpose
# (hy.compiler.Result.expr_as_stmt: "ast.Names ... can't have any side effect"), which the documentation does not address;
# the plain filler for these slots is therefore the call (v0 vN), whose evaluation is observable.
DISCARDED = {"eq-unary": (0,), "lt-unary": (0,), "is-unary": (0,), "do": (0,), "for": (1,), "while": (1,), "when": (), "defn-decorators": (2,), "return": (), "with": ()}
CALLFILL = "(v0 {v})"

BOUNDS = {
    "quick": dict(nest=True, nest_fill="plain+one-unpack", shards=48),
    "thorough": dict(nest=True, nest_fill="all", shards=256),
}


def bounds(tier):
    return {"templates": [t[0] for t in T], "fillers": ["vN", "#* vN", "#** vN"], "nesting": "each template in each slot of each template, one level",
            "inner_fillings": BOUNDS[tier]["nest_fill"]}


def _fillings(k, mode):
    if mode == "all":
        return list(itertools.product(range(3), repeat=k))
    out = [tuple([0] * k)]
    for i in range(k):
        for f in (1, 2):
            t = [0] * k
            t[i] = f
            out.append(tuple(t))
    return out


def cases(tier):
    """Yield case descriptors: (ti, fill) or (ti, fill, slot, tj, fill_j)."""
    b = BOUNDS[tier]
    out = []
    for ti, (name, text, dyn, unreached) in enumerate(T):
        k = NSLOTS[name]
        for fill in itertools.product(range(3), repeat=k):
            out.append((ti, fill))
    if b["nest"]:
        for ti, (name, text, dyn, unreached) in enumerate(T):
            k = NSLOTS[name]
            for slot in range(k):
                if slot in DISCARDED.get(name, ()):
                    continue
                for tj, (nj, textj, dynj, unrj) in enumerate(T):
                    for fj in _fillings(NSLOTS[nj], b["nest_fill"]):
                        out.append((ti, tuple([0] * k), slot, tj, fj))
    return out


_CASES = {}


def _all(tier):
    if tier not in _CASES:
        _CASES[tier] = cases(tier)
    return _CASES[tier]


def shards(tier):
    n = len(_all(tier))
    step = -(-n // BOUNDS[tier]["shards"])
    return [[lo, min(n, lo + step)] for lo in range(0, n, step)]


def build(desc):
    """-> (text, vars, reached_vars, executable, has_unpack, label)"""
    counter = itertools.count(1)

    def inst(ti, fill, reach_all=True):
        name, text, dyn, unreached = T[ti]
        k = NSLOTS[name]
        vs = [f"v{next(counter)}" for _ in range(k)]
        parts = [(CALLFILL if (f == 0 and i in DISCARDED.get(name, ())) else FILL[f]).format(v=v) for i, (f, v) in enumerate(zip(fill, vs))]
        reached = [v for i, v in enumerate(vs) if i not in unreached]
        return text, parts, vs, reached, dyn, unreached

    ti, fill = desc[0], desc[1]
    text, parts, vs, reached, dyn, unreached = inst(ti, fill)
    label = T[ti][0]
    allv, reach = list(vs), list(reached)
    if len(desc) > 2:
        slot, tj, fj = desc[2], desc[3], desc[4]
        text2, parts2, vs2, reached2, dyn2, unr2 = inst(tj, fj)
        inner = text2.format(*parts2)
        parts[slot] = inner
        allv.remove(vs[slot])
        # dynamic expectation for a nesting: only the inner form's variables (the value of the inner form need not be truthy,
        # so what the outer form evaluates after it is not predicted); outer forms are covered by the un-nested cases
        reach = list(reached2) if (vs[slot] in reach and slot not in DISCARDED.get(T[ti][0], ())) else []
        if T[tj][0] == "annotate" and reach:
            # Python does not evaluate the annotation of a local variable; whether the nested form ends up in a function
            # (lifted guard, comprehension function) depends on the compilation strategy, so it is not predicted when nested
            reach = [v for v in reach if v != vs2[0]]
        allv += vs2
        dyn = dyn and dyn2
        label += ">" + T[tj][0]
        fill = tuple(fill) + tuple(fj)
    return "(setv r " + text.format(*parts) + ")", allv, reach, dyn, any(f != 0 for f in fill), label


class U:
    """A value that supports every operation and is truthy."""

    def __call__(self, *a, **k):
        return U()

    def __getattr__(self, n):
        if n.startswith("__") and n not in ("__name__",):
            raise AttributeError(n)
        return U()

    def __getitem__(self, k):
        return U()

    def __setitem__(self, k, v):
        pass

    def __delitem__(self, k):
        pass

    def __setattr__(self, n, v):
        pass

    def __iter__(self):
        return iter([U(), U()])

    def keys(self):
        return ["ka", "kb"]

    def __bool__(self):
        return True

    def __enter__(self):
        return U()

    def __exit__(self, *a):
        return False

    def __contains__(self, x):
        return True

    def __hash__(self):
        return id(self)

    def __eq__(self, o):
        return U()

    def __ne__(self, o):
        return U()

    def __format__(self, spec):
        return "U"

    def __repr__(self):
        return "U"

    def __index__(self):
        return 0

    def __len__(self):
        return 2


for _op in ("add", "radd", "sub", "rsub", "mul", "rmul", "pow", "rpow", "lt", "le", "gt", "ge", "neg", "pos", "invert", "truediv", "mod",
            "and", "or", "xor", "lshift", "rshift", "matmul", "floordiv", "iadd"):
    def _mk(op):
        def f(self, *a):
            return U()
        return f
    setattr(U, f"__{_op}__", _mk(_op))


class LoggingGlobals(dict):
    def __init__(self, *a, **k):
        super().__init__(*a, **k)
        self.seen = []

    def __getitem__(self, k):
        self.seen.append(k)
        return super().__getitem__(k)


def check(acc, desc, sample=False):
    from mc import hyside
    import warnings
    warnings.simplefilter("ignore")
    text, allv, reach, dyn, has_unpack, label = build(desc)
    case = {"desc": [list(x) if isinstance(x, tuple) else x for x in desc], "text": text}
    acc.states += 1
    acc.evaluations += 1
    acc.transitions += 1
    if has_unpack:
        acc.nontrivial += 1
    mod = hyside.fresh_module()
    try:
        tree = hyside.compile_text(text, mod)
    except BaseException as e:
        if hyside.is_user_error(e):
            acc.outcome("rejected-with-hy-error")
        else:
            acc.outcome("rejected:" + type(e).__name__)     # internal errors are C10's business
        return
    acc.traces += 1
    names = {n.id for n in ast.walk(tree) if isinstance(n, ast.Name)}
    missing = [v for v in allv if v not in names]
    if sample:
        acc.sample({"hy": text, "python": _show(tree)[:200]})
    if missing:
        acc.outcome("accepted:DROPPED")
        acc.disagree("subform-dropped-from-compiled-code", case,
                     f"variables {missing} do not occur in the compiled code: {_show(tree)[:300]!r}",
                     sig="dropped:" + _dropsig(text, missing), how=_dropsig(text, missing), template=label)
        return
    try:
        code = compile(tree, "<c11>", "exec")
    except BaseException as e:
        acc.outcome("accepted-but-python-rejects")             # C10's business
        return
    if not dyn:
        acc.outcome("accepted:static-only")
        return
    g = LoggingGlobals({v: U() for v in allv})
    g["v0"] = U()
    g["t0"] = U()
    g["m"] = U()
    g["list"] = list
    g["print"] = lambda *a, **k: None
    g["__name__"] = mod.__name__
    try:
        exec(code, g)
    except BaseException as e:
        acc.outcome("accepted:exec-raised:" + type(e).__name__)
        acc.count("dynamic-skipped:" + type(e).__name__)
        return
    acc.outcome("accepted:executed")
    acc.transitions += len(g.seen)
    notseen = [v for v in reach if v not in g.seen]
    if notseen:
        acc.disagree("subform-not-evaluated", case, f"control reaches {notseen} but they were never looked up; lookups: {g.seen}",
                     sig="not-evaluated:" + label, template=label)


def _show(tree):
    try:
        return ast.unparse(tree)
    except BaseException:
        return ast.dump(tree)


def _dropsig(text, missing):
    kinds = set()
    for v in missing:
        if f"#** {v}" in text or f"(unpack-mapping {v}" in text:
            kinds.add("unpack-mapping")
        elif f"#* {v}" in text or f"(unpack-iterable {v}" in text:
            kinds.add("unpack-iterable")
        elif re.search(r"\(unpack-mapping v\d+ " + v + r"\b", text):
            kinds.add("extra-argument-of-unpack-mapping")
        else:
            kinds.add("plain")
    return "+".join(sorted(kinds))


def run_shard(shard, tier):
    acc = Acc()
    lo, hi = shard
    cs = _all(tier)
    for idx in range(lo, hi):
        check(acc, cs[idx], sample=(idx % 1777 == 3))
    return acc.result()


def recheck(case, tier):
    acc = Acc()
    d = case["desc"]
    desc = tuple(tuple(x) if isinstance(x, list) else x for x in d)
    check(acc, desc)
    return acc.disagreements


def snippet(d):
    return ("import hy, ast, types\nfrom hy.compiler import hy_compile\n"
            f"print(ast.unparse(hy_compile(hy.read_many({d['case']['text']!r}), types.ModuleType('m'))))\n"
            f"# {d['detail'][:200]!r}\n")
