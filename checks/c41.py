"""C41  The hy command runs programs the same way from -c, a file, stdin and -m.

(a) In-process: hy.cmdline.cmdline_handler(["hy"] + argv) for EVERY argv vector
    of <= n tokens over the 17-token option/argument alphabet, for stdin a TTY
    and not a TTY, with run_command, runpy.run_module, runhy.run_path, REPL and
    sys.stdin replaced by recorders.  Compared with the CPython-style reference
    parser of mc/ref/rc_cli_ref.py: which runner is invoked with which target,
    sys.argv seen by the program, -i / --spy / --repl-output-fn reaching the
    REPL, -B in effect, usage errors exactly for unknown options / missing
    option arguments.
(b) Conformance in real subprocesses: 4 programs (print a value; print
    sys.argv; sys.exit 3; uncaught exception) x trailing argument lists over
    {a, -x, --, -c, -m, -i} x the four invocation modes `hy -c CODE ARGS`,
    `hy FILE ARGS`, `hy - ARGS` (code on stdin), `hy -m MODULE ARGS`: stdout,
    exit status, __name__, sys.argv[1:] == ARGS and the documented sys.argv[0]
    of each mode.
"""
import itertools

from mc.util import Acc

ID = "C41"
ENGINE = "E1-enumerator"
TECHNIQUE = ("bounded exhaustive enumeration of argv vectors over the option/argument alphabet against a CPython-style reference parser "
             "(in-process, runners replaced by recorders), plus an exhaustive program x trailing-arguments x invocation-mode matrix in real subprocesses")
LEVEL_TEXT = ("Every argument vector up to n tokens is given to the real option parser and the dispatched action, program arguments and REPL options are "
              "compared with a reference parser; every program of the set is run under each invocation mode with every trailing argument list in a "
              "real `hy` process and stdout, exit status and sys.argv are compared with the documented values. Exhaustive within the bounds.")
RULE = ("(a) argv vectors enumerated length-then-lexicographically, x stdin TTY yes/no, all distinct; non-trivial = the vector contains an "
        "option-terminating token (-c, -m, script, -, --) followed by at least one more token, or a clustered/attached option. (b) cases = "
        "(program, trailing list, mode), all distinct; non-trivial = the trailing list contains an option-like token. "
        "outcome classes = reference verdict kinds x modes")
ASSUMPTIONS = [
    "alphabet and bounds as listed; -h, -v, -u are outside the alphabet",
    "unspecified (counted, only 'no internal error other than the documented refusal' is not even demanded): -i with -m (Hy refuses with a bare ValueError), "
    "-i with an explicit `-`; sys.argv[0] when the program comes from stdin with no arguments at all (Hy: sys.argv == []; Python: [''])",
    "-E is observed (PYTHON* variables removed from os.environ) but not judged when given; without -E the environment must be untouched",
    "sys.argv in REPL mode (no program) is not judged",
    "sys.argv[0] of a script may be the name as given or its full path (Python's sys.argv documentation leaves this open)",
    "(a) judges sys.argv[0] only for -c, script and `-` (with -m it is set by runpy, which is replaced); (b) judges it in all four modes",
    "(b) stderr is only searched for the expected exception line",
]

BOUNDS = {
    "quick": dict(n=4, full_trail=1, argv_trail=2),
    "thorough": dict(n=5, full_trail=2, argv_trail=3),
}
TIME_CAP = {"quick": 1200, "thorough": 5400}
A_SHARDS = {"quick": 64, "thorough": 512}


def bounds(tier):
    from mc.ref import rc_cli_ref as C
    b = BOUNDS[tier]
    return {"a_alphabet": C.ALPHA, "a_max_argv": b["n"], "a_stdin": ["tty", "not a tty"],
            "b_programs": {k: v[0] for k, v in C.PROGRAMS.items()}, "b_modes": C.MODES, "b_trailing_alphabet": C.TRAIL,
            "b_max_trailing_all_programs": b["full_trail"], "b_max_trailing_argv_program": b["argv_trail"]}


def _trails(maxlen):
    from mc.ref import rc_cli_ref as C
    out = []
    for n in range(maxlen + 1):
        out.extend(list(t) for t in itertools.product(C.TRAIL, repeat=n))
    return out


def _b_cases(tier):
    from mc.ref import rc_cli_ref as C
    b = BOUNDS[tier]
    cases = []
    for prog in C.PROGRAMS:
        ml = b["argv_trail"] if prog == "argv" else b["full_trail"]
        for t in _trails(ml):
            cases.append([prog, t])
    return cases


def _shards_main(tier):
    from mc import enumer
    from mc.ref import rc_cli_ref as C
    b = BOUNDS[tier]
    out = [["a", lo, hi] for lo, hi in enumer.string_shards(len(C.ALPHA), b["n"], A_SHARDS[tier])]
    cases = _b_cases(tier)
    per = 2
    for lo in range(0, len(cases), per):
        out.append(["b", lo, min(len(cases), lo + per)])
    return out


# ------------------------------------------------------------------ (a)

class _Calls(list):
    pass


def observe_argv(args, tty):
    """Run cmdline_handler in-process with recorders.  -> dict(calls, result | exc)"""
    import io
    import os
    import sys
    import contextlib
    import hy
    import hy.cmdline as cl
    from mc.ref import rc_modload as M

    calls = []
    env0 = dict(os.environ)

    def snap():
        return dict(argv=list(sys.argv), B=bool(sys.dont_write_bytecode),
                    env_intact=all(os.environ.get(k) == v for k, v in env0.items() if k.startswith("PYTHON")))

    def run_command(source, filename=None):
        calls.append(dict(what="command", source=source, filename=filename, **snap()))
        return 0

    def run_module(mod_name, init_globals=None, run_name=None, alter_sys=False):
        calls.append(dict(what="module", mod=mod_name, run_name=run_name, alter_sys=alter_sys, **snap()))
        return {}

    def run_path(path_name, init_globals=None, run_name=None):
        calls.append(dict(what="file", path=path_name, run_name=run_name, **snap()))
        return {}

    class FakeCompiler:
        skip_next_shebang = False

    class FakeCompile:
        compiler = FakeCompiler()

    class FakeREPL:
        def __init__(self, spy=False, spy_delimiter=None, output_fn=None, **kw):
            calls.append(dict(what="repl-init", spy=bool(spy), output_fn=output_fn, **snap()))
            self.compile = FakeCompile()

        def runsource(self, source, filename="<stdin>", symbol="exec"):
            calls.append(dict(what="repl-runsource", source=source, filename=filename, **snap()))
            return False

        def run(self):
            calls.append(dict(what="repl-run", **snap()))
            return 0

    class FakeStdin(io.StringIO):
        def isatty(self):
            return tty

    d = _a_dir()
    saved = dict(run_command=cl.run_command, REPL=cl.REPL, run_module=cl.runpy.run_module, run_path=cl.runhy.run_path,
                 stdin=sys.stdin, argv=list(sys.argv), path=list(sys.path), exe=sys.executable, dwb=sys.dont_write_bytecode, cwd=os.getcwd(),
                 hyexe=getattr(hy, "executable", None), hysys=getattr(hy, "sys_executable", None))
    out = {}
    try:
        cl.run_command, cl.REPL = run_command, FakeREPL
        cl.runpy.run_module = run_module
        cl.runhy.run_path = run_path
        sys.stdin = FakeStdin("STDIN-PROGRAM")
        sys.argv[:] = ["hy"] + list(args)          # what the console script starts with
        os.chdir(d)
        so, se = io.StringIO(), io.StringIO()
        try:
            with contextlib.redirect_stdout(so), contextlib.redirect_stderr(se):
                out["result"] = cl.cmdline_handler(["hy"] + list(args))
        except cl.HyArgError as e:
            out["exc"] = "HyArgError"
            out["msg"] = str(e)
        except SystemExit as e:
            out["exc"] = "SystemExit"
            out["msg"] = repr(e.code)
        except Exception as e:
            out["exc"] = type(e).__name__
            out["msg"] = str(e)[:200]
        out["stdout"] = so.getvalue()[-300:]
    finally:
        cl.run_command, cl.REPL = saved["run_command"], saved["REPL"]
        cl.runpy.run_module = saved["run_module"]
        cl.runhy.run_path = saved["run_path"]
        sys.stdin = saved["stdin"]
        sys.argv[:] = saved["argv"]
        sys.path[:] = saved["path"]
        sys.executable = saved["exe"]
        sys.dont_write_bytecode = saved["dwb"]
        os.chdir(saved["cwd"])
        for k, v in env0.items():
            if os.environ.get(k) != v:
                os.environ[k] = v
        for k in list(os.environ):
            if k not in env0:
                del os.environ[k]
        if saved["hyexe"] is None:
            hy.__dict__.pop("executable", None)
            hy.__dict__.pop("sys_executable", None)
        else:
            hy.executable, hy.sys_executable = saved["hyexe"], saved["hysys"]
    out["calls"] = calls
    out["cwd"] = d
    return out


_ADIR = [None]
FILE_TEXT = "(print 'file-program)\n"


def _a_dir():
    """A directory in which every token of the alphabet exists as a file, so that
    a token in script position can always be opened."""
    import os
    from mc.ref import rc_cli_ref as C
    from mc.ref import rc_modload as M
    if _ADIR[0] is None:
        d = M.fresh_dir("c41a_")
        for t in C.ALPHA:
            if t != "-":
                M.write(os.path.join(d, t), FILE_TEXT)
        _ADIR[0] = d
    return _ADIR[0]


def judge_argv(args, tty, ref, obs):
    """-> (problems, outcome class)"""
    import os
    problems = []
    calls = obs["calls"]
    whats = [c["what"] for c in calls]

    def bad(kind, sig, detail, **kw):
        problems.append(dict(kind=kind, sig=sig, detail="hy %s (stdin %s a tty): %s\nreference: %r\nobserved calls: %r, outcome %r"
                             % (" ".join(map(repr, args)), "is" if tty else "is not", detail, ref, calls, {k: obs.get(k) for k in ("result", "exc", "msg")}),
                             tty=str(tty), **kw))

    if ref["kind"] == "unspecified":
        return problems, "unspecified:" + ref["why"]
    if ref["kind"] == "usage-error":
        if obs.get("exc") != "HyArgError":
            bad("cli-usage-error-not-reported", "a:no-usage-error:%s" % ref["why"].split()[0], "expected a usage error (%s)" % ref["why"], why=ref["why"])
        elif calls:
            bad("cli-ran-something-despite-usage-error", "a:ran-despite-usage-error", "a runner was invoked although the command line is invalid")
        return problems, "usage-error"
    # ref is a run
    mode = ref["mode"]
    if "exc" in obs:
        bad("cli-valid-command-line-rejected" if obs["exc"] == "HyArgError" else "cli-handler-raised", "a:raised:%s:%s" % (mode, obs["exc"]),
            "raised %s: %s" % (obs["exc"], obs.get("msg")), exc=obs["exc"], mode=mode)
        return problems, "run:" + mode
    inter = ref["i"] or mode == "repl"
    exp_whats = {
        ("command", False): ["command"], ("command", True): ["repl-init", "repl-runsource", "repl-run"],
        ("module", False): ["module"],
        ("file", False): ["file"], ("file", True): ["repl-init", "repl-runsource", "repl-run"],
        ("stdin", False): ["command"],
        ("repl", True): ["repl-init", "repl-run"],
    }[(mode, inter)]
    if whats != exp_whats:
        bad("cli-dispatched-wrong-action", "a:action:%s:%s->%s" % (mode, "+".join(exp_whats), "+".join(whats) or "nothing"), "expected the calls %r" % (exp_whats,), mode=mode)
        return problems, "run:" + mode
    main = [c for c in calls if c["what"] in ("command", "module", "file", "repl-runsource", "repl-run")][0]
    # target
    if mode == "command":
        got = main["source"]
        if got != ref["target"]:
            bad("cli-wrong-program-text", "a:target:command", "program text %r, expected %r" % (got, ref["target"]), mode=mode)
    elif mode == "module":
        import hy
        want_mod = hy.mangle(ref["target"])
        if main["mod"] != want_mod or main["run_name"] != "__main__" or not main["alter_sys"]:
            bad("cli-wrong-module-run", "a:target:module", "run_module(%r, run_name=%r, alter_sys=%r), expected (%r, '__main__', True)"
                % (main["mod"], main["run_name"], main["alter_sys"], want_mod), mode=mode)
    elif mode == "file":
        want = os.path.join(obs["cwd"], ref["target"])
        if inter:
            if main["source"] != FILE_TEXT:
                bad("cli-wrong-program-text", "a:target:file-i", "REPL was given %r, expected the text of %r" % (main["source"], ref["target"]), mode=mode)
        elif os.path.realpath(main["path"]) != os.path.realpath(want) or main["run_name"] != "__main__":
            bad("cli-wrong-script-run", "a:target:file", "run_path(%r, run_name=%r), expected (%r, '__main__')" % (main["path"], main["run_name"], want), mode=mode)
    elif mode == "stdin":
        if main["source"] != "STDIN-PROGRAM":
            bad("cli-wrong-program-text", "a:target:stdin", "program text %r, expected the text on stdin" % (main["source"],), mode=mode)
    # sys.argv at the time the program runs
    argv = main["argv"]
    if mode == "repl":
        pass        # no program: sys.argv unspecified
    elif argv[1:] != ref["args"]:
        bad("cli-program-arguments-wrong", "a:args:%s" % mode, "sys.argv[1:] == %r, expected %r" % (argv[1:], ref["args"]), mode=mode)
    elif mode in ("command", "file") or (mode == "stdin" and not ref["implicit_stdin"]):
        full = mode == "file" and argv[:1] and os.path.realpath(argv[0]) == os.path.realpath(os.path.join(obs["cwd"], ref["target"]))
        if argv[:1] != [ref["argv0"]] and not full:
            bad("cli-argv0-wrong", "a:argv0:%s" % mode, "sys.argv[0] == %r, expected %r" % (argv[:1], ref["argv0"]), mode=mode)
    # flags
    if main["B"] != ref["B"]:
        bad("cli-B-flag-wrong", "a:B:%s" % ref["B"], "sys.dont_write_bytecode == %r while the program runs, -B given: %r" % (main["B"], ref["B"]), mode=mode)
    if not ref["E"] and not main["env_intact"]:
        bad("cli-environment-modified-without-E", "a:E", "PYTHON* variables changed although -E was not given", mode=mode)
    if inter:
        init = calls[0]
        if init["spy"] != ref["spy"]:
            bad("cli-spy-flag-wrong", "a:spy", "REPL(spy=%r), --spy given: %r" % (init["spy"], ref["spy"]), mode=mode)
        if init["output_fn"] != ref["output_fn"]:
            bad("cli-repl-output-fn-wrong", "a:output-fn", "REPL(output_fn=%r), expected %r" % (init["output_fn"], ref["output_fn"]), mode=mode)
    if obs.get("result") != 0:
        bad("cli-handler-result-wrong", "a:result:%s" % mode, "cmdline_handler returned %r, expected 0" % (obs.get("result"),), mode=mode)
    return problems, "run:%s%s" % (mode, "+i" if ref["i"] else "")


def _a_nontrivial(args):
    term = {"-c", "-m", "-", "--", "prog.hy", "rc-mod", "(print 1)", "a", "-c(print 1)", "-mrc-mod", "-Bc"}
    for i, t in enumerate(args):
        if t in ("-c(print 1)", "-mrc-mod", "-Bc"):
            return True
        if t in term and i + 1 < len(args):
            return True
    return False


def _a_case(acc, args, tty):
    from mc.ref import rc_cli_ref as C
    ref = C.parse(list(args), tty)
    obs = observe_argv(args, tty)
    problems, cls = judge_argv(args, tty, ref, obs)
    acc.states += 1
    acc.transitions += len(args) + 1
    acc.traces += 1
    acc.evaluations += 1
    if _a_nontrivial(args):
        acc.nontrivial += 1
    if ref["kind"] == "unspecified":
        acc.unspecified += 1
    elif ref["kind"] == "run" and ref.get("implicit_stdin"):
        acc.count("a:argv0-unspecified(program from stdin, no arguments)")
    if ref["kind"] == "run" and ref["E"]:
        acc.count("a:-E given (environment stripping observed, not judged)")
    acc.outcome("a:" + cls)
    for p in problems:
        p = dict(p)
        acc.disagree(p.pop("kind"), {"part": "a", "argv": list(args), "tty": tty}, p.pop("detail"), sig=p.pop("sig"), **p)


# ------------------------------------------------------------------ (b)

_BDIR = [None]


def _b_dir():
    import os
    from mc.ref import rc_cli_ref as C
    from mc.ref import rc_modload as M
    if _BDIR[0] is None:
        d = M.fresh_dir("c41b_")
        for prog, (src, _l, _s, _e) in C.PROGRAMS.items():
            M.write(os.path.join(d, "rc_prog_%s.hy" % prog), src + "\n")
        _BDIR[0] = d
    return _BDIR[0]


def run_mode(prog, args, mode):
    import os
    import subprocess
    from mc.ref import rc_cli_ref as C
    from mc.ref import rc_modload as M
    d = _b_dir()
    fname = "rc_prog_%s.hy" % prog
    argv, stdin = C.command_line(prog, mode, args, fname, "rc-prog-%s" % prog)
    p = subprocess.run(M.hy_cmd() + argv, input=stdin if stdin is not None else "", env=M.sub_env(), cwd=d, capture_output=True, text=True, timeout=600)
    return dict(rc=p.returncode, stdout=p.stdout, stderr=p.stderr, cmd=argv, file=fname, abspath=os.path.join(d, fname))


def judge_mode(prog, args, mode, r):
    import json
    import os
    import re
    from mc.ref import rc_cli_ref as C
    argv0, lines, status, err = C.expected_run(prog, mode, args, r["file"], r["abspath"])
    problems = []
    ctx = "hy %s%s\nexit status %r\nstdout: %r\nstderr (tail): %s" % (" ".join(map(repr, r["cmd"])), "  (program on stdin)" if mode == "stdin" else "",
                                                                      r["rc"], r["stdout"][-400:], r["stderr"][-700:])
    where = dict(mode=mode, prog=prog, nargs=str(len(args)))
    out_lines = r["stdout"].splitlines()
    header = None
    if out_lines:
        try:
            header = json.loads(out_lines[0])
        except ValueError:
            header = None
    tb = [l for l in r["stderr"].strip().splitlines() if l.strip()]
    last = tb[-1].strip() if tb else ""
    m = re.match(r"^([A-Za-z_][\w.]*)(?::\s*(.*))?$", last)
    exc = m.group(1).split(".")[-1] if m else ""
    msg = (m.group(2) or "") if m else last
    own_error = err is not None and err in r["stderr"]
    if header is None or (r["rc"] != status and not own_error):
        frames = re.findall(r'File "[^"]*", line \d+, in (\S+)', r["stderr"])
        problems.append(dict(kind="cli-run-crashed", sig="b:crash:%s:%s:%s" % (mode, exc or "exit-%s" % r["rc"], msg[:40]), exc=exc or "exit-%s" % r["rc"], msg=msg[:80],
                             frame=frames[-1] if frames else "", detail="the program did not run as expected\n" + ctx, **where))
        return problems
    argv, name = header
    if argv[1:] != list(args):
        problems.append(dict(kind="cli-program-arguments-wrong", sig="b:args:%s" % mode, detail="sys.argv[1:] == %r, expected %r\n%s" % (argv[1:], list(args), ctx), **where))
    elif mode == "m":
        if os.path.realpath(argv[0]) != os.path.realpath(argv0):
            problems.append(dict(kind="cli-argv0-wrong", sig="b:argv0:m", detail="sys.argv[0] == %r, expected the module's file %r\n%s" % (argv[0], argv0, ctx), **where))
    elif mode == "file":
        # "argv[0] is the script name (it is operating system dependent whether this is a full pathname or not)" — Python's sys.argv docs
        if argv[0] != argv0 and os.path.realpath(argv[0]) != os.path.realpath(r["abspath"]):
            problems.append(dict(kind="cli-argv0-wrong", sig="b:argv0:file", detail="sys.argv[0] == %r, expected the script name %r (or its full path)\n%s" % (argv[0], argv0, ctx), **where))
    elif argv[0] != argv0:
        problems.append(dict(kind="cli-argv0-wrong", sig="b:argv0:%s" % mode, detail="sys.argv[0] == %r, expected %r\n%s" % (argv[0], argv0, ctx), **where))
    if name != "__main__":
        problems.append(dict(kind="cli-program-not-run-as-main", sig="b:name:%s" % mode, detail="__name__ == %r\n%s" % (name, ctx), **where))
    if out_lines[1:] != lines:
        problems.append(dict(kind="cli-output-differs-between-modes", sig="b:stdout:%s:%s" % (mode, prog), detail="stdout after the header %r, expected %r\n%s" % (out_lines[1:], lines, ctx), **where))
    if r["rc"] != status:
        problems.append(dict(kind="cli-exit-status-differs-between-modes", sig="b:status:%s:%s" % (mode, prog), got=str(r["rc"]), expected=str(status),
                             detail="exit status %r, expected %r\n%s" % (r["rc"], status, ctx), **where))
    if err is not None and err not in r["stderr"]:
        problems.append(dict(kind="cli-exception-not-reported", sig="b:stderr:%s" % mode, detail="stderr lacks %r\n%s" % (err, ctx), **where))
    return problems


def _b_case(acc, prog, args):
    from mc.ref import rc_cli_ref as C
    for mode in C.MODES:
        r = run_mode(prog, args, mode)
        problems = judge_mode(prog, args, mode, r)
        acc.states += 1
        acc.transitions += 1
        acc.traces += 1
        acc.evaluations += 1
        if any(a.startswith("-") for a in args):
            acc.nontrivial += 1
        acc.outcome("b:%s:%s:%s" % (mode, prog, "agree" if not problems else problems[0]["kind"]))
        for p in problems:
            p = dict(p)
            acc.disagree(p.pop("kind"), {"part": "b", "prog": prog, "args": list(args), "mode": mode}, p.pop("detail"), sig=p.pop("sig"), **p)
    acc.sample({"program": C.PROGRAMS[prog][0], "trailing": list(args)})


# ------------------------------------------------------------------ contract

def _run_shard_main(shard, tier):
    from mc import enumer
    from mc.ref import rc_cli_ref as C
    acc = Acc()
    if shard[0] == "a":
        for idx, toks in enumer.iter_strings(C.ALPHA, shard[1], shard[2], BOUNDS[tier]["n"]):
            for tty in (True, False):
                _a_case(acc, toks, tty)
            if idx % 14999 == 0:
                acc.sample({"argv": list(toks), "reference": C.parse(list(toks), False)})
    else:
        for prog, args in _b_cases(tier)[shard[1]:shard[2]]:
            _b_case(acc, prog, args)
    return acc.result()


def _recheck_main(case, tier):
    from mc.ref import rc_cli_ref as C
    if case["part"] == "a":
        ref = C.parse(list(case["argv"]), case["tty"])
        return judge_argv(case["argv"], case["tty"], ref, observe_argv(case["argv"], case["tty"]))[0]
    r = run_mode(case["prog"], case["args"], case["mode"])
    return judge_mode(case["prog"], case["args"], case["mode"], r)


def snippet(d):
    from mc.ref import rc_cli_ref as C
    c = d["case"]
    if c["part"] == "a":
        return ("# in a directory where the script-like tokens exist as files:\n"
                f"import subprocess, sys; print(subprocess.run([sys.executable, '-m', 'hy'] + {c['argv']!r}, capture_output=True, text=True, input='(print \"from stdin\")'))\n"
                f"# reference (CPython-style parse): {C.parse(list(c['argv']), c['tty'])!r}\n")
    argv, stdin = C.command_line(c["prog"], c["mode"], c["args"], "rc_prog.hy", "rc-prog")
    return ("import subprocess, sys\n"
            f"open('rc_prog.hy', 'w').write({C.PROGRAMS[c['prog']][0]!r})\n"
            f"p = subprocess.run([sys.executable, '-m', 'hy'] + {argv!r}, input={stdin!r}, capture_output=True, text=True)\n"
            "print(p.returncode, p.stdout, p.stderr[-500:])\n"
            "# C41: same stdout and exit status as under the other modes; sys.argv[1:] are the trailing arguments\n")


# ------------------------------------------------------------------ the empty program (and a comment-only one) in every mode
EMPTY_PROGRAMS = {"empty": "", "blank": " \n", "comment": "; nothing\n"}
EMPTY_ARGS = [[], ["alpha"], ["alpha", "--spy", "-i"], ["-"], ["-c", "x"]]


def shards(tier):
    return list(_shards_main(tier)) + [["empty-program", k] for k in EMPTY_PROGRAMS]


def _empty_case(acc, name, args, mode):
    import os
    import subprocess
    from mc.ref import rc_modload as M
    src = EMPTY_PROGRAMS[name]
    d = _b_dir()
    fname = "rc_empty_%s.hy" % name
    M.write(os.path.join(d, fname), src)
    if mode == "c":
        argv, stdin = ["-c", src] + list(args), None
    elif mode == "file":
        argv, stdin = [fname] + list(args), None
    elif mode == "stdin":
        argv, stdin = ["-"] + list(args), src
    else:
        argv, stdin = ["-m", "rc-empty-%s" % name] + list(args), None
    p = subprocess.run(M.hy_cmd() + argv, input=stdin if stdin is not None else "this text on stdin must not be run\n(print 99)\n",
                       env=M.sub_env(), cwd=d, capture_output=True, text=True, timeout=600)
    acc.states += 1
    acc.transitions += 1
    acc.traces += 1
    acc.evaluations += 1
    acc.nontrivial += 1
    ok = p.returncode == 0 and p.stdout == ""
    acc.outcome("empty:%s:%s" % (mode, "agree" if ok else "DIFFERS"))
    if not ok:
        acc.disagree("cli-empty-program-differs-between-modes", {"part": "empty", "name": name, "args": list(args), "mode": mode},
                     "hy %s: exit status %r, stdout %r (an empty program must print nothing and exit 0 in every mode); stderr tail: %s"
                     % (" ".join(map(repr, argv)), p.returncode, p.stdout[-200:], p.stderr[-300:]), sig="empty:%s" % mode, mode=mode)


def run_shard(shard, tier):
    if shard[0] == "empty-program":
        from mc.ref import rc_cli_ref as C
        acc = Acc()
        for args in EMPTY_ARGS:
            for mode in C.MODES:
                _empty_case(acc, shard[1], args, mode)
        acc.sample({"program": EMPTY_PROGRAMS[shard[1]], "trailing": EMPTY_ARGS[2]})
        return acc.result()
    return _run_shard_main(shard, tier)


def recheck(case, tier):
    if case.get("part") == "empty":
        acc = Acc()
        _empty_case(acc, case["name"], case["args"], case["mode"])
        return acc.disagreements
    return _recheck_main(case, tier)
