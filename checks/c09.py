"""C09  try/except/else/finally and with behave correctly at every raise point.

Space: every try / with shape (0-2 handlers over typed, tuple, bare, with
variable; optional else; optional finally; 1-2 context managers, suppressing
or not) with every other shape nested in every slot (body, handler, else,
finally, with-body) up to depth d; every effect point numbered (context
manager construction / __enter__ / __exit__ are effect points too); each
program compiled ONCE by the real compiler and then executed under EVERY fault
plan of size 0, 1 and 2 (a fault makes that point raise ValueError, KeyError or
a BaseException subclass).
Oracle: the same term executed by a reference evaluator written with Python's
own try / with statements: exact effect trace (which clauses ran, finally
exactly once), escaping exception type, value (try: last form among
body/handler/else; with: body value or None when suppressed), except variable
bound to the exception inside its handler, and the same-named outer variable
`e` unchanged afterwards.
"""
import itertools

from mc.util import Acc

ID = "C09"
ENGINE = "E2-history"
TECHNIQUE = "exhaustive enumeration of try/with nestings x exhaustive fault plans (every single fault and every pair) executed on code from the real compiler, compared step by step with a reference evaluator built on Python's own try/with"
LEVEL_TEXT = ("Every try/with nesting up to the depth bound is compiled once with the real compiler and run under every single and "
              "double fault plan over its effect points (including context-manager construction/enter/exit); trace, escaping exception "
              "type, value and the outer variable named like the except variable are compared with a reference evaluator that uses "
              "Python's own try/with. Exhaustive within the bounds (fault_enumeration in the model-checking sense: all raise points, all pairs).")
RULE = ("shapes enumerated in a fixed order, nested by substitution into every slot; fault plans: none, every (point, exception type), every "
        "pair of points with types from {ValueError, KeyError}; a case = (program, context, plan); non-trivial = the plan's first fault is actually "
        "reached in the reference run (so a handler/finally/__exit__ decision is exercised), counted per distinct (program, plan)")
ASSUMPTIONS = [
    "exception types ValueError, KeyError and one BaseException subclass; handlers over ValueError/KeyError/tuple/bare/with-variable",
    "no loops, so every effect point runs at most once per execution",
    "the order of clauses is fully documented (Python's), so traces are compared exactly",
]

TIME_CAP = {"quick": 900, "thorough": 5400}

# ---------------------------------------------------------------- shapes
# handler kinds: V [ValueError]  K [KeyError]  T [[ValueError KeyError]]  B []  E [e ValueError]
KINDS = ["V", "K", "T", "B", "E"]


def handler_lists(full):
    out = [()]
    ks = KINDS if full else ["V", "E", "B"]
    for k in ks:
        out.append((k,))
    if full:
        for a in KINDS:
            if a == "B":
                continue        # a bare except must be last (Python: SyntaxError otherwise)
            for b in KINDS:
                out.append((a, b))
    else:
        out.append(("K", "V"))
    return out


def try_shapes(full):
    """(handlers, has_else, has_finally)"""
    out = []
    for hs in handler_lists(full):
        for el in ((False, True) if hs else (False,)):
            for fin in (False, True):
                if not hs and not fin:
                    continue
                out.append(("try", hs, el, fin))
    return out


def with_shapes(full):
    """managers: tuple of suppress flags; a flag may also be "Ts"/"Fs" = the manager EXPRESSION is statement-producing,
    (do (setv z (mk i)) (cm i s)) with `mk` a logged effect, which makes the compiler nest a second `with` statement."""
    one = [((s,),) for s in (False, True)]
    two = [((a, b),) for a in (False, True) for b in (False, True)]
    stm = [((False, "Fs"),), ((True, "Ts"),), (("Fs", False),)]
    shapes = one + (two + stm if full else [((False, True),), ((False, "Fs"),)])
    return [("with", s[0]) for s in shapes]


def shapes(full):
    return try_shapes(full) + with_shapes(full)


def slots_of(shape):
    if shape[0] == "try":
        _, hs, el, fin = shape
        s = ["body", "body+pt"]
        s += [f"h{i}" for i in range(len(hs))]
        s += [f"h{i}+pt" for i in range(len(hs))]
        if el:
            s.append("else")
        if fin:
            s.append("finally")
        return s
    return ["body", "body+pt"]


# a program is a nested structure: ("try", hs, el, fin, {slot: sub}) / ("with", sups, {slot: sub}); sub = None -> plain point
def programs(depth, full_outer, full_inner):
    """All nestings of exactly the given depth (1 = a single construct)."""
    if depth == 1:
        for sh in shapes(full_outer):
            yield sh + ({},)
        return
    for sh in shapes(full_outer):
        for slot in slots_of(sh):
            for sub in programs(depth - 1, full_inner, full_inner):
                yield sh + ({slot: sub},)


# ---------------------------------------------------------------- numbering + rendering + reference evaluation
class Numbered:
    """Assigns point ids in a deterministic pre-order walk and produces both the Hy text and a closure-free tree for the reference evaluator."""

    def __init__(self, prog):
        self.n = itertools.count(1)
        self.points = []
        self.tree = self._num(prog)

    def _pt(self):
        i = next(self.n)
        self.points.append(("pt", i))
        return ("pt", i)

    def _fill(self, subs, slot):
        sub = subs.get(slot)
        if slot + "+pt" in subs and slot != "body":
            return ("seq", self._num(subs[slot + "+pt"]), self._pt())
        if slot == "body":
            if "body+pt" in subs:
                return ("seq", self._num(subs["body+pt"]), self._pt())
            return self._num(sub) if sub is not None else self._pt()
        return self._num(sub) if sub is not None else self._pt()

    def _num(self, prog):
        if prog[0] == "try":
            _, hs, el, fin, subs = prog
            body = self._fill(subs, "body")
            handlers = []
            for i, k in enumerate(hs):
                note = None
                if k == "E":
                    note = next(self.n)
                handlers.append((k, note, self._fill(subs, f"h{i}")))
            orelse = self._fill(subs, "else") if el else None
            final = self._fill(subs, "finally") if fin else None
            return ("try", body, tuple(handlers), orelse, final)
        _, sups, subs = prog
        mgrs = []
        for s in sups:
            i = next(self.n)
            for ph in ("new", "enter", "exit"):
                self.points.append(("cm", i, ph))
            mgrs.append((i, s in (True, "Ts"), s in ("Ts", "Fs")))
        return ("with", tuple(mgrs), self._fill(subs, "body"))


def render(t):
    if t[0] == "pt":
        return f"(pt {t[1]} e)"
    if t[0] == "seq":
        return f"{render(t[1])} {render(t[2])}"
    if t[0] == "try":
        _, body, handlers, orelse, final = t
        parts = [render(body)]
        for k, note, h in handlers:
            spec = {"V": "[ValueError]", "K": "[KeyError]", "T": "[[ValueError KeyError]]", "B": "[]", "E": "[e ValueError]"}[k]
            pre = f"(pte {note} e) " if k == "E" else ""
            parts.append(f"(except {spec} {pre}{render(h)})")
        if orelse is not None:
            parts.append(f"(else {render(orelse)})")
        if final is not None:
            parts.append(f"(finally {render(final)})")
        return "(try " + " ".join(parts) + ")"
    _, mgrs, body = t

    def mexpr(i, s, st):
        return f"(do (setv z (mk {i})) (cm {i} {s}))" if st else f"(cm {i} {s})"
    if len(mgrs) == 1:
        spec = mexpr(*mgrs[0])
    else:
        spec = " ".join(f"_ {mexpr(i, s, st)}" for i, s, st in mgrs)
    return f"(with [{spec}] {render(body)})"


class Boom(BaseException):
    pass


EXC = {"V": ValueError, "K": KeyError, "X": Boom}


class World:
    """Effect points shared by the implementation run and the reference run (separate instances)."""

    def __init__(self, plan):
        self.plan = plan
        self.log = []
        self.hit = 0
        w = self

        def pt(i, e="<no-e>"):
            # every effect point also reads the variable `e`: the except variable inside an `[e ValueError]`
            # handler, the same-named outer variable ("outer") everywhere else
            w.log.append(("pt", i, type(e).__name__))
            w._maybe(("pt", i))
            return i

        def pte(i, e):
            w.log.append(("pte", i, type(e).__name__))
            return None

        class cm:
            def __init__(s, i, sup):
                s.i, s.sup = i, sup
                w.log.append(("cm", i, "new"))
                w._maybe(("cm", i, "new"))

            def __enter__(s):
                w.log.append(("cm", s.i, "enter"))
                w._maybe(("cm", s.i, "enter"))
                return s.i

            def __exit__(s, et, ev, tb):
                w.log.append(("cm", s.i, "exit", None if et is None else et.__name__))
                w._maybe(("cm", s.i, "exit"))
                return s.sup
        def mk(i):
            # the statement part of a statement-producing manager expression: logged, never faulted
            w.log.append(("mk", i))
            return i
        self.pt, self.pte, self.cm, self.mk = pt, pte, cm, mk

    def _maybe(self, key):
        k = self.plan.get(key)
        if k is not None:
            self.hit += 1
            raise EXC[k]()


def ref_eval(t, w, e="outer"):
    """Python's own semantics.  `e` is the value the Hy variable `e` has at this point."""
    if t[0] == "pt":
        return w.pt(t[1], e)
    if t[0] == "seq":
        ref_eval(t[1], w, e)
        return ref_eval(t[2], w, e)
    if t[0] == "try":
        _, body, handlers, orelse, final = t
        try:
            try:
                v = ref_eval(body, w, e)
            except BaseException as ex:
                for k, note, h in handlers:
                    if (k == "B" or (k in ("V", "E") and isinstance(ex, ValueError)) or (k == "K" and isinstance(ex, KeyError))
                            or (k == "T" and isinstance(ex, (ValueError, KeyError)))):
                        if k == "E":
                            w.pte(note, ex)
                        v = ref_eval(h, w, ex if k == "E" else e)
                        break
                else:
                    raise
            else:
                if orelse is not None:
                    v = ref_eval(orelse, w, e)
        finally:
            if final is not None:
                ref_eval(final, w, e)
        return v
    _, mgrs, body = t

    def nest(ms):
        if not ms:
            return ref_eval(body, w, e)
        i, sup, st = ms[0]
        if st:
            w.mk(i)
        c = w.cm(i, sup)
        v = None
        with c:
            v = nest(ms[1:])
        return v
    # Python evaluates `with A, B:` as nested with statements: B is constructed after A is entered
    return nest(list(mgrs))


CONTEXTS = ("module", "function")


def wrap(text, ctx):
    if ctx == "module":
        return f'(setv e "outer")\n(setv r {text})'
    return f'(defn g [] (setv e "outer") (setv r {text}) [r e])\n(setv out (g))'


def plans(points, pairs=True):
    yield {}
    for p in points:
        for k in ("V", "K", "X"):
            yield {p: k}
    if pairs:
        for a, b in itertools.combinations(points, 2):
            for ka in ("V", "K"):
                for kb in ("V", "K"):
                    yield {a: ka, b: kb}


# ---------------------------------------------------------------- spaces
BOUNDS = {
    "quick": dict(levels=[(1, True, True), (2, True, False)], shards=96),
    "thorough": dict(levels=[(1, True, True), (2, True, True), (3, False, False)], shards=1024),
}


def bounds(tier):
    return {"levels(depth, full_outer_shapes, full_inner_shapes)": BOUNDS[tier]["levels"],
            "handler_kinds": KINDS, "exceptions": ["ValueError", "KeyError", "BaseException subclass"],
            "fault_plans": "none + every single (point x 3 types) + every pair (points x {ValueError,KeyError}^2)",
            "contexts": list(CONTEXTS)}


_PROGS = {}


def _all_programs(tier):
    if tier not in _PROGS:
        out = []
        for d, fo, fi in BOUNDS[tier]["levels"]:
            out.extend(programs(d, fo, fi))
        _PROGS[tier] = out
    return _PROGS[tier]


def shards(tier):
    n = len(_all_programs(tier))
    s = BOUNDS[tier]["shards"]
    step = -(-n // s)
    return [[lo, min(n, lo + step)] for lo in range(0, n, step)]


def _jsonable(prog):
    if prog[0] == "try":
        return ["try", list(prog[1]), prog[2], prog[3], {k: _jsonable(v) for k, v in prog[4].items()}]
    return ["with", list(prog[1]), {k: _jsonable(v) for k, v in prog[2].items()}]


def _unjson(p):
    if p[0] == "try":
        return ("try", tuple(p[1]), p[2], p[3], {k: _unjson(v) for k, v in p[4].items()})
    return ("with", tuple(p[1]), {k: _unjson(v) for k, v in p[2].items()})


def _planstr(plan):
    return sorted(("/".join(map(str, k)), v) for k, v in plan.items())


def check_program(acc, prog, only=None, sample=False):
    from mc import hyside
    num = Numbered(prog)
    text = render(num.tree)
    for ctx in CONTEXTS:
        if only and only["ctx"] != ctx:
            continue
        full = wrap(text, ctx)
        case0 = {"prog": _jsonable(prog), "ctx": ctx, "text": full}
        acc.states += 1
        acc.evaluations += 1
        mod = hyside.fresh_module()
        try:
            code = compile(hyside.compile_text(full, mod), "<case>", "exec")
        except BaseException as ex:
            acc.outcome("compile-error")
            acc.disagree("compile-failed", case0, f"{type(ex).__name__}: {ex}", sig="compile:" + _sig(prog), exc=type(ex).__name__)
            continue
        if sample and ctx == "module":
            acc.sample({"hy": full, "points": [list(p) for p in num.points]})
        reported = set()
        for plan in plans(num.points):
            if only and _planstr(plan) != only["plan"]:
                continue
            # reference
            rw = World(plan)
            try:
                rv = ("val", repr(ref_eval(num.tree, rw, "outer")))
            except BaseException as ex:
                rv = ("exc", type(ex).__name__)
            # implementation
            iw = World(plan)
            g = {"pt": iw.pt, "pte": iw.pte, "cm": iw.cm, "mk": iw.mk, "__name__": mod.__name__}
            try:
                exec(code, g)
                if ctx == "module":
                    iv = ("val", repr(g.get("r")))
                else:
                    iv = ("val", repr(g["out"][0]))
                    outer = g["out"][1]
            except BaseException as ex:
                iv = ("exc", type(ex).__name__)
                outer = None
            if ctx == "module":
                outer = g.get("e", "<unbound>")
            acc.transitions += len(iw.log) + 1
            acc.traces += 1
            if plan and rw.hit:
                acc.nontrivial += 1
            acc.outcome(rv[0] + ":" + (rv[1] if rv[0] == "exc" else "v") + (":faulted" if rw.hit else ""))
            kind = None
            if iv != rv:
                kind, detail = "wrong-outcome", f"reference {rv} implementation {iv}; ref trace {rw.log} impl trace {iw.log}"
            elif iw.log != rw.log:
                kind, detail = "wrong-clause-trace", f"reference trace {rw.log} implementation trace {iw.log}"
            elif outer is not None and outer != "outer":
                kind, detail = "except-variable-clobbered-outer", f"outer variable e is {outer!r} after the form"
            if kind:
                tag = _tag(num.tree, plan, rv, iv, rw.log == iw.log)
                if (kind, tag) not in reported:
                    reported.add((kind, tag))
                    acc.disagree(kind, dict(case0, plan=_planstr(plan)), detail, sig=kind + ":" + tag + ":" + _sig(prog),
                                 shape=_sig(prog), tag=tag)


def _later_managers(t, acc=None):
    """ids of context managers that are not the first manager of their `with` form"""
    if acc is None:
        acc = set()
    if t[0] == "with":
        for i, _s, _st in t[1][1:]:
            acc.add(i)
        _later_managers(t[2], acc)
    elif t[0] == "seq":
        _later_managers(t[1], acc)
        _later_managers(t[2], acc)
    elif t[0] == "try":
        _later_managers(t[1], acc)
        for _k, _n, h in t[2]:
            _later_managers(h, acc)
        for x in t[3:5]:
            if x is not None:
                _later_managers(x, acc)
    return acc


def _tag(tree, plan, rv, iv, same_trace):
    """Structural class of a disagreement (for narrow known-finding matchers)."""
    later = _later_managers(tree)
    if (same_trace and rv == ("val", "None") and iv[0] == "val"
            and any(k[0] == "cm" and k[2] == "exit" and k[1] in later for k in plan)):
        return "body-value-kept-when-later-managers-exit-raises-and-earlier-manager-suppresses"
    return "other"


def _sig(prog):
    if prog[0] == "try":
        inner = ",".join(f"{k}={_sig(v)}" for k, v in prog[4].items())
        return f"try[{''.join(prog[1])}{'e' if prog[2] else ''}{'f' if prog[3] else ''}]" + (f"({inner})" if inner else "")
    inner = ",".join(f"{k}={_sig(v)}" for k, v in prog[2].items())
    return f"with[{''.join(str(s)[0].lower() + ('S' if isinstance(s, str) else '') for s in prog[1])}]" + (f"({inner})" if inner else "")


def run_shard(shard, tier):
    acc = Acc()
    lo, hi = shard
    progs = _all_programs(tier)
    for idx in range(lo, hi):
        check_program(acc, progs[idx], sample=(idx % 331 == 0))
    return acc.result()


def recheck(case, tier):
    acc = Acc()
    check_program(acc, _unjson(case["prog"]), only={"ctx": case["ctx"], "plan": [tuple(p) for p in case.get("plan", [])]})
    return acc.disagreements


def snippet(d):
    c = d["case"]
    return ("# effect points: pt(i) logs and may raise according to PLAN; cm(i, suppress) is a context manager whose\n"
            "# construction/__enter__/__exit__ are effect points\n"
            f"PLAN = {c.get('plan')!r}\nTEXT = {c['text']!r}\n"
            "# run TEXT with hy.eval(hy.read_many(TEXT), {...helpers...}) and compare with Python's own try/with: " + repr(d["detail"][:300]) + "\n")
