"""C35  Macro lookup and require follow the documented namespaces.

Space (E2): every history of <= k operations over
  def X            (defmacro X [#* a] K)        K distinct per history position
  enter S / leave  open / close a function, class or comprehension form
                   (thorough: also a `fn`, a `gfor`, and a `for`, which the
                   documentation says is NOT a scope)
  req H shape      (require H) | (require H :as P) | (require H *) |
                   (require H [X]) | (require H [X :as Y]) | :macros variants
                   for two generated helper modules (one relying on the
                   underscore rule, one with an explicit _hy_export_macros)
  prag v           (pragma :warn-on-core-shadow v)
  evalm X          (hy.eval MODEL :macros {"X" ...}) at this point; MODEL calls
                   every name at its top level, inside a function that defines
                   a local X, and inside a function that defines another local
with X, Y in {m, n, when}.  A history is rendered as ONE program (operations
are compile-time and scoped, they cannot be stepped one call at a time) and is
followed, at every scope level still open and then at every enclosing level
after closing it, by a call of every name (direct, and through hy.eval without
`macros`).  Each history runs in a fresh module object.
Oracle: mc/ref/mac_ns.py (dict-chain namespace model).
"""
import json
import os

from mc.util import Acc

ID = "C35"
ENGINE = "E2-history"
TECHNIQUE = ("explicit-state exploration of every operation history up to depth k (defmacro / scope enter+leave / require shapes / pragma / "
             "hy.eval :macros), each rendered as one program, compiled and run by the real hy in a fresh module and compared with a "
             "dict-chain namespace reference model (expansion of every name at every scope level, module macro table, warnings)")
LEVEL_TEXT = ("Every history of at most k operations over the listed alphabet is executed on the real compiler; after it every name is "
              "called at every scope level (directly and through hy.eval) and the expansion chosen, the names present in the module's "
              "_hy_macros and the number of core-shadow warnings are compared with the reference namespace model. Exhaustive within "
              "the alphabet and depth, so an ordering / scope-popping / prefix / export-filter / pragma-scope error that needs up to k "
              "interacting operations is found, not sampled.")
RULE = ("histories enumerated breadth-first (shortest first, operations in alphabet order); `leave` is enabled only inside a scope; one case = one "
        "history, all distinct; non-trivial = at least one probed name is defined in >= 2 layers of the lookup chain at some probe point "
        "(shadowing actually decides the answer) or a warning decision depends on a pragma; states = distinct canonical namespace states "
        "(tables + pragma per scope, definition constants replaced by rank) reached, counted by a pruned BFS of the model in the `graph` shard")
ASSUMPTIONS = [
    "names m, n, when (core) plus the helper-only name _p; two helper modules; scope forms as listed; depth bound as stated",
    "UNSPECIFIED (accepted either way, counted): whether (require M) / (require M :as P) also bring in macros that `*` would not collect "
    "(underscore names, names missing from _hy_export_macros): api.rst says 'every macro', the property says 'honouring _hy_export_macros'",
    "UNSPECIFIED (accepted either way, counted): what a hy.eval executed in the middle of a program sees of module macros that are defined "
    "only by LATER top-level forms of the same compilation unit (compile-time definitions of the whole unit precede its run time)",
    "the whole history is one compilation unit (hy.eval of hy.read_many), as a module file would be; module-level pragma persists to its end",
    "lookup through class scopes is lexical (a function inside a class sees the class's local macros), as the property's 'innermost to outermost' says",
    "warnings are compared by number of RuntimeWarnings per history (the history one operation shorter is also in the space, so the delta pins the operation)",
]

NAMES = ["m", "n", "when"]
HELPERS = {
    "mch_a": {"macros": {"m": "A.m", "n": "A.n", "when": "A.when", "_p": "A._p"}, "exports": None},
    "mch_b": {"macros": {"m": "B.m", "n": "B.n", "_p": "B._p"}, "exports": ["m", "_p"]},
}
HELPER_SRC = {
    "mch_a": ('(pragma :warn-on-core-shadow False)\n(defmacro m [#* a] "A.m")\n(defmacro n [#* a] "A.n")\n'
              '(defmacro when [#* a] "A.when")\n(defmacro _p [#* a] "A._p")\n'),
    "mch_b": ('(defmacro m [#* a] "B.m")\n(defmacro n [#* a] "B.n")\n(defmacro _p [#* a] "B._p")\n(export :macros [m _p])\n'),
}


def _req(h, shape, payload=None, kw=False):
    return ["req", h, shape, payload, kw]


def _alphabet(level):
    """level 0 = tiny, 1 = core, 2 = full, 3 = extended."""
    ops = [["def", "m"], ["def", "when"]]
    if level >= 1:
        ops.append(["def", "n"])
    ops += [["enter", "defn"], ["enter", "defclass"]]
    if level >= 1:
        ops.append(["enter", "lfor"])
    if level >= 3:
        ops += [["enter", "fn"], ["enter", "gfor"], ["enter", "for"]]
    ops.append(["leave"])
    ops.append(["prag", False])
    if level >= 1:
        ops.append(["prag", True])
    ops.append(["evalm", "when"])
    if level >= 1:
        ops.append(["evalm", "m"])
    if level >= 3:
        ops.append(["evalm", "n"])
    # require shapes
    ops += [_req("mch_a", "star"), _req("mch_a", "as", "P")]
    if level >= 1:
        ops += [_req("mch_a", "bare"), _req("mch_a", "names", [["when", "when"]]), _req("mch_a", "names", [["m", "when"]]),
                _req("mch_a", "names", [["n", "m"]]),
                _req("mch_b", "bare"), _req("mch_b", "star"), _req("mch_b", "names", [["m", "m"]]), _req("mch_b", "as", "P")]
    if level >= 2:
        ops += [_req("mch_a", "names", [["m", "m"]]),
                _req("mch_a", "names", [["when", "m"]]), _req("mch_a", "names", [["m", "n"]]),
                _req("mch_a", "names", [["m", "m"]], True),
                _req("mch_b", "names", [["n", "when"]]), _req("mch_b", "names", [["m", "n"]])]
    if level >= 3:
        ops += [_req("mch_a", "names", [["n", "n"]]), _req("mch_a", "star", None, True), _req("mch_b", "names", [["n", "n"]]),
                _req("mch_a", "names", [["n", "when"]]), _req("mch_a", "names", [["when", "n"]]),
                _req("mch_a", "names", [["m", "m"], ["n", "when"]]), _req("mch_a", "as", "P", True),
                _req("mch_b", "names", [["n", "m"]]), _req("mch_b", "names", [["m", "when"]]), _req("mch_b", "names", [["_p", "m"]])]
    return ops


# runs: (alphabet level, depth).  Histories already covered by an earlier run of the tier are not repeated.
BOUNDS = {
    "quick": dict(runs=[(2, 3), (0, 4)]),
    "thorough": dict(runs=[(3, 3), (1, 4), (0, 5)]),
}
TIME_CAP = {"quick": 900, "thorough": 3000}


def bounds(tier):
    return {"runs": [{"alphabet": [_opname(o) for o in _alphabet(lv)], "max_history_length": k} for lv, k in BOUNDS[tier]["runs"]],
            "names": NAMES + ["_p"], "helpers": HELPERS,
            "probes": "after the history, at every open scope level and after closing each: direct calls of m n when _p and of every prefixed name in use; (hy.eval MODEL) of m n when"}


def _opname(op):
    if op[0] == "req":
        _, h, shape, payload, kw = op
        return _req_text(h, shape, payload, kw)
    return " ".join(str(x) for x in op)


def _enabled(op, depth):
    return depth > 0 if op[0] == "leave" else True


def _depth_after(op, depth):
    return depth + 1 if op[0] == "enter" else depth - 1 if op[0] == "leave" else depth


def shards(tier):
    out = [["graph", 0]]
    for ri, (lv, k) in enumerate(BOUNDS[tier]["runs"]):
        alpha = _alphabet(lv)
        out.append(["short", ri])
        if k >= 2:
            for i, a in enumerate(alpha):
                if not _enabled(a, 0):
                    continue
                d1 = _depth_after(a, 0)
                for j, b in enumerate(alpha):
                    if _enabled(b, d1):
                        out.append(["pre", ri, i, j])
    return out


def _extensions(alpha, prefix, depth, k):
    """All histories extending `prefix` (inclusive) up to length k, breadth-first order within the shard."""
    frontier = [(tuple(prefix), depth)]
    while frontier:
        nxt = []
        for h, d in frontier:
            yield h
            if len(h) < k:
                for op in alpha:
                    if _enabled(op, d):
                        nxt.append((h + (op,), _depth_after(op, d)))
        frontier = nxt


def _key(history):
    return json.dumps(history, separators=(",", ":"))


def _covered_earlier(tier, ri, history):
    """Was this history already part of an earlier run of the tier?"""
    for lv, k in BOUNDS[tier]["runs"][:ri]:
        if len(history) <= k:
            names = _ALPHA_KEYS.setdefault(lv, {_key(o) for o in _alphabet(lv)})
            if all(_key(o) in names for o in history):
                return True
    return False


_ALPHA_KEYS = {}


# ------------------------------------------------------------------ rendering

def _req_text(h, shape, payload, kw):
    k = ":macros " if kw else ""
    if shape == "bare":
        return f"(require {h})"
    if shape == "as":
        return f"(require {h} {k}:as {payload})"
    if shape == "star":
        return f"(require {h} {k}*)"
    inner = " ".join(x if x == y else f"{x} :as {y}" for x, y in payload)
    return f"(require {h} {k}[{inner}])"


OPEN = {"defn": "(defn f{i} []", "defclass": "(defclass C{i} []", "lfor": "(lfor _ [0] (do", "gfor": "(list (gfor _ [0] (do",
        "fn": "((fn []", "for": "(for [_ [0]]"}
CLOSE = {"defn": ") (f{i})", "defclass": ")", "lfor": "None))", "gfor": "None)))", "fn": "))", "for": "None)"}


def prefixes_in_use(history):
    out = []
    for op in history:
        if op[0] == "req" and op[2] in ("bare", "as"):
            p = op[1] if op[2] == "bare" else op[3]
            if p not in out:
                out.append(p)
    return out


def probe_names(history):
    names = NAMES + ["_p"]
    for p in prefixes_in_use(history):
        names += [f"{p}.{x}" for x in ("m", "n", "when", "_p")]
    return names


def _call(name):
    return f"({name} 1 -1)" if name == "when" else f"({name})"


def render(history):
    names = probe_names(history)
    lines = []
    stack = []
    for i, op in enumerate(history):
        ind = "  " * len(stack)
        if op[0] == "def":
            lines.append(f"{ind}(defmacro {op[1]} [#* a] {100 + i})")
        elif op[0] == "enter":
            lines.append(ind + OPEN[op[1]].format(i=i))
            stack.append((op[1], i))
        elif op[0] == "leave":
            kind, j = stack.pop()
            lines.append("  " * len(stack) + CLOSE[kind].format(i=j))
        elif op[0] == "prag":
            lines.append(f"{ind}(pragma :warn-on-core-shadow {'True' if op[1] else 'False'})")
        elif op[0] == "req":
            lines.append(ind + _req_text(*op[1:]))
        elif op[0] == "evalm":
            lines.append(f'{ind}(rec "e{i}" (hy.eval QE_{op[1]} :macros {{"{op[1]}" (mk "E.{op[1]}")}}))')
        else:
            raise ValueError(op)
    calls = " ".join(_call(n) for n in names)
    while True:
        lvl = len(stack)
        ind = "  " * lvl
        lines.append(f'{ind}(rec "L{lvl}" [{calls}]) (rec "L{lvl}e" (hy.eval QP))')
        if not stack:
            break
        kind, j = stack.pop()
        lines.append("  " * len(stack) + CLOSE[kind].format(i=j))
    return "\n".join(lines) + "\n"


def _next_name(x):
    return NAMES[(NAMES.index(x) + 1) % len(NAMES)]


def qe_text(x):
    z = _next_name(x)
    calls = "(m) (n) (when 1 -1)"
    return (f'[{calls} ((fn [] (pragma :warn-on-core-shadow False) (defmacro {x} [#* a] "I1.{x}") [{calls}]))'
            f' ((fn [] (pragma :warn-on-core-shadow False) (defmacro {z} [#* a] "I2.{z}") [{calls}]))]')


QP_TEXT = "[(m) (n) (when 1 -1)]"


# ------------------------------------------------------------------ reference

def expected(history):
    """-> dict(records = {tag: nested list of (acceptable set, layer, layers)}, warnings = int, module = {name: alts},
               nontrivial = bool, unspecified = int, canon = ...)"""
    from mc.ref.mac_ns import Namespaces, ABSENT
    ns = Namespaces(HELPERS)
    evalms = []
    for i, op in enumerate(history):
        if op[0] == "def":
            ns.defmacro(op[1], 100 + i)
        elif op[0] == "enter":
            ns.enter(transparent=(op[1] == "for"))
        elif op[0] == "leave":
            ns.leave()
        elif op[0] == "prag":
            ns.pragma(op[1])
        elif op[0] == "req":
            ns.require(op[1], op[2], op[3])
        elif op[0] == "evalm":
            evalms.append((i, op[1], ns.snapshot_module()))
    canon = ns.canon()
    final_module = ns.snapshot_module()
    names = probe_names(history)
    records = {}
    nontrivial = False
    unspecified = 0

    def res(name, chain):
        nonlocal nontrivial, unspecified
        acc, layer, layers = ns.resolve(name, chain)
        if layers >= 2:
            nontrivial = True
        if len(acc) > 1:
            unspecified += 1
        return (acc, layer)

    # hy.eval operations in the middle of the history
    for i, x, seq_table in evalms:
        run_table = dict(final_module)
        run_table.update(seq_table)            # run-time view: later compile-time definitions are already there
        extras = {x: frozenset({"E." + x})}
        z = _next_name(x)
        inners = [None, {x: frozenset({"I1." + x})}, {z: frozenset({"I2." + z})}]
        rec = []
        for inner in inners:
            row = []
            for nm in NAMES:
                a1, l1 = ns.resolve(nm, ns.chain(extras, False, seq_table, [inner] if inner else []))[:2]
                a2, l2 = ns.resolve(nm, ns.chain(extras, False, run_table, [inner] if inner else []))[:2]
                if a1 != a2:
                    unspecified += 1
                row.append((a1 | a2, l1))
            rec.append(row)
        records[f"e{i}"] = rec[0] + [rec[1], rec[2]]
    # probes after the history
    while True:
        lvl = ns.depth()
        records[f"L{lvl}"] = [res(nm, ns.chain()) for nm in names]
        records[f"L{lvl}e"] = [res(nm, ns.chain(None, False)) for nm in NAMES]
        if not lvl:
            break
        ns.leave()
    if any(op[0] == "prag" for op in history) and any(
            (op[0] == "def" and op[1] == "when") or (op[0] == "req" and _brings_when(op)) for op in history):
        nontrivial = True
    module = {k: set(v) for k, v in final_module.items()}
    unspecified += sum(1 for v in module.values() if ABSENT in v)
    return dict(records=records, warnings=len(ns.warnings), module=module, nontrivial=nontrivial,
                unspecified=unspecified, canon=canon, names=names)


def _brings_when(op):
    _, h, shape, payload, kw = op
    if shape == "star":
        return "when" in HELPERS[h]["macros"] and HELPERS[h]["exports"] is None
    if shape == "names":
        return any(y == "when" for _, y in payload)
    return False


# ------------------------------------------------------------------ implementation side

_ENV = {}


def _setup():
    """Once per process: helper modules on disk (under MC_SCRATCH), imported
    (hence compiled) BEFORE any warning is recorded; snapshot of the core table."""
    if _ENV:
        return _ENV
    import builtins
    import importlib
    import sys
    import tempfile
    import hy
    root = os.environ.get("MC_SCRATCH") or tempfile.mkdtemp(prefix="hyverif-c35-")
    d = os.path.join(root, "c35_helpers_%d" % os.getpid())
    os.makedirs(d, exist_ok=True)
    for name, src in HELPER_SRC.items():
        with open(os.path.join(d, name + ".hy"), "w") as fh:
            fh.write(src)
    sys.path.insert(0, d)
    importlib.invalidate_caches()
    import warnings
    with warnings.catch_warnings():
        warnings.simplefilter("ignore")
        mods = {name: importlib.import_module(name) for name in HELPER_SRC}
    _ENV.update(hy=hy, mods=mods, core=dict(builtins._hy_macros),
                helper_tables={n: dict(m._hy_macros) for n, m in mods.items()},
                QP=hy.read(QP_TEXT), QE={x: hy.read(qe_text(x)) for x in NAMES}, n=0,
                QP_repr=None)
    _ENV["model_reprs"] = _model_reprs()
    return _ENV


def _model_reprs():
    hy = _ENV["hy"]
    return [hy.repr(_ENV["QP"])] + [hy.repr(_ENV["QE"][x]) for x in NAMES]


class _Prefix:
    """Stands for 'no macro of that dotted name': (P.m) then is an ordinary method call."""
    def __getattr__(self, k):
        if k.startswith("__"):
            raise AttributeError(k)
        return lambda *a: "fn"


def run_program(text):
    """Compile + run one program in a fresh module.  -> dict(records, warnings, exc, module, leaks)"""
    import builtins
    import sys
    import types
    import warnings
    env = _setup()
    hy = env["hy"]
    env["n"] += 1
    name = "mc35_case_%d" % env["n"]
    M = types.ModuleType(name)
    sys.modules[name] = M
    records = []
    M.rec = lambda tag, v: records.append((tag, v))
    for fn in ("m", "n", "when", "_p"):
        setattr(M, fn, lambda *a: "fn")
    for p in ("mch_a", "mch_b", "P"):
        setattr(M, p, _Prefix())
    M.mk = lambda k: (lambda *a: k)
    M.QP = env["QP"]
    for x in NAMES:
        setattr(M, "QE_" + x, env["QE"][x])
    exc = None
    with warnings.catch_warnings(record=True) as w:
        warnings.simplefilter("always")
        try:
            hy.eval(hy.read_many(text, filename="<c35>"), module=M)
        except BaseException as e:      # noqa: any failure is an observation
            exc = f"{type(e).__name__}: {str(e)[:300]}"
    module = {}
    for k, f in getattr(M, "_hy_macros", {}).items():
        try:
            module[k] = f()
        except BaseException as e:
            module[k] = "raised " + type(e).__name__
    sys.modules.pop(name, None)
    leaks = []
    core_now = getattr(builtins, "_hy_macros", None)
    if core_now is None or set(core_now) != set(env["core"]) or any(core_now[k] is not v for k, v in env["core"].items()):
        leaks.append("builtins._hy_macros changed: " + repr(sorted(set(core_now or ()) ^ set(env["core"])) or
                                                           sorted(k for k, v in env["core"].items() if (core_now or {}).get(k) is not v)))
        builtins._hy_macros = dict(env["core"])
    for hn, mod in env["mods"].items():
        if dict(mod._hy_macros) != env["helper_tables"][hn]:
            leaks.append(f"{hn}._hy_macros changed: {sorted(mod._hy_macros)}")
            mod._hy_macros.clear()
            mod._hy_macros.update(env["helper_tables"][hn])
    if _model_reprs() != env["model_reprs"]:
        leaks.append("a shared probe model was modified")
    from hy.reader.hy_reader import HyReader
    if HyReader._current_reader is not None:
        leaks.append("HyReader._current_reader left set")
        HyReader._current_reader = None
    return dict(records=records, exc=exc, module=module, leaks=leaks,
                warnings=[(x.category.__name__, str(x.message)) for x in w])


def _layer_of(token, history):
    """Which kind of definition carries this token (for signatures)."""
    if token == "fn":
        return "none"
    if token == -1:
        return "core"
    if isinstance(token, str) and token.startswith("E."):
        return "extra"
    if isinstance(token, str) and token.startswith("I"):
        return "eval-local"
    if isinstance(token, int):
        return "def@%d" % (token - 100)
    return "req:" + str(token)


def check_history(acc, history, count=True):
    history = [list(op) for op in history]
    case = {"history": history}
    exp = expected(history)
    text = render(history)
    got = run_program(text)
    acc.evaluations += 1
    acc.traces += 1
    acc.transitions += len(history)
    if exp["nontrivial"]:
        acc.nontrivial += 1
    acc.unspecified += exp["unspecified"]
    opk = "+".join(sorted({op[0] if op[0] != "req" else "req-" + op[2] for op in history})) or "empty"

    def bad(kind, detail, sig, **kw):
        acc.disagree(kind, case, detail + "\nprogram:\n" + text, sig=sig, ops=opk, depth=str(len(history)), **kw)

    for leak in got["leaks"]:
        bad("state-leak", leak, "leak:" + leak.split(":")[0].split(" ")[0], what=leak.split(":")[0])
    if got["exc"] is not None:
        acc.outcome("exception")
        bad("unexpected-exception", got["exc"], "exc:" + got["exc"].split(":")[0] + ":" + opk, exc=got["exc"].split(":")[0])
        return
    recs = {}
    for tag, v in got["records"]:
        if tag in recs:
            bad("probe-ran-twice", f"probe {tag} recorded twice", "harness:probe-twice")
        recs[tag] = v
    if set(recs) != set(exp["records"]):
        bad("probe-missing", f"probes expected {sorted(exp['records'])}, recorded {sorted(recs)}", "harness:probe-missing")
        return
    # expansions
    for tag, want in exp["records"].items():
        have = recs[tag]
        flat_w = _flatten_expected(want)
        flat_h = _flatten_got(have)
        labels = _labels(tag, exp["names"])
        if len(flat_w) != len(flat_h):
            bad("probe-shape", f"{tag}: got {have!r}", "harness:probe-shape")
            continue
        for lab, (okset, layer), h in zip(labels, flat_w, flat_h):
            acc.outcome("resolve:" + layer)
            if h not in okset:
                via = "hy.eval+macros" if tag.startswith("e") else ("hy.eval" if tag.endswith("e") else "direct")
                glayer = _layer_of(h, history)
                bad("wrong-expansion",
                    f"probe {tag}/{lab} ({via}): the reference chain resolves to {layer} {sorted(map(repr, okset))}, hy expanded to {h!r} ({glayer})",
                    sig=f"expansion:{via}:{'prefixed' if '.' in lab.split('/')[-1] else 'plain'}:want={layer.split('@')[0]}:got={glayer.split('@')[0].split(':')[0]}",
                    via=via, probe=lab, want_layer=layer, got_layer=glayer)
                break
    # module table
    for k, alts in exp["module"].items():
        from mc.ref.mac_ns import ABSENT
        if k not in got["module"]:
            if ABSENT not in alts:
                bad("module-macro-missing", f"_hy_macros lacks {k!r}; has {sorted(got['module'])}", "module-table:missing:" + ("prefixed" if "." in k else "plain"), name=k)
        elif got["module"][k] not in alts:
            bad("module-macro-wrong", f"_hy_macros[{k!r}] expands to {got['module'][k]!r}, reference {sorted(map(repr, alts))}",
                "module-table:wrong:" + ("prefixed" if "." in k else "plain"), name=k)
    for k in got["module"]:
        if k not in exp["module"]:
            bad("module-macro-extra", f"_hy_macros has {k!r} (expands to {got['module'][k]!r}) which no operation of the history brings in; "
                f"reference table {sorted(exp['module'])}", "module-table:extra:" + ("prefixed" if "." in k else "plain"), name=k)
    # warnings
    rw = [m for c, m in got["warnings"] if c == "RuntimeWarning"]
    other = [(c, m) for c, m in got["warnings"] if c != "RuntimeWarning"]
    acc.outcome("warnings:%d" % min(len(rw), 3))
    if len(rw) != exp["warnings"]:
        bad("warning-count", f"reference: {exp['warnings']} core-shadow warning(s); hy emitted {len(rw)} RuntimeWarning(s) {rw!r} and {other!r}",
            sig=f"warnings:{'missing' if len(rw) < exp['warnings'] else 'spurious'}:{opk}",
            direction="missing" if len(rw) < exp["warnings"] else "spurious")
    elif other:
        bad("other-warning", f"unexpected warnings {other!r}", "warnings:other-category")


def _flatten_expected(want):
    out = []
    for x in want:
        if isinstance(x, list):
            out.extend(x)
        else:
            out.append(x)
    return out


def _flatten_got(have):
    out = []
    if not isinstance(have, list):
        return [have]
    for x in have:
        if isinstance(x, list):
            out.extend(x)
        else:
            out.append(x)
    return out


def _labels(tag, names):
    if tag.startswith("e"):
        return NAMES + ["fn1/" + n for n in NAMES] + ["fn2/" + n for n in NAMES]
    if tag.endswith("e"):
        return list(NAMES)
    return list(names)


# ------------------------------------------------------------------ shards

def _graph(acc, tier):
    """Pruned BFS of the reference model alone, per run of the tier: exact number of
    distinct canonical namespace states within the depth (union over the runs) and
    of (state, operation) edges."""
    union = set()
    for ri, (lv, k) in enumerate(BOUNDS[tier]["runs"]):
        alpha = _alphabet(lv)
        seen = {repr(expected([])["canon"])}
        edges = 0
        frontier = [((), 0)]
        for depth in range(k):
            nxt = []
            for h, d in frontier:
                for op in alpha:
                    if not _enabled(op, d):
                        continue
                    edges += 1
                    h2 = h + (op,)
                    c = repr(expected([list(o) for o in h2])["canon"])
                    if c in seen:
                        continue
                    seen.add(c)
                    nxt.append((h2, _depth_after(op, d)))
            frontier = nxt
        acc.count(f"run{ri}:canonical_states", len(seen))
        acc.count(f"run{ri}:state_op_edges", edges)
        union |= seen
    acc.states += len(union)


def run_shard(shard, tier):
    acc = Acc()
    what, ri = shard[0], shard[1]
    lv, k = BOUNDS[tier]["runs"][ri]
    alpha = _alphabet(lv)
    if what == "graph":
        _graph(acc, tier)
        return acc.result()
    if what == "short":
        hs = [()] + [(op,) for op in alpha if _enabled(op, 0)]
        if k < 1:
            hs = [()]
    else:
        a, b = alpha[shard[2]], alpha[shard[3]]
        hs = _extensions(alpha, (a, b), _depth_after(b, _depth_after(a, 0)), k)
    n = 0
    for h in hs:
        if ri and _covered_earlier(tier, ri, [list(o) for o in h]):
            acc.count("histories_already_covered_by_an_earlier_run")
            continue
        check_history(acc, h)
        acc.count("histories_of_length_%d" % len(h))
        n += 1
        if n % 400 == 7:
            acc.sample({"history": [_opname(o) for o in h], "program": render([list(o) for o in h])})
    return acc.result()


def recheck(case, tier):
    acc = Acc()
    check_history(acc, case["history"])
    return acc.disagreements


def snippet(d):
    h = d["case"]["history"]
    text = render(h)
    return (
        "import os, sys, tempfile, types, warnings\n"
        "d = tempfile.mkdtemp(); sys.path.insert(0, d)\n"
        f"for name, src in {HELPER_SRC!r}.items():\n"
        "    open(os.path.join(d, name + '.hy'), 'w').write(src)\n"
        "import hy, mch_a, mch_b   # helpers compiled before warnings are recorded\n"
        "M = types.ModuleType('c35_case'); sys.modules['c35_case'] = M\n"
        "out = []; M.rec = lambda tag, v: out.append((tag, v))\n"
        "class P:\n    def __getattr__(self, k): return lambda *a: 'fn'\n"
        "for f in ('m', 'n', 'when', '_p'): setattr(M, f, lambda *a: 'fn')\n"
        "for p in ('mch_a', 'mch_b', 'P'): setattr(M, p, P())\n"
        "M.mk = lambda k: (lambda *a: k)\n"
        f"M.QP = hy.read({QP_TEXT!r})\n"
        f"for x, t in {dict((x, qe_text(x)) for x in NAMES)!r}.items(): setattr(M, 'QE_' + x, hy.read(t))\n"
        f"text = {text!r}\n"
        "with warnings.catch_warnings(record=True) as w:\n"
        "    warnings.simplefilter('always')\n"
        "    hy.eval(hy.read_many(text), module=M)\n"
        "print(text)\nfor r in out: print(r)\n"
        "print('warnings:', [str(x.message) for x in w]); print('_hy_macros:', sorted(M._hy_macros))\n"
        f"# reference model says: {d['detail'].splitlines()[0]!r}\n")
