"""C19  Truncated input is reported as premature end of input.

Space: every well-formed text rendered from every reader term with at most n
nodes (mc.ref.rd_terms: all sequence kinds, strings with escapes, bytes, raw
and bracket strings, f-strings with fields / debug '=' / conversions / format
specs / nested fields, bracket f-strings, every prefix sugar, #^, #_ discards,
comments, dotted identifiers, numbers, keywords), in a spaced and a tight
layout, and EVERY cut point of each text.

Oracle (from the structure the text was rendered from, cross-validated
against the independent lexical machine mc.ref.rd_lexer on every text):

  inside-open-construct / after-prefix  =>  reading the prefix raises
        PrematureEndOfInput and nothing else; REPL.runsource(prefix) is True
  between-forms  =>  reads without error, yielding exactly the complete
        top-level forms before the cut; REPL.runsource(prefix) is False
  mid-token-at-top-level  =>  unspecified (only: no non-Hy exception)
"""
import itertools

from mc.util import Acc, time_limit, CaseTimeout

ID = "C19"
TECHNIQUE = ("bounded exhaustive enumeration of all reader terms up to n nodes, rendered to text with known structure; "
             "every cut point of every text run through the real reader (and hy.REPL.runsource) against a lexical reference model")
LEVEL_TEXT = ("Every reader term with at most n nodes over the alphabet is rendered in two layouts; every prefix of every text is read "
              "by the real hy.read_many and, within the REPL bound, fed to a fresh hy.REPL().runsource. The class of each cut "
              "(inside an open construct / after a prefix / between forms / splitting a top-level token) comes from the term's structure "
              "and is cross-checked against an independent character-level state machine transcribed from syntax.rst. Exhaustive within "
              "the bound: a single handler that turns end of input into anything but PrematureEndOfInput at any position of any construct "
              "combination of that size is found.")
RULE = ("terms enumerated by exact node count (atoms first, constructors in alphabet order), each rendered in the 'plain' and 'tight' "
        "layouts (tight skipped when it gives the same text); a case = (text, cut index); distinct by construction within a text; "
        "non-trivial = the cut lies inside an open construct or directly after a prefix (the reader must decide 'premature'); "
        "outcome classes = (cut class, observed result)")
ASSUMPTIONS = [
    "texts over the listed atom / constructor / f-string-shape alphabets only; node bound as stated",
    "a cut that splits an identifier-like token while no delimited construct is open (e.g. 'ab' -> 'a', 'a.b' -> 'a.', '#(' -> '#', 'f\"x\"' -> 'f') "
    "is unspecified by the documentation: only 'no non-Hy exception' is required there",
    "a cut inside or at the end of a top-level ';' comment counts as between forms (a comment may end at end of input)",
    "whitespace and comments between a prefix and its form keep the cut 'after a prefix'",
    "REPL leg: a fresh hy.REPL per prefix, stdout/stderr discarded; executed atoms are unbound names/literals (NameError is caught by the REPL); "
    "run for the prefixes of the spaces marked repl (distinct prefixes per shard)",
    "watchdog: 30 s per read (60 s per REPL call) counts as non-termination",
]
TIME_CAP = {"quick": 900, "thorough": 3000}

# (alphabet, n_lo, n_hi, max top-level items, {n: repl mode})
# repl mode 1 = every layout, 2 = single-item programs in the plain layout only
BOUNDS = {
    "quick": dict(spaces=[("full", 1, 2, 3, {1: 1, 2: 1}), ("full", 3, 3, 1, {}), ("core", 3, 3, 3, {3: 1}), ("core", 4, 4, 2, {})],
                  layouts=["plain", "tight"], target=800),
    "thorough": dict(spaces=[("full", 1, 3, 3, {1: 1, 2: 1, 3: 2}), ("full", 4, 4, 1, {}), ("core", 4, 4, 3, {4: 2}), ("core", 5, 5, 2, {})],
                     layouts=["plain", "tight"], target=4000),
}
REPL_MODES = {0: "none", 1: "all programs, all layouts", 2: "single-item programs, plain layout"}

_GENS = {}
_READ_CACHE = {}      # prefix text -> observation; per worker process (reading is a pure function of the text)


def _gen(alpha):
    from mc.ref import rd_terms as T
    if alpha not in _GENS:
        _GENS[alpha] = T.Gen(alpha)
    return _GENS[alpha]


def bounds(tier):
    from mc.ref import rd_terms as T
    b = BOUNDS[tier]
    out = {"spaces": [dict(alphabet=a, nodes_from=lo, nodes_to=hi, max_top_level_items=mi,
                           repl_leg={str(k): REPL_MODES[v] for k, v in r.items()})
                      for a, lo, hi, mi, r in b["spaces"]],
           "layouts": b["layouts"], "max_items_per_sequence": 3, "cut_points": "every index 0..len(text)"}
    for name in sorted({sp[0] for sp in b["spaces"]}):
        al = T.ALPHABETS[name]
        out["alphabet_" + name] = {
            "atoms": [T.render((x,), "plain").text for x in al["atoms"]],
            "sequences": al["seqs"], "prefixes": al["pres"] + (["#^"] if al["ann"] else []) + ["#_"],
            "junk_items": [";c\\n", "#_ FORM"], "fstring_shapes": [s[0] for s in al["fshapes"]]}
    return out


def _shards_main(tier):
    from mc.ref import rd_terms as T
    b = BOUNDS[tier]
    out = []
    for alpha, lo, hi, maxitems, repl in b["spaces"]:
        g = _gen(alpha)
        for n in range(lo, hi + 1):
            for ln in range(1, min(maxitems, n) + 1):
                for split in T._compositions(n, ln):
                    sizes = [len(g.items(s)) for s in split]
                    if not all(sizes):
                        continue
                    rest = 1
                    for s in sizes[1:]:
                        rest *= s
                    step = max(1, b["target"] // rest)
                    for a in range(0, sizes[0], step):
                        mode = repl.get(n, 0)
                        if mode == 2 and ln != 1:
                            mode = 0
                        out.append([alpha, n, list(split), a, min(sizes[0], a + step), mode])
    return out


def _programs(shard):
    alpha, n, split, lo, hi, _ = shard
    g = _gen(alpha)
    pools = [g.items(s) for s in split]
    first = pools[0][lo:hi]
    return itertools.product(first, *pools[1:])


# ------------------------------------------------------------------ observation

def observe_read(text):
    """('ok', nforms) | ('peoi', msg) | ('lex', msg) | ('other', 'Type: msg') | ('timeout', '')"""
    import hy
    from hy.reader.exceptions import LexException, PrematureEndOfInput
    try:
        with time_limit(30):
            forms = list(hy.read_many(text))
        return ("ok", len(forms))
    except PrematureEndOfInput as e:
        return ("peoi", str(getattr(e, "msg", e)))
    except LexException as e:
        return ("lex", str(getattr(e, "msg", e)))
    except CaseTimeout:
        return ("timeout", "")
    except BaseException as e:
        return ("other", f"{type(e).__name__}: {e}")


class _Null:
    def write(self, s):
        return len(s)

    def flush(self):
        pass


_NULL = _Null()


_WARM = []


def _warm():
    """First use of hy.REPL in a process compiles hy/core/hy_repr.hy etc.;
    do that outside any watchdog."""
    if not _WARM:
        _WARM.append(1)
        _repl_once("1")


def observe_repl(text):
    """('more',) | ('done',) | ('raised', 'Type: msg')"""
    _warm()
    try:
        with time_limit(60):
            return _repl_once(text)
    except CaseTimeout:
        return ("raised", "timeout")


def _repl_once(text):
    import os
    import sys
    import hy
    os.environ.pop("HYSTARTUP", None)
    name = "__c19_console__"
    sys.modules.pop(name, None)
    so, se = sys.stdout, sys.stderr
    sys.stdout = sys.stderr = _NULL
    try:
        try:
            repl = hy.REPL(locals={"__name__": name})
            res = repl.runsource(text)
            return ("more",) if res else ("done",)
        except CaseTimeout:
            raise
        except BaseException as e:
            return ("raised", f"{type(e).__name__}: {e}")
    finally:
        sys.stdout, sys.stderr = so, se
        sys.modules.pop(name, None)
        for a in ("last_exc", "last_type", "last_value", "last_traceback"):
            if hasattr(sys, a):
                try:
                    delattr(sys, a)
                except Exception:
                    pass


def _msgclass(msg):
    import re
    return re.sub(r"'[^']*'|\"[^\"]*\"|\\.|[^A-Za-z ,:-]", "", msg or "")[:60].strip()


def _slug(state, toktext):
    """Where the end of input fell, for kinds/signatures."""
    base = state.replace("+tok", "")
    tok = state.endswith("+tok")
    if tok and toktext and "." in toktext and toktext.strip("."):
        # the truncated token has the shape of a dotted identifier
        return "token-ending-in-dot" if toktext.endswith(".") else "dotted-token"
    if base.startswith("field:"):
        return "fstring-field-" + base[6:] + ("-value-token" if tok else "")
    if base in ("fstr:rbrace", "fspec:rbrace"):
        return "fstring-between-closing-braces"
    if base.startswith("fstr:") or base.startswith("fspec:"):
        return "fstring-" + base.replace(":", "-")
    if base.startswith("prefix:"):
        return "after-" + base
    return base + ("-token" if tok else "")


def _compile_harmless(item):
    """Top-level forms that are known to compile (the REPL compiles the forms
    it has read before it reads on, so an earlier form that is a compile-time
    error pre-empts the question 'is the input complete?')."""
    return item[0] in ("atom", "str", "bstr")


# ------------------------------------------------------------------ the oracle

def _fields(leg, cls, state, snaps, i, got, exc, msg):
    sn = snaps[i]
    slug = _slug(state, sn.toktext)
    stack = "/".join(sn.frames) + ("+tok" if sn.tok else "")
    return slug, dict(leg=leg, cls=cls, state=state, where=slug, stack=stack or "top", got=got, exc=exc, msg=msg)


def _read_obs(acc, cache, prefix):
    obs = cache.get(prefix)
    if obs is None:
        obs = observe_read(prefix)
        acc.evaluations += 1
        if len(cache) < 600000:
            cache[prefix] = obs
    return obs


_EXC = {"ok": "none", "peoi": "PrematureEndOfInput", "lex": "LexException"}


def check_cut(acc, r, snaps, i, do_read, do_repl, cache, case_base):
    from mc.ref import rd_lexer as LX
    text = r.text
    cls, state, ntop = r.cuts[i]
    prefix = text[:i]
    acc.states += 1
    if cls in (LX.INSIDE, LX.AFTER_PREFIX):
        acc.nontrivial += 1
    acc.count("cut-state:" + state.replace("+tok", ""))

    if do_read:
        got, info = _read_obs(acc, cache, prefix)
        acc.traces += 1
        acc.outcome(f"read:{cls}:{got}")
        bad = None
        if got in ("other", "timeout"):
            bad = "hy"
        elif cls == LX.MIDTOK:
            acc.unspecified += 1
        elif cls == LX.BETWEEN:
            if got != "ok" or info != ntop:
                bad = "between"
        elif got != "peoi":
            bad = "open"
        if bad:
            exc = _EXC.get(got, str(info).split(":")[0])
            msg = _msgclass(info) if got != "ok" else ""
            slug, fields = _fields("read", cls, state, snaps, i, got, exc, msg)
            case = dict(case_base, cut=i, leg="read")
            if bad == "hy":
                acc.disagree("reader-raised-non-hy-error" if got == "other" else "reader-nontermination",
                             case, f"reading {prefix!r}: {info}", sig=f"read:{got}:{msg}", **fields)
            elif bad == "between" and got != "ok":
                acc.disagree(f"cut-between-forms-raises-{exc}", case,
                             f"prefix {prefix!r} holds {ntop} whole top-level form(s) and nothing else, but reading it raised {exc}: {info}",
                             sig=f"read:between:{exc}:{msg}", **fields)
            elif bad == "between":
                acc.disagree("cut-between-forms-wrong-number-of-forms", case,
                             f"prefix {prefix!r} holds {ntop} whole top-level form(s) but read_many yielded {info}",
                             sig="read:between-count", **fields)
            else:
                what = "read without error" if got == "ok" else f"raised LexException ({info})"
                acc.disagree(f"eof-at-{slug}-not-premature", case,
                             f"prefix {prefix!r} ends {cls} (state {state}) but reading it {what} instead of raising PrematureEndOfInput",
                             sig=f"read:{cls}:{exc}:{msg}", **fields)

    if do_repl:
        robs = observe_repl(prefix)
        acc.evaluations += 1
        acc.traces += 1
        acc.outcome(f"repl:{cls}:{robs[0]}")
        bad = None
        if robs[0] == "raised":
            bad = "raised"
        elif cls == LX.MIDTOK:
            pass
        elif cls == LX.BETWEEN:
            if robs[0] != "done":
                bad = "between"
        elif robs[0] != "more":
            bad = "open"
        if bad:
            # what the reader alone does with the same prefix (for root-cause grouping)
            got, info = _read_obs(acc, cache, prefix)
            exc = _EXC.get(got, str(info).split(":")[0])
            msg = _msgclass(info) if got != "ok" else ""
            slug, fields = _fields("repl", cls, state, snaps, i, robs[0], exc, msg)
            case = dict(case_base, cut=i, leg="repl")
            if bad == "raised":
                acc.disagree("repl-runsource-raised", case, f"REPL().runsource({prefix!r}) raised {robs[1]}",
                             sig=f"repl:raised:{_msgclass(robs[1])}", **fields)
            elif bad == "between":
                acc.disagree("repl-asks-for-more-input-on-complete-input", case,
                             f"REPL().runsource({prefix!r}) returned True (more input) although the text holds only whole forms",
                             sig=f"repl:between:{exc}:{msg}", **fields)
            else:
                acc.disagree(f"repl-no-continuation-at-{slug}", case,
                             f"REPL().runsource({prefix!r}) returned False (no continuation prompt) although the input ends {cls} "
                             f"(state {state}); the reader alone: {exc} {info if got != 'ok' else ''}",
                             sig=f"repl:{cls}:{exc}:{msg}", **fields)


def run_text(acc, r, do_repl, cache, repl_seen, case_base, only_cut=None, only_leg=None):
    from mc.ref import rd_lexer as LX
    snaps, _ = LX.scan(r.text)
    n = len(r.text)
    acc.transitions += n
    for i, s in enumerate(snaps):
        lc, ls = LX.classify_snap(s, r.text[i] if i < n else "")
        rc, rs, rn = r.cuts[i]
        if lc != rc or ls != rs or (rc == LX.BETWEEN and rn != s.eof_ntop):
            acc.disagree("reference-model-inconsistency", dict(case_base, cut=i),
                         f"{r.text!r} cut {i}: renderer says {(rc, rs, rn)}, lexer says {(lc, ls, s.eof_ntop)}",
                         sig="model-inconsistency", leg="model", cls=rc, state=rs, where="model", got="", exc="", msg="")
            return
    # REPL leg: only where every whole top-level form before the cut is known to compile
    ends = []
    if do_repl:
        elems, _, _ = LX.toplevel(r.text)
        form_ends = [e for k, _, e in elems if k == "form"]
        forms = [it for it in r.term if it[0] not in ("dis", "cmt")]
        assert len(form_ends) == len(forms), (r.text, elems)
        ends = [(e, _compile_harmless(it)) for e, it in zip(form_ends, forms)]
    for i in range(n + 1):
        if only_cut is not None and i != only_cut:
            continue
        rp = False
        if do_repl and only_leg in (None, "repl") and all(h for e, h in ends if e <= i):
            p = r.text[:i]
            if only_cut is not None or p not in repl_seen:
                rp = True
                if len(repl_seen) < 400000:
                    repl_seen.add(p)
        elif do_repl and only_leg in (None, "repl"):
            acc.count("repl-leg-skipped(earlier top-level form may not compile)")
        check_cut(acc, r, snaps, i, only_leg in (None, "read"), rp, cache, case_base)


def _run_shard_main(shard, tier):
    from mc.ref import rd_terms as T
    b = BOUNDS[tier]
    acc = Acc()
    alpha, n, split, lo, hi, repl = shard
    cache = _READ_CACHE
    repl_seen = set()
    counts = {}
    k = 0
    for prog in _programs(shard):
        seen_texts = set()
        for kind in ("seq", "pre", "ann", "dis", "cmt", "fstr", "str", "bstr", "atom"):
            if _contains(prog, kind):
                acc.count("terms-with:" + kind)
        for lay in b["layouts"]:
            r = T.render(prog, lay)
            if r.text in seen_texts:
                continue
            seen_texts.add(r.text)
            if r.ambiguous:
                acc.unspecified += 1
                acc.count("texts-excluded(closing delimiter of a bracket f-string occurs inside one of its fields)")
                continue
            acc.transitions += T.size(("seq", "(", prog))
            run_text(acc, r, repl == 1 or (repl == 2 and lay == "plain"), cache, repl_seen,
                     {"alpha": alpha, "term": T.to_jsonable(prog), "layout": lay, "text": r.text})
            if k % 1499 == 0:
                acc.sample(r.text)
            k += 1
    return acc.result()


def _contains(t, kind):
    if isinstance(t, tuple):
        if t and t[0] == kind:
            return True
        return any(_contains(x, kind) for x in t)
    return False


def _recheck_main(case, tier):
    from mc.ref import rd_terms as T
    acc = Acc()
    prog = T.from_jsonable(case["term"])
    r = T.render(prog, case["layout"])
    if r.text != case["text"]:
        return [{"kind": "recheck-render-differs", "sig": "recheck-render-differs", "detail": r.text}]
    leg = case.get("leg")
    run_text(acc, r, leg == "repl", {}, set(),
             {"alpha": case.get("alpha"), "term": case["term"], "layout": case["layout"], "text": r.text},
             only_cut=case["cut"], only_leg=leg if leg in ("read", "repl") else None)
    return acc.disagreements


def snippet(d):
    c = d["case"]
    prefix = c["text"][:c["cut"]]
    if c.get("leg") == "repl":
        return (f"import hy\nfull = {c['text']!r}   # reads fine\nprefix = {prefix!r}   # cut at {c['cut']}: {d.get('cls')} ({d.get('state')})\n"
                "print(hy.REPL(locals={'__name__': '__x__'}).runsource(prefix))\n"
                "# True = 'more input' (continuation prompt); C19 wants True iff the cut is inside an open construct / after a prefix\n")
    return (f"import hy\nfull = {c['text']!r}\nprint(list(hy.read_many(full)))   # well-formed\n"
            f"prefix = {prefix!r}   # cut at {c['cut']}: {d.get('cls')} ({d.get('state')})\n"
            "try:\n    print(list(hy.read_many(prefix)))\nexcept hy.PrematureEndOfInput as e:\n    print('PrematureEndOfInput')\n"
            "except Exception as e:\n    print(type(e).__name__, e)\n"
            "# C19: inside-open-construct / after-prefix => PrematureEndOfInput only; between-forms => no error\n")


# ---------------------------------------------------------------- reader reuse leg (E2: histories of two reads on ONE reader)
def shards(tier):
    return list(_shards_main(tier)) + [["reuse-leg"]]


def _reuse_case(acc, t1, t2, how):
    from mc.ref import rd_reuse
    fresh, reused = rd_reuse.run_pair(t1, t2, how)
    acc.states += 1
    acc.transitions += 2
    acc.traces += 1
    acc.evaluations += 2
    acc.nontrivial += 1
    acc.outcome("reuse:" + fresh[0] + "/" + reused[0])
    if fresh[0] == "PrematureEndOfInput" and reused[0] != "PrematureEndOfInput":
        acc.disagree("reused-reader-no-premature-end-of-input", {"reuse": [t1, t2, how]},
                     f"after reading {t1!r} ({how}) with a HyReader, reading {t2!r} with the SAME reader gave {str(reused)[:200]}; a fresh reader gives {str(fresh)[:200]}",
                     sig="reused-reader-no-premature-end-of-input:" + reused[0], how=how)


def run_shard(shard, tier):
    if shard == ["reuse-leg"]:
        from mc.util import Acc as _Acc
        from mc.ref import rd_reuse
        acc = _Acc()
        for i, (t1, t2, how) in enumerate(rd_reuse.pairs()):
            _reuse_case(acc, t1, t2, how)
            if i % 487 == 0:
                acc.sample({"first_source": t1, "second_source": t2, "first_read": how})
        return acc.result()
    return _run_shard_main(shard, tier)


def recheck(case, tier):
    if "reuse" in case:
        from mc.util import Acc as _Acc
        acc = _Acc()
        _reuse_case(acc, *case["reuse"])
        return acc.disagreements
    return _recheck_main(case, tier)
