"""C24  f-strings evaluate like the equivalent Python f-string.

Space: every f-string structure of <= p parts over pools of literal chunks
(plain, {{, }}, \\N{...}, \\n, ', \\", ]) and replacement fields (expression x
conversion x debugging `=` x format spec with nested fields x spacing), each
rendered as f"..." and as #[f[...]f], read + compiled by Hy and evaluated on
three sets of bindings, against CPython evaluating the Python rendering
(mc/ref/lit_fstr.py) on the same bindings; plus every malformed variant one
edit away (unknown / missing conversion, missing `}`, single `}`, a second
form in a field, empty field, lone `{`, unrecognised escape), which must be
Hy syntax errors.
"""
import itertools

from mc import enumer
from mc.util import Acc

ID = "C24"
TECHNIQUE = ("bounded exhaustive enumeration of all f-string structures of <= p parts over part pools, each rendered both as Hy and as "
             "Python source and evaluated on the same bindings (CPython is the oracle); malformed one-edit variants must be Hy syntax errors")
LEVEL_TEXT = ("Every sequence of up to p parts over the stated pools of literal chunks and replacement fields is rendered as a Hy f-string "
              "(double-quoted and bracket form), read and compiled by the real Hy and evaluated under three bindings; the resulting "
              "string (or the exception type and message) must equal what CPython gives for the equivalent Python f-string under the "
              "same bindings. Every malformed variant one edit away must raise a Hy syntax error at read or compile time. Exhaustive "
              "within the bound: a feature combination inside one field, or an interaction between two adjacent parts, that Hy splits, "
              "echoes, converts or formats differently from Python is found, not sampled.")
RULE = ("length-then-lexicographic enumeration of part sequences per family (families are disjoint by length; pools are deduplicated by "
        "rendered text), each in both modes; a case is one (mode, structure); non-trivial = the structure has a chunk other than plain text "
        "or a field with a conversion, `=` or a format spec, or is a malformed variant; outcome classes = (mode, per-binding result kinds)")
ASSUMPTIONS = [
    "part pools as listed in bounds(); expressions limited to the listed six; three bindings of x (int, float, str)",
    "the Python rendering keeps the whitespace around a debugging `=` verbatim (both languages echo it); where the Hy and Python code of "
    "a debugging field differ textually, the expected echo is the Hy code",
    "the bracket form is raw, so its Python rendering is rf\"\"\"...\"\"\" (there \\N{OX} is backslash-N followed by a field OX)",
    "a backslash in the format spec of the bracket (raw) form is unspecified: CPython 3.12.1 escape-decodes raw f-string format specs, so it cannot be the reference there",
    "'{{' / '}}' inside a format spec is not enumerated (CPython 3.12 itself rejects it); t-strings need Python 3.14 and are not enumerated",
    "malformed variants are judged only by 'a HySyntaxError (LexException, PrematureEndOfInput included) at read or compile time'",
]

BOUNDS = {
    # (pool, exact length) families
    "quick": dict(families=[["full", 0, 1], ["med", 2, 2], ["small", 3, 3]], mal_n=2, shards=64),
    "thorough": dict(families=[["full", 0, 2], ["med3", 3, 3]], mal_n=3, shards=512),
}
TIME_CAP = {"quick": 600, "thorough": 3600}
MODES = ["q", "b"]

_pools = {}


def _pool(name):
    from mc.ref import lit_fstr as F
    if name not in _pools:
        seen = set()
        out = []
        for p in F.pool(name):
            t = F.part_hy(p)
            if t not in seen:
                seen.add(t)
                out.append(p)
        _pools[name] = out
    return _pools[name]


def bounds(tier):
    from mc.ref import lit_fstr as F
    b = BOUNDS[tier]
    return {"families": [{"pool": n, "pool_size": len(_pool(n)), "min_parts": lo, "max_parts": hi} for n, lo, hi in b["families"]],
            "modes": {"q": 'f"..."', "b": "#[f[...]f]"},
            "chunks": F.CHUNKS, "expressions": [e["hy"] for e in F.EXPRS], "conversions": ["", "s", "r", "a"],
            "debug": ["no", "= minimal whitespace", "spaces around form and ="],
            "specs": [None if s is None else "".join(p if isinstance(p, str) else p[0] for p in s) for s in F.SPECS],
            "bindings": [{k: repr(v) for k, v in e.items()} for e in F.ENVS],
            "malformed": {"max_parts": b["mal_n"], "rule": "exactly one malformed part at every position, the other parts from pool 'small'",
                          "other_parts_pool_size": len(_pool("small")),
                          "malformed_parts": [F.part_hy(p) for p in F.malformed_parts()]}}


def shards(tier):
    from mc.ref import lit_fstr as F
    b = BOUNDS[tier]
    out = []
    for name, lo_len, hi_len in b["families"]:
        k = len(_pool(name))
        lo0 = enumer.count_strings(k, lo_len - 1) if lo_len > 0 else 0
        total = enumer.count_strings(k, hi_len)
        step = max(1, -(-(total - lo0) // b["shards"]))
        out += [["val", name, hi_len, lo, min(total, lo + step)] for lo in range(lo0, total, step)]
    nx = len(F.malformed_parts())
    for n in range(1, b["mal_n"] + 1):
        for pos in range(n):
            for xi in range(nx):
                out.append(["mal", n, pos, xi, 0])
    return out


# ---------------------------------------------------------------- evaluation

def _run(code_exec, code_eval, env):
    g = dict(env)
    try:
        if code_exec is not None:
            exec(code_exec, g)
        v = eval(code_eval, g)
    except Exception as e:
        return ["exc", type(e).__name__, str(e)]
    if type(v) is not str:
        return ["nonstr", type(v).__name__, repr(v)[:80]]
    return ["ok", v]


def eval_hy(text):
    """-> ("syntax", class, msg) | ("internal", what) | ("results", [...])"""
    import types
    import hy
    import hy.models as M
    from hy.compiler import hy_compile
    from hy.errors import HySyntaxError
    from mc.ref import lit_fstr as F
    try:
        forms = list(hy.read_many(text))
    except HySyntaxError as e:
        return ("syntax", type(e).__name__, str(getattr(e, "msg", e))[:160])
    except BaseException as e:
        return ("internal", f"read raised {type(e).__name__}: {e}"[:160])
    if len(forms) != 1 or type(forms[0]) is not M.FString:
        return ("internal", "read gave " + ", ".join(type(f).__name__ for f in forms)[:120])
    mod = types.ModuleType("c24_case")
    try:
        tree, expr = hy_compile(forms[0], mod, get_expr=True, filename="<c24>", source=text)
        c1 = compile(tree, "<c24>", "exec")
        c2 = compile(expr, "<c24>", "eval")
    except HySyntaxError as e:
        return ("syntax", type(e).__name__, str(getattr(e, "msg", e))[:160])
    except BaseException as e:
        return ("internal", f"compile raised {type(e).__name__}: {e}"[:160])
    return ("results", [_run(c1, c2, env) for env in F.ENVS])


def eval_py(src):
    from mc.ref import lit_fstr as F
    try:
        code = compile(src, "<c24py>", "eval")
    except Exception as e:
        return ("pyerror", f"{type(e).__name__}: {e}")
    return ("results", [_run(None, code, env) for env in F.ENVS])


def _flags(parts):
    """Coarse grouping for signatures: which field features occur anywhere in the structure."""
    f = [p for p in parts if p[0] == "F"]
    return ("debug" if any(p[3] for p in f) else "") + ("+conv" if any(p[2] for p in f) else "") + \
        ("+spec" if any(p[4] for p in f) else "") or "plain"


def judge_valid(parts, mode):
    from mc.ref import lit_fstr as F
    parts = [list(p) for p in parts]
    hy_text = F.render_hy(parts, mode)
    py_text = F.render_py(parts, mode)
    shape = F.features(parts, mode)
    case = {"fam": "valid", "mode": mode, "parts": parts}
    fields = dict(mode=mode, shape=shape)
    if mode == "b" and any(p[0] == "F" and p[4] == 6 for p in parts):
        # CPython 3.12.1 escape-decodes the format spec of a *raw* f-string (rf"{x:\n}" formats with a
        # newline, rf"{x:\N{OX}}" raises UnicodeDecodeError from compile()), so it cannot be the reference
        # for a backslash in a raw format spec: unspecified, weak oracle only.
        hyr = eval_hy(hy_text)
        if hyr[0] == "internal":
            return f"{mode}:internal", [("fstring-internal-error", case, f"{hy_text!r}: {hyr[1]}", "internal:" + hyr[1][:50],
                                         dict(fields, hy=hyr[1][:60]))], hy_text
        return "unspec:raw-spec-with-backslash", [], hy_text
    py = eval_py(py_text)
    if py[0] == "pyerror":
        return "py-rendering-rejected", [("reference-selfcheck-failed", case, f"CPython rejects the rendering {py_text!r}: {py[1]}",
                                          "selfcheck:pyerror", fields)], hy_text
    hyr = eval_hy(hy_text)
    if hyr[0] == "internal":
        return f"{mode}:internal", [("fstring-internal-error", case, f"{hy_text!r}: {hyr[1]}", "internal:" + hyr[1][:50],
                                     dict(fields, hy=hyr[1][:60]))], hy_text
    if hyr[0] == "syntax":
        return (f"{mode}:valid->syntax-error",
                [("valid-fstring-rejected", case,
                  f"{hy_text!r} raises {hyr[1]}: {hyr[2]}; the equivalent Python {py_text!r} evaluates to {py[1][0]!r}",
                  f"valid-fstring-rejected:{hyr[1]}:{hyr[2][:40]}", dict(fields, exc=hyr[1], msg=hyr[2][:120]))], hy_text)
    dis = []
    kinds = []
    for env, h, p in zip(F.ENVS, hyr[1], py[1]):
        want = list(p)
        if want[0] == "ok":
            want[1] = F.expected_from_python(parts, want[1])
        kinds.append(h[0] if h[0] != "exc" else h[1])
        if h != want and not dis:
            dis.append(("fstring-value-differs", case,
                        f"x={env['x']!r}: Hy {hy_text!r} -> {h!r}; Python {py_text!r} -> {want!r}",
                        f"fstring-value-differs:{h[0]}/{want[0]}:{_flags(parts)}", dict(fields, hy=h[0], py=want[0])))
    return f"{mode}:" + "/".join(kinds), dis, hy_text


def judge_malformed(parts, mode):
    from mc.ref import lit_fstr as F
    parts = [list(p) for p in parts]
    hy_text = F.render_hy(parts, mode)
    shape = F.features(parts, mode)
    xkind = next(p[0] for p in parts if p[0].startswith("X"))
    case = {"fam": "malformed", "mode": mode, "parts": parts}
    hyr = eval_hy(hy_text)
    fields = dict(mode=mode, shape=shape, edit=xkind)
    if hyr[0] == "syntax":
        return f"{mode}:malformed:{xkind}->{hyr[1]}", [], hy_text
    if hyr[0] == "internal":
        return (f"{mode}:malformed:{xkind}->internal",
                [("malformed-fstring-not-a-hy-syntax-error", case, f"{hy_text!r}: {hyr[1]}",
                  f"malformed:{xkind}:internal:{hyr[1][:40]}", dict(fields, hy=hyr[1][:60]))], hy_text)
    return (f"{mode}:malformed:{xkind}->evaluates",
            [("malformed-fstring-accepted", case, f"{hy_text!r} compiles and evaluates: {hyr[1][0]!r}",
              f"malformed:{xkind}:accepted", dict(fields, hy=hyr[1][0][0]))], hy_text)


def _account(acc, cls, dis, parts, nontrivial):
    acc.states += 1
    acc.transitions += len(parts) + 1
    acc.traces += 1
    # one read(+compile) of the Hy text, plus one evaluation per binding when it compiled
    acc.evaluations += 1 + (0 if ("->" in cls and not cls.endswith("->evaluates")) or cls.endswith(":internal") else 3)
    if nontrivial:
        acc.nontrivial += 1
    acc.outcome(cls)
    for kind, case, detail, sig, fields in dis:
        acc.disagree(kind, case, detail, sig=sig, **fields)


def run_shard(shard, tier):
    from mc.ref import lit_fstr as F
    acc = Acc()
    if shard[0] == "val":
        _, name, hi_len, lo, hi = shard
        pool = _pool(name)
        for idx, parts in enumer.iter_strings(pool, lo, hi, hi_len):
            nt = F.nontrivial(parts)
            for mode in MODES:
                cls, dis, text = judge_valid(parts, mode)
                _account(acc, cls, dis, parts, nt)
                if cls.startswith("unspec:"):
                    acc.unspecified += 1
                for p in parts:
                    acc.count("part:" + (("chunk:" + F.CHUNKS[p[1]]) if p[0] == "L" else "field"))
            if idx % 5003 == 1:
                acc.sample({"hy": F.render_hy([list(p) for p in parts], "q"), "py": F.render_py([list(p) for p in parts], "q")})
    else:
        _, n, pos, xi, _ = shard
        x = F.malformed_parts()[xi]
        if x[0] == "Xlone" and pos != n - 1:
            return acc.result()
        small = _pool("small")
        for others in itertools.product(small, repeat=n - 1):
            parts = list(others[:pos]) + [x] + list(others[pos:])
            for mode in MODES:
                if x[0] == "Xbadesc" and mode == "b":
                    continue        # raw: backslash-q is ordinary text there
                cls, dis, text = judge_malformed(parts, mode)
                _account(acc, cls, dis, parts, True)
                acc.count("edit:" + x[0])
            if len(acc.samples) < 1:
                acc.sample({"malformed": F.render_hy([list(p) for p in parts], "q")})
    return acc.result()


def recheck(case, tier):
    acc = Acc()
    if case["fam"] == "valid":
        cls, dis, _ = judge_valid(case["parts"], case["mode"])
    else:
        cls, dis, _ = judge_malformed(case["parts"], case["mode"])
    _account(acc, cls, dis, case["parts"], True)
    return acc.disagreements


def snippet(d):
    from mc.ref import lit_fstr as F
    c = d["case"]
    hy_text = F.render_hy(c["parts"], c["mode"])
    head = ("import hy\n"
            f"text = {hy_text!r}\n"
            "for x in (42, 3.14159, \"h\\u00e9\\n'q\"):\n"
            "    env = dict(x=x, w=6, p=2, OX='ox')\n"
            "    try:\n        print('Hy    :', repr(hy.eval(hy.read(text), dict(env))))\n"
            "    except Exception as e:\n        print('Hy    :', type(e).__name__, e)\n")
    if c["fam"] == "valid":
        py_text = F.render_py(c["parts"], c["mode"])
        head += (f"    try:\n        print('Python:', repr(eval({py_text!r}, dict(env))))\n"
                 "    except Exception as e:\n        print('Python:', type(e).__name__, e)\n")
    else:
        head += "# malformed f-string: must be a Hy syntax error (hy.errors.HySyntaxError) at read or compile time\n"
    return head
