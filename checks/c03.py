"""C03  Operator macros == hy.pyops functions == the documented Python expansion.

Space: every operator with a core macro (+ - * / // % ** @ << >> & | ^ bnot
not = != < <= > >= is is-not in not-in) x every arity from the documented
minimum up to n (and the arities one below / one above the documented range)
x every operand tuple over a small value pool.  Each (operator, arity) is
compiled ONCE by the real compiler as a function of its operands, in four
shapes: value position with plain operands, value position with logged
operands, augmented assignment (op= x a1 ... ak) x, and the `#*` forms
(op #* args) / (op a0 #* rest) / (op #* init last).
Oracle (three-way, result type-strict or exception type):
  macro form  ==  CPython evaluating the Python text printed in the pyops
  docstring ("a1 - a2 - ... - an", "1 / x", "True", ...)  ==  hy.pyops.<op>;
  each operand evaluated as often as in that Python text;
  (op= x a...) == "x op= (a1 AGG ... AGG ak)" with the documented aggregator;
  a call containing #* == hy.pyops.<op> on the unpacked arguments;
  arities outside the documented range are rejected by the macro (Hy syntax
  error) and by the function (TypeError from argument binding).
"""
import itertools
import warnings

from mc.util import Acc
from mc.ref import cd_ops as R

ID = "C03"
TECHNIQUE = ("bounded exhaustive enumeration of operator x arity x operand tuples; each operator form compiled once by the real compiler "
             "and differentially executed against CPython evaluating the documented Python expansion and against the hy.pyops function")
LEVEL_TEXT = ("For every operator, every arity up to the bound and every operand tuple over the value pool, the macro form, the same-named "
              "hy.pyops function and CPython's evaluation of the Python expansion printed in the operator's docstring are executed and compared "
              "(value with type, identity with respect to mutable operands, operand post-state, number of evaluations of each operand, or "
              "exception type); likewise augmented assignment against the documented aggregator and `#*` calls against the pyops function. "
              "Exhaustive within the stated pools and arities.")
RULE = ("cases enumerated per (form, operator, arity) in lexicographic order of operand tuples over the pool; every (form, operator, arity, tuple) is distinct; "
        "non-trivial = the case is not a plain binary operation: arity >= 3 (fold direction / chaining / aggregator), arity <= 1 (documented nullary or unary form), "
        "augmented assignment with >= 2 extra arguments, or a #* call; counted per case")
ASSUMPTIONS = [
    "operand values from the listed pools only (ints incl. negative and zero, bool, float, str, list, set, None; a class with only @ for the @ operator)",
    "operands are variables or (log i var) calls, not arbitrary forms (C01/C11 cover operand compilation)",
    "tuples whose ** tower would build an integer of more than ~10^6 bits are excluded (counted under counts.excluded_pow_blowup)",
    "operator forms that the docstrings do not list but macro and function both accept (only (@ x)) are 'unspecified': only macro == function is required",
    "the order in which operands are evaluated is not compared (docs/semantics.rst leaves it open); how often each is evaluated is",
    "the augmented-assignment target is a plain local variable",
]
ENGINE = "E1-enumerator"
TIME_CAP = {"quick": 600, "thorough": 3600}

# (pool, max arity) runs; a later run only adds the arities an earlier superset pool did not cover
BOUNDS = {
    "quick": dict(runs=[("full", 4), ("small", 6)], mat=5, unpack=[("full", 3), ("small", 4)]),
    "thorough": dict(runs=[("full", 5), ("mid", 6), ("tiny", 8)], mat=6, unpack=[("full", 4), ("mid", 5)]),
}


def bounds(tier):
    b = BOUNDS[tier]
    return {"operators": R.ALL_OPS, "augmented": [o + "=" for o in R.AUG_OPS],
            "pools": {k: R.POOLS[k] for k in sorted({p for p, _ in b["runs"]} | {"mat"} | {p for p, _ in b["unpack"]})},
            "runs[pool,max_arity]": b["runs"], "@_pool_max_arity": b["mat"], "unpack_runs": b["unpack"],
            "forms": ["value", "value+logged operands", "augmented assignment", "#* fallback (3 placements)", "arity one below/above range"]}


def _subset(a, b):
    return set(R.POOLS[a]) <= set(R.POOLS[b])


def _runs_for(op, tier, aug=False):
    """list of (pool, arity) with no tuple enumerated twice.  arity = number of
    operands (for augmented forms: target + values)."""
    b = BOUNDS[tier]
    runs = list(b["runs"])
    if op == "@":
        runs = [("mat", b["mat"]), ("full", 2)]
    out = []
    for i, (pool, n) in enumerate(runs):
        for ar in range(0, n + 1):
            if any(_subset(pool, p2) and ar <= n2 for p2, n2 in runs[:i]):
                continue
            out.append((pool, ar))
    return out


def _shards_main(tier):
    out = []
    for op in R.ALL_OPS:
        lo, hi = R.doc_range(op)
        for pool, ar in _runs_for(op, tier):
            if lo <= ar <= hi:
                if len(R.POOLS[pool]) ** ar > 40000:
                    for first in range(len(R.POOLS[pool])):
                        out.append(["val", op, ar, pool, first])
                else:
                    out.append(["val", op, ar, pool, -1])
    for op in R.AUG_OPS:
        lo, hi = R.aug_range(op)
        for pool, ar in _runs_for(op, tier):
            nv = ar - 1
            if lo <= nv <= hi:
                if len(R.POOLS[pool]) ** ar > 40000:
                    for first in range(len(R.POOLS[pool])):
                        out.append(["aug", op, ar, pool, first])
                else:
                    out.append(["aug", op, ar, pool, -1])
    for op in R.ALL_OPS:
        for i, (pool, n) in enumerate(BOUNDS[tier]["unpack"]):
            if op == "@":
                pool = "mat"
                if i:
                    continue
            lo_ar = 0 if i == 0 else BOUNDS[tier]["unpack"][0][1] + 1
            out.append(["unpack", op, lo_ar, pool, n])
    out.append(["arity", "", 0, "small", -1])
    return out


# ---------------------------------------------------------------- programs

def _names(n):
    return [f"a{i}" for i in range(n)]


def hy_value(op, n, logged=False):
    ops = [f"(log {i} a{i})" if logged else f"a{i}" for i in range(n)]
    return f"(setv f (fn [{' '.join(_names(n))}] ({' '.join([op] + ops)})))"


def py_value(op, n, logged=False):
    ops = [f"log({i}, a{i})" if logged else f"a{i}" for i in range(n)]
    return f"f = lambda {', '.join(_names(n))}: {R.py_expr(op, ops)}"


def hy_aug(op, n, logged=False):
    vals = [f"(log {i} a{i})" if logged else f"a{i}" for i in range(1, n)]
    return f"(setv f (fn [{' '.join(_names(n))}] ({op}= a0 {' '.join(vals)}) a0))"


def py_aug(op, n, logged=False):
    vals = [f"log({i}, a{i})" if logged else f"a{i}" for i in range(1, n)]
    return f"def f({', '.join(_names(n))}):\n    {R.aug_py_stmt(op, 'a0', vals)}\n    return a0\n"


UNPACK_FORMS = {
    "all": ("(setv f (fn [#* a] ({op} #* a)))", 0),
    "first+rest": ("(setv f (fn [a0 #* a] ({op} a0 #* a)))", 1),
    "init+last": ("(setv f (fn [#* a] ({op} #* (cut a None -1) (get a -1))))", 1),
}


class Compiled:
    """The functions of one (form, operator, arity), built once."""
    pass


def _hy_fn(text, events):
    from mc import hyside
    mod = hyside.fresh_module()

    def log(i, v):
        events.append(i)
        return v
    mod.log = log
    tree = hyside.compile_text(text, mod)
    exec(compile(tree, "<c03>", "exec"), mod.__dict__)
    return mod.f


def _py_fn(text, events):
    def log(i, v):
        events.append(i)
        return v
    g = {"log": log}
    exec(compile(text, "<c03-py>", "exec"), g)
    return g["f"]


def _pyops(op):
    import hy
    import hy.pyops
    return getattr(hy.pyops, hy.mangle(op))


def observe(f, specs, events):
    args = [R.make(s) for s in specs]
    del events[:]
    try:
        r = f(*args)
        ident = ""
        if isinstance(r, (list, set, R.M)):
            ident = "is-operand:" + ",".join(str(k) for k, a in enumerate(args) if r is a)
        out = "ok " + R.canon(r) + (" " + ident if ident else "")
    except Exception as e:
        out = "exc " + type(e).__name__
    post = [R.canon(a) for a in args]
    return out, post, sorted(events)


def _cls(out):
    return out.split(" ")[1].split(":")[0].split("[")[0].split("{")[0]


def _f16_shape(op, specs, py_out, fn_out):
    """Is this the 'function performs a comparison that the chained comparison skips' class?"""
    if op not in R.COMPARE or not py_out.startswith("ok bool:False") or not fn_out.startswith("exc "):
        return "other"
    args = [R.make(s) for s in specs]
    cmp = eval("lambda x, y: x " + R.OPS[op][0] + " y")
    seen_false = False
    for x, y in zip(args, args[1:]):
        try:
            v = cmp(x, y)
        except Exception as e:
            return "comparison-after-false-pair-raises" if seen_false and type(e).__name__ == fn_out[4:] else "other"
        if not v:
            seen_false = True
    return "other"


def _acts_like(c, specs, hy_logged_out):
    """Which aggregators would explain what Hy did on this tuple (value, operand
    post-state and operand evaluations)?  Comma-joined, in table order; a field
    for known-findings matchers."""
    if not hasattr(c, "alts"):
        names = [f"log({i}, a{i})" for i in range(1, c.ar)]
        c.alts = []
        for agg in R.ARITH:
            if R.OPS[agg][4]:
                text = f"def f({', '.join(_names(c.ar))}):\n    a0 {R.OPS[c.op][0]}= ({R.py_expr(agg, names)})\n    return a0\n"
                c.alts.append((agg, _py_fn(text, c.ev)))
    blow = R.pow_blowup([R.make(s) for s in specs[1:]])
    return ",".join(agg for agg, f in c.alts if not (agg == "**" and blow) and observe(f, specs, c.ev) == hy_logged_out) or "none"


# ---------------------------------------------------------------- per-shard work

def _tuples(pool, ar, first):
    vals = R.POOLS[pool]
    if ar == 0:
        yield ()
        return
    if first >= 0:
        for rest in itertools.product(vals, repeat=ar - 1):
            yield (vals[first],) + rest
    else:
        yield from itertools.product(vals, repeat=ar)


def _build(mode, op, ar, acc, case0):
    """compile everything for one (mode, op, arity).  Returns Compiled or None."""
    c = Compiled()
    c.ev = []
    c.mode, c.op, c.ar = mode, op, ar
    try:
        if mode == "val":
            c.documented = R.documented(op, ar)
            c.hy_text = hy_value(op, ar)
            c.macro = _hy_fn(c.hy_text, c.ev)
            c.macro_l = _hy_fn(hy_value(op, ar, True), c.ev)
            c.func = _pyops(op)
            if c.documented:
                c.py_text = py_value(op, ar)
                c.py = _py_fn(c.py_text, c.ev)
                c.py_l = _py_fn(py_value(op, ar, True), c.ev)
                # "(< x) -> True": the Python text doesn't mention x; Hy's evaluating it once is not contradicted by the docs
                c.cmp_events = not (ar == 1 and not R.py_unary_uses_operand(op))
            acc.evaluations += 2
        else:
            c.documented = True
            c.hy_text = hy_aug(op, ar)
            c.macro = _hy_fn(c.hy_text, c.ev)
            c.macro_l = _hy_fn(hy_aug(op, ar, True), c.ev)
            c.py_text = py_aug(op, ar)
            c.py = _py_fn(c.py_text, c.ev)
            c.py_l = _py_fn(py_aug(op, ar, True), c.ev)
            c.cmp_events = True
            c.func = None
            acc.evaluations += 2
    except Exception as e:
        acc.outcome("compile-error")
        acc.disagree("compile-failed", dict(case0, specs=[]), f"{type(e).__name__}: {e}",
                     sig=f"compile:{mode}:{op}:{ar}", op=op, arity=str(ar), exc=type(e).__name__)
        return None
    return c


def _check_tuple(acc, c, specs, case0):
    op, ar, mode = c.op, c.ar, c.mode
    case = dict(case0, specs=list(specs))
    opname = op + "=" if mode == "aug" else op
    acc.states += 1
    acc.transitions += 1
    if (ar >= 3) or (mode == "val" and ar <= 1):
        acc.nontrivial += 1
    m_out = observe(c.macro, specs, c.ev)
    ml_out = observe(c.macro_l, specs, c.ev)
    acc.evaluations += 2
    if c.documented:
        p_out = observe(c.py, specs, c.ev)
        pl_out = observe(c.py_l, specs, c.ev)
        acc.traces += 1
        acc.outcome(f"{'cmp' if op in R.COMPARE else 'aug' if mode == 'aug' else 'arith'}:{_cls(p_out[0])}")
        kind = "augassign-differs-from-documented-aggregator" if mode == "aug" and ar >= 3 else \
            "augassign-differs-from-python" if mode == "aug" else "macro-differs-from-python-expansion"
        extra = {}
        if mode == "aug" and ar >= 3 and (m_out[:2] != p_out[:2] or ml_out != pl_out):
            extra["acts_like"] = _acts_like(c, specs, ml_out)
        if m_out[:2] != p_out[:2]:
            acc.disagree(kind, dict(case, variant="plain"),
                         f"{c.hy_text}  on {specs}: Hy gives {m_out[0]} (operands after: {m_out[1]}); documented Python `{c.py_text.strip()}` gives {p_out[0]} (operands after: {p_out[1]})",
                         sig=f"{kind}:{opname}:{min(ar, 3)}", op=opname, arity=str(ar), expected=_cls(p_out[0]), got=_cls(m_out[0]), **extra)
        elif (ml_out[:2] != pl_out[:2]) or (c.cmp_events and ml_out[2] != pl_out[2]):
            acc.disagree(kind, dict(case, variant="logged"),
                         f"logged operands, {c.hy_text} on {specs}: Hy gives {ml_out[0]} evaluating operands {ml_out[2]}; Python gives {pl_out[0]} evaluating {pl_out[2]}",
                         sig=f"{kind}:logged:{opname}:{min(ar, 3)}", op=opname, arity=str(ar), expected=_cls(pl_out[0]), got=_cls(ml_out[0]),
                         variant="logged", **extra)
        ref_out = p_out
    else:
        acc.unspecified += 1
        acc.outcome(f"undocumented-form:{_cls(m_out[0])}")
        ref_out = None
    if c.func is not None:
        f_out = observe(c.func, specs, c.ev)
        acc.evaluations += 1
        if ref_out is not None:
            if f_out[:2] != ref_out[:2]:
                shape = _f16_shape(op, specs, ref_out[0], f_out[0])
                acc.disagree("pyops-function-differs-from-python-expansion", dict(case, variant="function"),
                             f"(hy.pyops.{op} {' '.join(specs)}) gives {f_out[0]}; documented Python `{c.py_text.strip()}` gives {ref_out[0]}; macro gives {m_out[0]}",
                             sig=f"func:{op}:{shape}", op=op, arity=str(ar), expected=_cls(ref_out[0]), got=_cls(f_out[0]), shape=shape)
        elif f_out[:2] != m_out[:2]:
            acc.disagree("macro-differs-from-pyops-function", dict(case, variant="function"),
                         f"{c.hy_text} on {specs}: macro gives {m_out[0]}, function gives {f_out[0]}",
                         sig=f"macro-vs-func:{op}:{ar}", op=op, arity=str(ar), expected=_cls(f_out[0]), got=_cls(m_out[0]))


def _run_val_or_aug(acc, mode, op, ar, pool, first, only=None):
    case0 = {"mode": mode, "op": op, "arity": ar, "pool": pool}
    c = _build(mode, op, ar, acc, case0)
    if c is None:
        return
    n = 0
    for specs in ([tuple(only)] if only is not None else _tuples(pool, ar, first)):
        if op == "**" and ar >= 3 and R.pow_blowup([R.make(s) for s in specs]):
            acc.count("excluded_pow_blowup")
            continue
        _check_tuple(acc, c, specs, case0)
        n += 1
        if n % 4001 == 1:
            acc.sample({"hy": c.hy_text, "python": getattr(c, "py_text", None), "operands": list(specs)})


def _run_unpack(acc, op, lo_ar, pool, n, only=None, only_form=None):
    ev = []
    try:
        func = _pyops(op)
    except Exception as e:
        acc.outcome("compile-error")
        acc.disagree("compile-failed", {"mode": "unpack", "op": op, "form": "all", "pool": pool, "specs": []}, f"import hy.pyops: {type(e).__name__}: {e}",
                     sig="compile:pyops-import", op=op, exc=type(e).__name__)
        return
    fns = {}
    for name, (tmpl, minlen) in UNPACK_FORMS.items():
        text = tmpl.format(op=op)
        try:
            fns[name] = (_hy_fn(text, ev), minlen, text)
            acc.evaluations += 1
        except Exception as e:
            acc.outcome("compile-error")
            acc.disagree("compile-failed", {"mode": "unpack", "op": op, "form": name, "pool": pool, "specs": []}, f"{text}: {type(e).__name__}: {e}",
                         sig=f"compile:unpack:{op}:{name}", op=op, exc=type(e).__name__)
    for ar in range(lo_ar, n + 1):
        for specs in ([tuple(only)] if only is not None else _tuples(pool, ar, -1)):
            if len(specs) != ar:
                continue
            if op == "**" and ar >= 3 and R.pow_blowup([R.make(s) for s in specs]):
                acc.count("excluded_pow_blowup")
                continue
            f_out = observe(func, specs, ev)
            acc.evaluations += 1
            for name, (f, minlen, text) in fns.items():
                if ar < minlen or (only_form and name != only_form):
                    continue
                acc.states += 1
                acc.transitions += 1
                acc.nontrivial += 1
                acc.traces += 1
                m_out = observe(f, specs, ev)
                acc.evaluations += 1
                acc.outcome(f"unpack:{_cls(f_out[0])}")
                if m_out[:2] != f_out[:2]:
                    acc.disagree("unpack-fallback-differs-from-pyops-function",
                                 {"mode": "unpack", "op": op, "form": name, "pool": pool, "specs": list(specs)},
                                 f"{text} called with {specs} gives {m_out[0]}; hy.pyops.{op}(*operands) gives {f_out[0]}",
                                 sig=f"unpack:{op}:{name}", op=op, form=name, arity=str(ar), expected=_cls(f_out[0]), got=_cls(m_out[0]))
            if only is not None:
                return


def _compiles(text):
    """-> ('ok', fn) | ('user-error', exc name) | ('other-error', exc name)"""
    from mc import hyside
    ev = []
    try:
        return "ok", _hy_fn(text, ev)
    except Exception as e:
        return ("user-error" if hyside.is_user_error(e) else "other-error"), type(e).__name__ + ": " + str(e)[:120]


def _func_accepts(op, n):
    import inspect
    try:
        inspect.signature(_pyops(op)).bind(*([0] * n))
        return True
    except TypeError:
        return False


def _run_arity(acc, only=None):
    """one below / one above the documented range, for plain and augmented forms."""
    cases = []
    for op in R.ALL_OPS:
        lo, hi = R.doc_range(op)
        for ar in ([lo - 1] if lo > 0 else []) + ([hi + 1] if hi < R.INF else []):
            cases.append(("val", op, ar))
    for op in R.AUG_OPS:
        lo, hi = R.aug_range(op)
        for nv in [-1, 0] + ([hi + 1] if hi < R.INF else []):
            cases.append(("aug", op, nv + 1))
    for mode, op, ar in cases:
        if only is not None and [mode, op, ar] != only:
            continue
        case = {"mode": "arity", "form": mode, "op": op, "arity": ar}
        acc.states += 1
        acc.transitions += 1
        acc.nontrivial += 1
        acc.traces += 1
        acc.evaluations += 1
        if mode == "aug":
            text = f"(setv f (fn [{' '.join(_names(max(ar, 1)))}] ({' '.join([op + '='] + _names(ar))}) a0))"
            st, info = _compiles(text)
            acc.outcome(f"arity:aug:{st}")
            if st != "user-error":
                acc.disagree("arity-not-rejected" if st == "ok" else "arity-reject-not-user-error", case,
                             f"{text} must be a Hy syntax error (augmented assignment needs a target and, for {op}=, "
                             f"{'exactly one value' if R.OPS[op][5] is None else 'at least one value'}); got {st} {info if st != 'ok' else ''}",
                             sig=f"arity:aug:{op}:{ar}:{st}", op=op + "=", arity=str(ar), got=st)
            continue
        text = hy_value(op, ar)
        st, info = _compiles(text)
        facc = _func_accepts(op, ar)
        acc.outcome(f"arity:val:{st}:func={'accepts' if facc else 'rejects'}")
        if st == "other-error":
            acc.disagree("arity-reject-not-user-error", case, f"{text}: {info}", sig=f"arity:val:{op}:{ar}:other", op=op, arity=str(ar), got=st)
        elif (st == "ok") != facc:
            acc.disagree("arity-acceptance-differs", case,
                         f"{text}: macro {'compiles' if st == 'ok' else 'is rejected (' + str(info) + ')'} but hy.pyops.{op} "
                         f"{'accepts' if facc else 'rejects'} {ar} argument(s); the docstring lists no form with {ar} argument(s)",
                         sig=f"arity:val:{op}:{ar}:mismatch", op=op, arity=str(ar), got=st)
        elif st == "ok":
            # a form the docstring doesn't list but both accept: unspecified; macro must still equal the function
            pool = "mat" if op == "@" else "full"
            _run_val_or_aug(acc, "val", op, ar, pool, -1)


def _run_shard_main(shard, tier):
    acc = Acc()
    mode, op, ar, pool, extra = shard
    with warnings.catch_warnings():
        warnings.simplefilter("ignore")
        if mode in ("val", "aug"):
            _run_val_or_aug(acc, mode, op, ar, pool, extra)
        elif mode == "unpack":
            _run_unpack(acc, op, ar, pool, extra)
        else:
            _run_arity(acc)
            _check_documented_aggregators(acc)
    return acc.result()


def _check_documented_aggregators(acc):
    """The reference table's aggregators are transcribed from the hy.pyops docstrings; keep the two bound together:
    a docstring that names another aggregator (or stops naming one) than the table is reported."""
    import re
    import hy
    import hy.pyops
    from mc.ref import cd_ops
    for op, row in cd_ops.OPS.items():
        if not row[4]:
            continue
        fn = getattr(hy.pyops, hy.mangle(op), None)
        doc = getattr(fn, "__doc__", None) or ""
        m = re.search(r"Aggregator for augmented assignment: :hy:func:`(\S+) <", doc)
        documented = m.group(1) if m else op
        acc.evaluations += 1
        if row[5] is not None and documented != row[5]:
            acc.disagree("docstring-aggregator-differs-from-reference-table", {"mode": "doc", "op": op},
                         f"hy.pyops.{op} documents aggregator {documented!r}; reference table (transcribed from the docs) has {row[5]!r}",
                         sig="docagg:" + op, op=op)


def _recheck_main(case, tier):
    acc = Acc()
    with warnings.catch_warnings():
        warnings.simplefilter("ignore")
        if case["mode"] == "doc":
            _check_documented_aggregators(acc)
            acc.disagreements = [d for d in acc.disagreements if d["case"]["op"] == case["op"]]
        elif case["mode"] in ("val", "aug"):
            _run_val_or_aug(acc, case["mode"], case["op"], case["arity"], case["pool"], -1, only=case["specs"])
        elif case["mode"] == "unpack":
            _run_unpack(acc, case["op"], len(case["specs"]), case["pool"], len(case["specs"]), only=case["specs"], only_form=case["form"])
        else:
            _run_arity(acc, only=[case["form"], case["op"], case["arity"]])
    return acc.disagreements


def snippet(d):
    c = d["case"]
    if c["mode"] == "arity":
        return f"import hy\n# {d['detail']}\n"
    vals = ", ".join(c["specs"])
    if "M(" in vals:
        return ("import hy, hy.pyops\nclass M:\n    def __init__(s, t): s.s = t\n    def __matmul__(s, o): return M('(' + s.s + o.s + ')') if isinstance(o, M) else NotImplemented\n"
                f"    def __repr__(s): return 'M(%r)' % s.s\n# {d['detail']}\n")
    if c["mode"] == "unpack":
        text = UNPACK_FORMS[c["form"]][0].format(op=c["op"])
        return (f"import hy, hy.pyops\nhy.eval(hy.read_many({text!r}), globals())\n"
                f"def show(t):\n    try: print(t())\n    except Exception as e: print(type(e).__name__, e)\n"
                f"show(lambda: f({vals}))\nshow(lambda: getattr(hy.pyops, hy.mangle({c['op']!r}))({vals}))\n")
    if c["mode"] == "aug":
        hy_t, py_t = hy_aug(c["op"], c["arity"]), py_aug(c["op"], c["arity"])
        return (f"import hy\nhy.eval(hy.read_many({hy_t!r}), globals())\nhy_f = f\nexec({py_t!r})\n"
                f"def show(t):\n    try: print(t())\n    except Exception as e: print(type(e).__name__, e)\n"
                f"show(lambda: hy_f({vals}))   # Hy\nshow(lambda: f({vals}))      # documented aggregator, in Python\n")
    hy_t = hy_value(c["op"], c["arity"])
    py_t = py_value(c["op"], c["arity"]) if R.documented(c["op"], c["arity"]) else "f = None"
    return (f"import hy, hy.pyops\nhy.eval(hy.read_many({hy_t!r}), globals())\nhy_f = f\n{py_t}\n"
            f"def show(t):\n    try: print(t())\n    except Exception as e: print(type(e).__name__, e)\n"
            f"show(lambda: hy_f({vals}))   # macro\nshow(lambda: f({vals}))      # documented Python expansion\n"
            f"show(lambda: getattr(hy.pyops, hy.mangle({c['op']!r}))({vals}))   # hy.pyops function\n")


# ---------------------------------------------------------------- augmented assignment with #* among the extra arguments
# (op= x a0 #* rest) must equal x op= AGG(a0, *rest): "augmented assignment with three or more arguments equals assignment of the
# documented aggregator over the extra arguments", and a macro call containing #* falls back to the pyops function.
AUGUNPACK_FORMS = {
    "first+rest": "(setv f (fn [x a0 #* a] ({op}= x a0 #* a) x))",
    "rest+last": "(setv f (fn [x a0 #* a] ({op}= x #* a a0) x))",
}
AUGUNPACK_VALUES = [0, 1, 2, -1, 1.5, "a"]


def shards(tier):
    return list(_shards_main(tier)) + [["augunpack", op] for op in R.AUG_OPS if R.OPS[op][4] and R.OPS[op][5] is not None]


def _augunpack_case(acc, op, form, x, extras):
    import itertools
    ev = []
    text = AUGUNPACK_FORMS[form].format(op=op)
    case = {"mode": "augunpack", "op": op, "form": form, "x": x, "extras": list(extras), "text": text}
    try:
        f = _hy_fn(text, ev)
    except Exception as e:
        acc.outcome("compile-error")
        acc.disagree("compile-failed", case, f"{text}: {type(e).__name__}: {e}", sig=f"compile:augunpack:{op}:{form}", op=op, exc=type(e).__name__)
        return False
    agg = _pyops(R.OPS[op][5])
    binop = eval("lambda a, b: a " + R.OPS[op][0] + " b")

    def expected():
        try:
            if form == "rest+last":
                vals = list(extras[1:]) + [extras[0]]
            else:
                vals = list(extras)
            # the form has >= 3 arguments syntactically, so the aggregator is applied to however many values arrive at run time
            return "ok " + repr(binop(x, agg(*vals)))
        except Exception as e:
            return "exc " + type(e).__name__

    def got():
        try:
            if form == "all-unpacked":
                return "ok " + repr(f(x, *extras))
            return "ok " + repr(f(x, extras[0], *extras[1:]))
        except Exception as e:
            return "exc " + type(e).__name__
    e, g = expected(), got()
    acc.states += 1
    acc.transitions += 1
    acc.traces += 1
    acc.evaluations += 1
    acc.nontrivial += 1
    acc.outcome("augunpack:" + e.split(" ")[0])
    if e != g:
        acc.disagree("augassign-with-unpack-differs-from-documented-aggregator", case,
                     f"{text} on x={x!r}, extras={list(extras)!r} gives {g}; x {op}= hy.pyops.{R.OPS[op][5]}(*extras) gives {e}",
                     sig=f"augunpack:{op}:{form}", op=op, form=form)
    return True


def run_shard(shard, tier):
    if shard[0] == "augunpack":
        import itertools
        acc = Acc()
        op = shard[1]
        for form in AUGUNPACK_FORMS:
            for n in (1, 2, 3):
                for extras in itertools.product(AUGUNPACK_VALUES[:4] if n == 3 else AUGUNPACK_VALUES, repeat=n):
                    for x in (1, 2, 1.5, "a", (1,)):
                        if not _augunpack_case(acc, op, form, x, extras):
                            break
            acc.sample({"hy": AUGUNPACK_FORMS[form].format(op=op)})
        return acc.result()
    return _run_shard_main(shard, tier)


def recheck(case, tier):
    if case.get("mode") == "augunpack":
        acc = Acc()
        _augunpack_case(acc, case["op"], case["form"], case["x"], tuple(case["extras"]))
        return acc.disagreements
    return _recheck_main(case, tier)
