"""C18  Reading any text either yields models or raises a Hy syntax error.

Space: every token string up to length n over a 46-token alphabet of Hy's
syntax-significant characters and short tokens, plus every single-token
deletion / insertion / replacement of each program of a fixed corpus of valid
programs; plus "pumped" texts: every token repeated 48 (thorough: also 400)
times between each of 9 prefixes and each suffix of <= 2 tokens over 7
characters (super-linear reader steps show as the watchdog firing).
Oracle (invariant on every execution): list(hy.read_many(s)) returns, or
raises LexException / PrematureEndOfInput (both SyntaxError subclasses); any
other exception type, or not terminating within the watchdog, is a violation.
"""
from mc import enumer
from mc.util import Acc, time_limit, CaseTimeout

ID = "C18"
TECHNIQUE = "bounded exhaustive enumeration of all token strings up to length n (plus all single-token edits of a corpus) run on the real reader with an exception-type invariant"
LEVEL_TEXT = ("Every string of up to n tokens over the alphabet is read by the real hy.read_many; the invariant "
              "'returns models or raises LexException/PrematureEndOfInput, and terminates' is evaluated on every one. "
              "Exhaustive within the bound, so a reader path that leaks ValueError/TypeError/IndexError/etc. on any short "
              "token combination is found, not sampled.")
RULE = ("length-then-lexicographic enumeration of all token strings; all cases distinct as token sequences; "
        "non-trivial = the text contains at least one non-identifier token (delimiter, quote, prefix, '#', string opener, escape, whitespace) — "
        "counted per case; outcome classes = (result kind, exception class, message head)")
ASSUMPTIONS = [
    "texts over the listed tokens only; length bound as stated",
    "no user reader macros are defined while reading (C37 covers those)",
    "watchdog: 10 s per case counts as non-termination",
]

ALPHA = ["(", ")", "[", "]", "{", "}", "#", '"', "'", "`", "~", "@", ";", ":", ".", "\\",
         " ", "\n", "\r", "\t", "a", "f", "b", "r", "t", "1", "0", "x", "e", "j", "_", ",",
         "-", "+", "*", "^", "!", "=", "N", "u", "\u00e9", "\U0001d538",
         "#_", "#[", 'f"', 'b"']
PLAIN = set("afbrtxeju_N\u00e9\U0001d538")
CORE = ["(", ")", "[", "]", "{", "}", "#", '"', "'", "~", ";", ":", ".", "\\", " ", "a", "f", "!"]

CORPUS = [
    '(defn f [x #* a #** k] (+ x 1))',
    '#[d[ab]d] f"a{x !r:>{w}}b" b"\\x00" r"\\d"',
    "'(a . b) `(~x ~@y) #^ int z #_ q #(1 2) #{3} {4 5}",
    '(.m o) a.b.c ..r :kw 1_000 0x1F 1.5e3 2+3j -Inf NaN ; c\n#*x #**y',
    '#[f-q[a{(+ 1 2)}b{{]f-q] "s\\N{DASH}\\u00e9\\n" #[[\n]]',
]

BOUNDS = {
    "quick": dict(n=4, alpha="full", core_n=0, shards=256),
    "thorough": dict(n=5, alpha="full", core_n=6, shards=4096),
}
TIME_CAP = {"quick": 600, "thorough": 3600}


def bounds(tier):
    b = BOUNDS[tier]
    return {"pumped_texts": {"token_repeats": PUMP_K[tier], "prefixes": PUMP_PRE, "suffixes": "all strings of <= 2 tokens over %r" % PUMP_SUF_ALPHA},
            "alphabet": ALPHA, "max_tokens": b["n"], "core_alphabet": CORE if b["core_n"] else [],
            "core_max_tokens": b["core_n"], "corpus": CORPUS, "corpus_edits": "every single-token deletion, insertion, replacement"}


# "pumped" texts: one token repeated PUMP_K times between a short prefix and a short suffix.  A reader step whose cost
# grows faster than linearly in the length of a token run (backtracking, re-scanning) shows as the watchdog firing.
PUMP_K = {"quick": [48], "thorough": [48, 400]}
PUMP_PRE = ["", "(", ".", '"', "#[", 'f"', ":", "a.", "#"]
PUMP_SUF_ALPHA = [".", "a", ")", '"', " ", "#", ":"]


def pump_cases(tier, ti):
    import itertools
    t = ALPHA[ti]
    sufs = [""] + ["".join(c) for n in (1, 2) for c in itertools.product(PUMP_SUF_ALPHA, repeat=n)]
    for k in PUMP_K[tier]:
        for pre in PUMP_PRE:
            for suf in sufs:
                yield pre + t * k + suf


def _shards_main(tier):
    b = BOUNDS[tier]
    out = [["pump", ti, 0] for ti in range(len(ALPHA))]
    out += [["full", lo, hi] for lo, hi in enumer.string_shards(len(ALPHA), b["n"], b["shards"])]
    if b["core_n"]:
        # strings over the core alphabet longer than the full bound
        lo0 = enumer.count_strings(len(CORE), b["n"])
        total = enumer.count_strings(len(CORE), b["core_n"])
        step = -(-(total - lo0) // b["shards"])
        out += [["core", lo, min(total, lo + step)] for lo in range(lo0, total, step)]
    for i in range(len(CORPUS)):
        out.append(["corpus", i, 0])
    return out


def tokenize(prog):
    toks = []
    i = 0
    multi = sorted([t for t in ALPHA if len(t) > 1], key=len, reverse=True)
    while i < len(prog):
        for m in multi:
            if prog.startswith(m, i):
                toks.append(m)
                i += len(m)
                break
        else:
            toks.append(prog[i])
            i += 1
    return toks


def corpus_cases(i):
    toks = tokenize(CORPUS[i])
    seen = set()
    for p in range(len(toks) + 1):
        variants = []
        if p < len(toks):
            variants.append(toks[:p] + toks[p + 1:])
            for a in ALPHA:
                variants.append(toks[:p] + [a] + toks[p + 1:])
        for a in ALPHA:
            variants.append(toks[:p] + [a] + toks[p:])
        for v in variants:
            s = "".join(v)
            if s not in seen:
                seen.add(s)
                yield s


def observe(text):
    """Return (ok, outcome_class, detail)."""
    import hy
    from hy.reader.exceptions import LexException, PrematureEndOfInput
    try:
        with time_limit(10):
            forms = list(hy.read_many(text))
        return True, f"models:{min(len(forms), 3)}", None
    except PrematureEndOfInput as e:
        return True, "PrematureEndOfInput", None
    except LexException as e:
        import re
        return True, "LexException:" + re.sub(r"'[^']*'|\\.|[^A-Za-z ]", "", str(getattr(e, "msg", e)))[:32].strip(), None
    except CaseTimeout:
        return False, "timeout", "reader did not terminate within 10 s"
    except BaseException as e:
        return False, "other:" + type(e).__name__, f"{type(e).__name__}: {e}"


def _case(acc, text, ntok):
    ok, cls, detail = observe(text)
    acc.states += 1
    acc.transitions += ntok + 1
    acc.traces += 1
    acc.evaluations += 1
    if any(ch not in PLAIN for ch in text):
        acc.nontrivial += 1
    acc.outcome(cls)
    if not ok:
        acc.disagree("reader-raised-non-hy-error" if cls != "timeout" else "reader-nontermination",
                     {"text": text}, detail, sig=cls + ":" + (detail or "")[:60], exc=cls)


def _run_shard_main(shard, tier):
    b = BOUNDS[tier]
    acc = Acc()
    kind, lo, hi = shard
    if kind == "pump":
        for n, s in enumerate(pump_cases(tier, lo)):
            _case(acc, s, PUMP_K[tier][0])
            if n % 211 == 7:
                acc.sample(s[:20] + "..." + s[-6:])
    elif kind == "full":
        for idx, toks in enumer.iter_strings(ALPHA, lo, hi, b["n"]):
            _case(acc, "".join(toks), len(toks))
            if idx % 50021 == 0:
                acc.sample("".join(toks))
    elif kind == "core":
        for idx, toks in enumer.iter_strings(CORE, lo, hi, b["core_n"]):
            _case(acc, "".join(toks), len(toks))
            if idx % 500009 == 0:
                acc.sample("".join(toks))
    else:
        n = 0
        for s in corpus_cases(lo):
            _case(acc, s, 1)
            n += 1
            if n % 1500 == 1:
                acc.sample(s)
    return acc.result()


def _recheck_main(case, tier):
    acc = Acc()
    _case(acc, case["text"], 1)
    return acc.disagreements


def snippet(d):
    return (f"import hy\ntext={d['case']['text']!r}\n"
            "try:\n    print(list(hy.read_many(text)))\n"
            "except SyntaxError as e:\n    print('ok, Hy syntax error:', type(e).__name__)\n"
            "# any other exception type escaping here violates C18\n")


# ---------------------------------------------------------------- reader reuse leg (E2: histories of two reads on ONE reader)
def shards(tier):
    return list(_shards_main(tier)) + [["reuse-leg"]]


def _reuse_case(acc, t1, t2, how):
    from mc.ref import rd_reuse
    fresh, reused = rd_reuse.run_pair(t1, t2, how)
    acc.states += 1
    acc.transitions += 2
    acc.traces += 1
    acc.evaluations += 2
    acc.nontrivial += 1
    acc.outcome("reuse:" + fresh[0] + "/" + reused[0])
    if reused[0] == "OTHER":
        acc.disagree("reused-reader-raised-non-hy-error", {"reuse": [t1, t2, how]},
                     f"after reading {t1!r} ({how}) with a HyReader, reading {t2!r} with the SAME reader gave {str(reused)[:200]}; a fresh reader gives {str(fresh)[:200]}",
                     sig="reused-reader-raised-non-hy-error:" + reused[0], how=how)


def run_shard(shard, tier):
    if shard == ["reuse-leg"]:
        from mc.util import Acc as _Acc
        from mc.ref import rd_reuse
        acc = _Acc()
        for i, (t1, t2, how) in enumerate(rd_reuse.pairs()):
            _reuse_case(acc, t1, t2, how)
            if i % 487 == 0:
                acc.sample({"first_source": t1, "second_source": t2, "first_read": how})
        return acc.result()
    return _run_shard_main(shard, tier)


def recheck(case, tier):
    if "reuse" in case:
        from mc.util import Acc as _Acc
        acc = _Acc()
        _reuse_case(acc, *case["reuse"])
        return acc.disagreements
    return _recheck_main(case, tier)
