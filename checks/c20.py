"""C20  Whitespace, comments, discards and reader sugar are transparent.

Space A (separators): every sequence of k forms from a 24-form alphabet (chosen
for their first and last characters) with separators from {nothing, each of
the six ASCII whitespace characters, ';c\\n', ';\\n', '#_ x', '#_(y)',
'#_ #_ a b', '#_"s"' and all ordered pairs of those} at the boundaries, placed
at top level, inside each of the five sequence kinds, and as the operand list
of each prefix (' ` ~ ~@ #* #** #^ #_).

Oracle: mc.ref.rd_lexer (syntax.rst transcribed) splits the text into its
top-level form texts.  Reading the whole text must give exactly the models of
those form texts read one by one (wrapped as the context demands).  When the
split equals the forms that were put in (every junction is separating) this
is the property itself; when a junction is NOT separating (no separator, or
'#_…', directly after an identifier character merges tokens) the text is
checked for exactly the merged reading; when the merged token is not itself a
readable form the case is unspecified.

Space B (sugar): every reader term up to n nodes (mc.ref.rd_terms) containing
sugar; the text with ' ` ~ ~@ #* #** #^ must read equal to the text in which
every sugar node is replaced by the long form (quote …) … (annotate F A).
"""
from mc.util import Acc

ID = "C20"
TECHNIQUE = ("bounded exhaustive enumeration of form sequences x separators x contexts, and of all sugared reader terms up to n nodes; "
             "the real reader compared with a lexical reference model plus the reader's own reading of the individual forms")
LEVEL_TEXT = ("Every combination of up to k alphabet forms with every listed separator (and pair of separators) at the boundaries is read "
              "in every listed context; the result must equal the concatenation of the individually read forms as delimited by a "
              "character-level model of syntax.rst. Every sugared term up to n nodes must read equal to its long form. Exhaustive "
              "within the bounds: a separator that swallows, splits or merges forms after one particular token kind is found.")
RULE = ("cases = (context, forms, separators) in nested-loop order, all distinct by construction; non-trivial = at least one boundary "
        "carries something other than a single space; outcome classes = (junction class, context, result)")
ASSUMPTIONS = [
    "forms and separators from the listed alphabets only; k, contexts and separator placement per tier as listed in bounds",
    "junctions the lexical model calls non-separating (identifier character followed directly by an identifier character, '#', or '\"') "
    "are checked against the merged reading when every merged token is itself a readable form, otherwise counted unspecified "
    "(e.g. a\"s\" -- an identifier directly before a string is an (invalid) string prefix; 1.a; :k.a)",
    "hash prefixes (#* #** #^ #_) directly followed by an identifier character form a different reader-macro name: unspecified, skipped",
    "f-string fields as a context are not enumerated (their verbatim `expression` text legitimately changes with separators)",
    "sugar leg: FComponent.expression (verbatim source of an f-string field) is ignored when comparing sugar with long forms",
]
TIME_CAP = {"quick": 900, "thorough": 3000}

FORMS = [
    "a", "ab", "1", "-1.5e3", ":k", "a.b", ".a", "...",
    "(a)", "()", "[a b]", "{a 1}", "#(a)", "#{a}",
    '"s"', 'b"x"', 'r"\\d"', 'f"{a}"',
    "#[[s]]", "#[f[{a}]f]",
    "'a", "`(a ~b)", "~@a", "#* a", "#** (a)", "#^ a b",
]
CORE_FORMS = ["a", "1", ":k", "a.b", "(a)", "#{a}", '"s"', "#[[s]]", "'a", "#* a"]
SINGLES = [" ", "\t", "\n", "\r", "\x0b", "\x0c", ";c\n", ";\n", "#_ x", "#_(y)", "#_ #_ a b", '#_"s"']
PAIRS = [a + b for a in SINGLES for b in SINGLES]
ALL = [""] + SINGLES + PAIRS
ONE = [""] + SINGLES
CORE_SEPS = ["", " ", "\n", ";c\n", "#_ x", "#_(y)"]

SEQ_CTX = {"paren": ("(", ")", "Expression"), "brack": ("[", "]", "List"), "brace": ("{", "}", "Dict"),
           "tuple": ("#(", ")", "Tuple"), "set": ("#{", "}", "Set")}
PRE_CTX = {"quote": ("'", "quote"), "quasiquote": ("`", "quasiquote"), "unquote": ("~", "unquote"),
           "unquote-splice": ("~@", "unquote-splice"), "unpack-iterable": ("#*", "unpack-iterable"),
           "unpack-mapping": ("#**", "unpack-mapping")}
CTX_ALL = ["top"] + list(SEQ_CTX) + list(PRE_CTX) + ["discard", "annotate"]
CTX_SOME = ["top", "paren", "set", "quote", "discard"]

BOUNDS = {
    "quick": dict(k1="edges", k2_outer=[("", "")], k3_forms="core", k3_seps="core", k3_ctx=["top", "paren"], k4=False,
                  sugar=[("full", 1, 3)]),
    "thorough": dict(k1="all", k2_outer="one-sided", k3_forms="all", k3_seps="one", k3_ctx=["top", "brack"], k4=True,
                     sugar=[("full", 1, 3), ("core", 4, 5)]),
}


def bounds(tier):
    b = BOUNDS[tier]
    return {
        "forms": FORMS, "core_forms": CORE_FORMS, "single_separators": SINGLES, "pair_separators": "all 144 ordered pairs of the singles",
        "core_separators": CORE_SEPS, "contexts_k1": CTX_ALL, "contexts_k2": CTX_SOME,
        "k1": ("lead x trail over (all x {''}) + ({''} x all) + (singles x singles)" if b["k1"] == "edges" else "lead x trail over all x all"),
        "k2": "middle separator over all 157; (lead, trail) over " + ("('','') only" if b["k2_outer"] != "one-sided" else "('','') + singles x {''} + {''} x singles"),
        "k3": f"forms={b['k3_forms']} separators={b['k3_seps']} (both inner boundaries), contexts {b['k3_ctx']}",
        "k4": "core forms, core separators at the three inner boundaries, top level" if b["k4"] else "not in this tier",
        "sugar_terms": [dict(alphabet=a, nodes_from=lo, nodes_to=hi) for a, lo, hi in b["sugar"]],
    }


def shards(tier):
    b = BOUNDS[tier]
    out = []
    for i in range(len(FORMS)):
        if b["k1"] == "all":
            for lo in range(0, len(ALL), 40):
                out.append(["k1", i, lo, min(len(ALL), lo + 40)])
        else:
            out.append(["k1", i, 0, 0])
    for i in range(len(FORMS)):
        if b["k2_outer"] == "one-sided":
            for j in range(len(FORMS)):
                out.append(["k2", i, j, j + 1])
        else:
            for j in range(0, len(FORMS), 9):
                out.append(["k2", i, j, min(len(FORMS), j + 9)])
    forms3 = CORE_FORMS if b["k3_forms"] == "core" else FORMS
    for i in range(len(forms3)):
        if b["k3_forms"] == "core":
            out.append(["k3", i, 0, len(forms3)])
        else:
            for j in range(len(forms3)):
                out.append(["k3", i, j, j + 1])
    if b["k4"]:
        for i in range(len(CORE_FORMS)):
            for j in range(len(CORE_FORMS)):
                out.append(["k4", i, j, 0])
    out.append(["eofcomment", 0, 0, 0])
    from mc.ref import rd_terms as T
    for alpha, lo, hi in b["sugar"]:
        g = _gen(alpha)
        for n in range(lo, hi + 1):
            total = len(g.forms(n))
            step = 3000
            for a in range(0, total, step):
                out.append(["sugar", alpha, n, a, min(total, a + step)])
    return out


_GENS = {}


def _gen(alpha):
    from mc.ref import rd_terms as T
    if alpha not in _GENS:
        _GENS[alpha] = T.Gen(alpha)
    return _GENS[alpha]


# ------------------------------------------------------------------ model side

_PIECE = {}


def piece_key(text):
    """Key of a form text read on its own: ('ok', key) if it reads as exactly
    one model, else ('bad', why)."""
    from mc.ref import rd_modelkey as K
    r = _PIECE.get(text)
    if r is None:
        got = K.read_keys(text)
        if got[0] == "ok" and len(got[1]) == 1:
            r = ("ok", got[1][0])
        elif got[0] == "ok":
            r = ("bad", f"reads as {len(got[1])} forms")
        else:
            r = ("bad", f"{got[1]}: {got[2]}")
        if len(_PIECE) < 200000:
            _PIECE[text] = r
    return r


def analyse(forms, seps):
    """text, expected keys (or None), class, pieces.  seps has len(forms)+1 entries."""
    from mc.ref import rd_lexer as LX
    parts = [seps[0]]
    spans = []
    pos = len(seps[0])
    for f, s in zip(forms, seps[1:]):
        spans.append((pos, pos + len(f)))
        parts.append(f)
        parts.append(s)
        pos += len(f) + len(s)
    text = "".join(parts)
    elems, ok, _ = LX.toplevel(text)
    if not ok:
        return text, None, "unspecified:not-whole-forms-lexically", None
    fspans = [(s, e) for k, s, e in elems if k == "form"]
    clean = fspans == spans
    if not clean:
        # a discard that swallowed a merged token: that token must itself be readable
        from mc.ref import rd_modelkey as K
        for k, s, e in elems:
            if k == "discard" and K.read_keys(text[s:e]) != ("ok", ()):
                return text, None, "unspecified:merged-token-is-not-a-readable-form", None
    keys = []
    for s, e in fspans:
        r = piece_key(text[s:e])
        if r[0] != "ok":
            return text, None, "unspecified:merged-token-is-not-a-readable-form", None
        keys.append(r[1])
    return text, keys, ("separating" if clean else "merged"), [text[s:e] for s, e in fspans]


def contexts_for(ctx, text, keys):
    """(full text, expected key tuple) or None when the context does not apply."""
    from mc.ref import rd_lexer as LX
    from mc.ref.rd_modelkey import sym, expr
    if ctx == "top":
        return text, tuple(keys)
    if ctx in SEQ_CTX:
        op, cl, name = SEQ_CTX[ctx]
        return op + text + cl, ((name, tuple(keys)),)
    first = text[:1]
    if ctx in PRE_CTX:
        p, long = PRE_CTX[ctx]
        if not keys:
            return None
        if p.startswith("#") and (LX.is_ident_char(first) or first == '"'):
            return None
        if p == "~" and first == "@":
            return None
        return p + text, (expr(sym(long), keys[0]),) + tuple(keys[1:])
    if LX.is_ident_char(first) or first == '"':
        return None
    if ctx == "discard":
        if not keys:
            return None
        return "#_" + text, tuple(keys[1:])
    if ctx == "annotate":
        if len(keys) < 2:
            return None
        return "#^" + text, (expr(sym("annotate"), keys[1], keys[0]),) + tuple(keys[2:])
    raise ValueError(ctx)


def sepkind(s):
    if s == "":
        return "none"
    k = set()
    i = 0
    if any(c in " \t\n\r\x0b\x0c" for c in s) and not s.strip(" \t\n\r\x0b\x0c"):
        return "ws"
    if ";" in s:
        k.add("comment")
    if "#_" in s:
        k.add("discard")
    if s[0] in " \t\n\r\x0b\x0c":
        k.add("ws-first")
    return "+".join(sorted(k))


def edge(f, last):
    from mc.ref import rd_lexer as LX
    c = f[-1] if last else f[0]
    if LX.is_ident_char(c):
        return "ident"
    return {'"': "quote", "'": "prefix", "`": "prefix", "~": "prefix"}.get(c, "delim")


def one_case(acc, forms, seps, ctxs, tier_label):
    from mc.ref import rd_modelkey as K
    text, keys, cls, pieces = analyse(forms, seps)
    nontrivial = any(s not in ("", " ") for s in seps)
    if keys is None:
        acc.states += 1
        acc.unspecified += 1
        acc.outcome(cls)
        return
    for ctx in ctxs:
        c = contexts_for(ctx, text, keys)
        if c is None:
            acc.count("context-not-applicable")
            continue
        full, expected = c
        acc.states += 1
        acc.transitions += len(seps)
        if nontrivial:
            acc.nontrivial += 1
        got = K.read_keys(full)
        acc.evaluations += 1
        acc.traces += 1
        if got[0] == "ok" and got[1] == expected:
            acc.outcome(f"{cls}:equal")
            continue
        acc.outcome(f"{cls}:{'differs' if got[0] == 'ok' else 'raises-' + got[1]}")
        kind = "separator-not-transparent" if cls == "separating" else "merged-token-junction-misread"
        case = {"leg": "sep", "forms": list(forms), "seps": list(seps), "ctx": ctx}
        what = (f"reads as {_short(got[1])}" if got[0] == "ok" else f"raises {got[1]}: {got[2]}")
        sk = "|".join(sorted({sepkind(s) for s in seps}))
        jn = "|".join(sorted({edge(a, True) + ">" + edge(b, False) for a, b in zip(forms, forms[1:])})) or "-"
        acc.disagree(kind, case,
                     f"{full!r} {what}; the lexical model delimits the form texts {pieces} (context {ctx}), "
                     f"whose individual readings give {_short(expected)}",
                     sig=f"{kind}:{ctx if ctx in ('top', 'discard', 'annotate') else ('seq' if ctx in SEQ_CTX else 'prefix')}:{sk}:{jn}:{got[0] if got[0] == 'ok' else got[1]}",
                     ctx=ctx, sepkinds=sk, junctions=jn, cls=cls, got=("differs" if got[0] == "ok" else got[1]),
                     msg=("" if got[0] == "ok" else _msgclass(got[2])))


def _short(x):
    s = repr(x)
    return s if len(s) < 300 else s[:300] + "…"


def _msgclass(msg):
    import re
    return re.sub(r"'[^']*'|\"[^\"]*\"|\\.|[^A-Za-z ,:-]", "", msg or "")[:60].strip()


# ------------------------------------------------------------------ sugar leg

def desugar(t):
    """The same term with every sugar node replaced by its long form."""
    from mc.ref import rd_terms as T
    k = t[0]
    if k in ("atom", "str", "bstr", "cmt"):
        return t
    if k == "seq":
        return ("seq", t[1], tuple(desugar(x) for x in t[2]))
    if k == "dis":
        return ("dis", tuple(desugar(x) for x in t[1]))
    if k == "pre":
        return ("seq", "(", (("atom", T.LONG[t[1]]),) + tuple(desugar(x) for x in t[2]))
    if k == "ann":
        fs = [desugar(x) for x in t[1] if T.is_form(x)]
        return ("seq", "(", (("atom", "annotate"), fs[1], fs[0]))
    if k == "fstr":
        return ("fstr", t[1], t[2], tuple(_desugar_part(p) for p in t[3]))
    raise ValueError(k)


def _desugar_part(p):
    if p[0] == "t":
        return p
    _, items, debug, conv, spec = p
    return ("fld", tuple(desugar(x) for x in items), debug, conv,
            None if spec is None else tuple(_desugar_part(q) for q in spec))


def has_sugar(t):
    if isinstance(t, tuple):
        if t and t[0] in ("pre", "ann"):
            return True
        return any(has_sugar(x) for x in t)
    return False


def has_debug_field(t):
    if isinstance(t, tuple):
        if t and t[0] == "fld" and t[2]:
            return True
        return any(has_debug_field(x) for x in t)
    return False


def sugar_case(acc, term, layouts=("plain", "tight", "lines")):
    from mc.ref import rd_terms as T
    from mc.ref import rd_modelkey as K
    if has_debug_field(term):
        # the '=' debugging syntax copies the field's source text into the model
        acc.unspecified += 1
        acc.outcome("sugar:unspecified-debug-field-text")
        return
    long = T.render((desugar(term),), "plain")
    if long.ambiguous:
        acc.unspecified += 1
        return
    want = K.read_keys(long.text, with_expression=False)
    acc.evaluations += 1
    seen = set()
    for lay in layouts:
        r = T.render((term,), lay)
        if r.text in seen or r.ambiguous:
            continue
        seen.add(r.text)
        acc.states += 1
        acc.transitions += T.size(term)
        acc.nontrivial += 1
        got = K.read_keys(r.text, with_expression=False)
        acc.evaluations += 1
        acc.traces += 1
        if got == want and got[0] == "ok":
            acc.outcome("sugar:equal")
            continue
        acc.outcome("sugar:differs")
        kinds = sorted(_sugar_kinds(term))
        acc.disagree("sugar-differs-from-long-form", {"leg": "sugar", "term": T.to_jsonable(term), "layout": lay},
                     f"{r.text!r} reads as {_short(got)} but its long form {long.text!r} reads as {_short(want)}",
                     sig="sugar:" + "|".join(kinds) + ":" + (got[1] if got[0] == "err" else "differs"),
                     ctx="sugar", sepkinds=lay, junctions="|".join(kinds), cls="sugar",
                     got=("differs" if got[0] == "ok" else got[1]), msg=("" if got[0] == "ok" else _msgclass(got[2])))


def _sugar_kinds(t, out=None):
    out = set() if out is None else out
    if isinstance(t, tuple):
        if t and t[0] == "pre":
            out.add(t[1])
        elif t and t[0] == "ann":
            out.add("#^")
        for x in t:
            _sugar_kinds(x, out)
    return out


# ------------------------------------------------------------------ shards

def _check_alphabet(acc):
    for f in FORMS:
        r = piece_key(f)
        if r[0] != "ok":
            acc.disagree("alphabet-form-unreadable", {"leg": "alphabet", "form": f}, f"{f!r}: {r[1]}", sig="alphabet:" + f,
                         ctx="alphabet", sepkinds="", junctions="", cls="alphabet", got="err", msg=_msgclass(r[1]))


def run_shard(shard, tier):
    b = BOUNDS[tier]
    acc = Acc()
    what = shard[0]
    n = 0
    if what == "k1":
        _, i, lo, hi = shard
        f = FORMS[i]
        if b["k1"] == "all":
            combos = ((s0, s1) for s0 in ALL[lo:hi] for s1 in ALL)
        else:
            combos = [(s0, "") for s0 in ALL] + [("", s1) for s1 in ALL[1:]] + [(s0, s1) for s0 in SINGLES for s1 in SINGLES]
            _check_alphabet(acc) if i == 0 else None
        for s0, s1 in combos:
            one_case(acc, (f,), (s0, s1), CTX_ALL, tier)
            n += 1
            if n % 211 == 0:
                acc.sample(s0 + f + s1)
    elif what == "k2":
        _, i, jlo, jhi = shard
        if b["k2_outer"] == "one-sided":
            outer = [("", "")] + [(s, "") for s in SINGLES] + [("", s) for s in SINGLES]
        else:
            outer = [("", "")]
        for j in range(jlo, jhi):
            for s1 in ALL:
                for s0, s2 in outer:
                    one_case(acc, (FORMS[i], FORMS[j]), (s0, s1, s2), CTX_SOME, tier)
                    n += 1
                    if n % 1501 == 0:
                        acc.sample(s0 + FORMS[i] + s1 + FORMS[j] + s2)
    elif what == "k3":
        _, i, jlo, jhi = shard
        forms3 = CORE_FORMS if b["k3_forms"] == "core" else FORMS
        seps3 = CORE_SEPS if b["k3_seps"] == "core" else ONE
        for j in range(jlo, jhi):
            for k in range(len(forms3)):
                for s1 in seps3:
                    for s2 in seps3:
                        one_case(acc, (forms3[i], forms3[j], forms3[k]), ("", s1, s2, ""), b["k3_ctx"], tier)
                        n += 1
                        if n % 3001 == 0:
                            acc.sample(forms3[i] + s1 + forms3[j] + s2 + forms3[k])
    elif what == "k4":
        _, i, j, _ = shard
        C = CORE_FORMS
        for k in range(len(C)):
            for l in range(len(C)):
                for s1 in CORE_SEPS:
                    for s2 in CORE_SEPS:
                        for s3 in CORE_SEPS:
                            one_case(acc, (C[i], C[j], C[k], C[l]), ("", s1, s2, s3, ""), ["top"], tier)
    elif what == "eofcomment":
        # a comment may end at the end of input
        for f in FORMS:
            for s in ONE:
                for c in (";c", ";", ";c\r"):
                    one_case(acc, (f,), ("", s + c), ["top"], tier)
                    for g in CORE_FORMS:
                        one_case(acc, (f, g), ("", " ", s + c), ["top"], tier)
    elif what == "sugar":
        _, alpha, nn, lo, hi = shard
        g = _gen(alpha)
        for t in g.forms(nn)[lo:hi]:
            if has_sugar(t):
                sugar_case(acc, t)
                n += 1
                if n % 701 == 0:
                    from mc.ref import rd_terms as T
                    acc.sample(T.render((t,), "plain").text)
    return acc.result()


def recheck(case, tier):
    acc = Acc()
    if case.get("leg") == "sugar":
        from mc.ref import rd_terms as T
        sugar_case(acc, T.from_jsonable(case["term"]), layouts=(case["layout"],))
    elif case.get("leg") == "alphabet":
        _check_alphabet(acc)
    else:
        one_case(acc, tuple(case["forms"]), tuple(case["seps"]), [case["ctx"]], tier)
    return acc.disagreements


def snippet(d):
    c = d["case"]
    if c.get("leg") == "sugar":
        from mc.ref import rd_terms as T
        t = T.from_jsonable(c["term"])
        a = T.render((t,), c["layout"]).text
        b = T.render((desugar(t),), "plain").text
        return (f"import hy\nsugar = {a!r}\nlong = {b!r}\nprint(list(hy.read_many(sugar)))\nprint(list(hy.read_many(long)))\n"
                "# C20: both must be the same models\n")
    if c.get("leg") == "alphabet":
        return f"import hy\nprint(list(hy.read_many({c['form']!r})))\n"
    text, keys, cls, pieces = analyse(tuple(c["forms"]), tuple(c["seps"]))
    full = contexts_for(c["ctx"], text, keys)[0] if keys is not None else text
    return (f"import hy\ntext = {full!r}\nprint(list(hy.read_many(text)))\n"
            f"# form texts delimited by the lexical rules of syntax.rst: {pieces!r} (context {c['ctx']}); each read on its own:\n"
            f"for p in {pieces!r}:\n    print(p, '->', list(hy.read_many(p)))\n"
            "# C20: the first result must be exactly these models (wrapped as the context says)\n")
