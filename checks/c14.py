"""C14  hy2py output is valid Python that behaves like the compiled AST.

Space: (a) every term of language L (the C01 language) up to n nodes under a
module-level and a function-level wrapper; (b) every try/with nesting of the
C09 space, run with no fault and with every single fault; (c) every and/or
operand-shape list of the C02 space under every truth assignment; (d) every
Python keyword used as a Hy name in each of 14 binding/reference constructs
(keyword "mincing" in hy.compat); (e) every construct pair of the C12 list
(validity of the emitted source only).
Oracle: src = ast.unparse(hy_compile(program)) — exactly what hy2py prints —
parses with ast.parse and compiles; executing the re-parsed source and
executing the compiled AST directly, in fresh identical environments, give
the same value, the same effect trace and the same escaping exception type.
Both executions are by CPython; no reference interpreter is involved.
"""
import ast
import itertools
import json
import keyword

from mc.util import Acc
from mc.ref import lang
from checks import c01, c02, c09, c12

ID = "C14"
ENGINE = "E1-enumerator"
TECHNIQUE = "bounded exhaustive enumeration of programs (C01/C02/C09 spaces, keyword-named constructs, construct pairs); differential execution of ast.unparse output vs the compiled AST"
LEVEL_TEXT = ("For every program of the listed bounded spaces the Python source hy2py would print is re-parsed and executed next to the "
              "compiled AST in identical fresh environments; values, effect traces, final variables and escaping exception types must be equal, "
              "and the source must parse. Exhaustive within the bounds.")
RULE = ("families enumerated in order (a)-(e); a case = one program (x fault plan / truth assignment where applicable); non-trivial = the emitted "
        "source contains at least one compound statement or a minced keyword (so unparse has something to get wrong), counted per distinct program")
ASSUMPTIONS = [
    "literals are those of the generated languages (ints, strings, None/True/False, lists): NaN/Inf constants, which ast.unparse cannot print, are outside the space",
    "families (a)-(c) inherit the alphabets of C01, C02, C09",
]
TIME_CAP = {"quick": 900, "thorough": 5400}

BOUNDS = {
    "quick": dict(n=4, c09="quick", c02_lists=[(c02.SHAPES, 3)], shards=64),
    "thorough": dict(n=5, c09="thorough", c02_lists=[(c02.SHAPES, 4), (["P", "E", "S"], 6)], shards=512),
}

KW_TEMPLATES = [
    "(setv {k} 1) (setv r {k})",
    "(defn {k} [] 2) (setv r ({k}))",
    "(defn g [{k}] {k}) (setv r (g 3))",
    "(defn g [* {k}] {k}) (setv r (g :{k} 4))",
    "(defn g [#** kw] kw) (setv r (g :{k} 5))",
    "(defclass C [] (setv {k} 6)) (setv r C.{k})",
    "(defclass C [] (defn {k} [self] 7)) (setv r (.{k} (C)))",
    "(setv o (NS)) (setv o.{k} 8) (setv r (. o {k}))",
    "(import os :as {k}) (setv r (is {k} os))",
    "(import os [getcwd :as {k}]) (setv r (callable {k}))",
    "(let [{k} 9] (setv r {k}))",
    "(setv r (lfor {k} [1 2] {k}))",
    "(try (raise (ValueError 1)) (except [{k} ValueError] (setv r (type {k}))))",
    "(defn g [] (global {k}) (setv {k} 10)) (g) (setv r {k})",
    "(setv o (NS)) (setv o.{k} 1) (setv r (match o (NS :{k} 1) \"y\" _ \"n\"))",
    "(setv r (match {{\"a\" 1}} {{\"a\" {k}}} {k}))",
    "(setv r (match [1 2] [_ #* {k}] {k}))",
    "(setv r (match 5 (int) :as {k} {k}))",
    "(defn g [#* {k}] {k}) (setv r (g 1 2))",
    "(defn g [#** {k}] {k}) (setv r (g :x 1))",
    "(defn g [{k} /] {k}) (setv r (g 3))",
    "(setv r ((fn [{k}] {k}) 4))",
    "(for [{k} [1 2]] (setv r {k}))",
    "(with [{k} (NS)] (setv r (type {k})))",
    "(defn g [] (setv {k} 1) (fn [] (nonlocal {k}) (setv {k} 2)) {k}) (setv r (g))",
    "(import os.path :as {k}) (setv r {k}.sep)",
    "(setv r (. (NS :{k} 5) {k}))",
    "(defclass {k} []) (setv r {k}.__name__)",
    "(deftype {k} int) (setv r 1)",
]
# names that must keep meaning the same thing in the emitted source: every Python keyword plus identifiers that
# Python's tokenizer would normalise (NFKC) or that need mangling
EXTRA_NAMES = ["\u00b5", "\ufb01b", "\uff41", "foo-bar", "a?", "_\u00b5", "\u2168x"]


def bounds(tier):
    b = BOUNDS[tier]
    return {"L_max_nodes": b["n"], "L_wrappers": ["mod_r", "fn_ret"], "c09_levels": c09.BOUNDS[b["c09"]]["levels"],
            "c02_shape_lists": b["c02_lists"], "keywords": keyword.kwlist, "extra_names": EXTRA_NAMES, "keyword_templates": KW_TEMPLATES, "negative_literal_templates": NEG_TEMPLATES, "negative_literals": NEG_LITERALS,
            "construct_pairs": len(c12.OUTER) * len(c12.INNER)}


def _c02_lists(tier):
    seen, out = set(), []
    for alpha, n in BOUNDS[tier]["c02_lists"]:
        for k in range(n + 1):
            for combo in itertools.product(alpha, repeat=k):
                if combo not in seen:
                    seen.add(combo)
                    out.append(combo)
    return out


def shards(tier):
    b = BOUNDS[tier]
    out = []
    for w_fn in (False, True):
        for n in range(1, b["n"] + 1):
            cnt = len(lang.gen(n, w_fn, False))
            per = max(1, b["shards"] // 4) if n >= 4 else 1
            step = -(-cnt // per)
            out += [["L", w_fn, n, lo, min(cnt, lo + step)] for lo in range(0, cnt, step)]
    n9 = len(c09._all_programs(b["c09"]))
    step = -(-n9 // b["shards"])
    out += [["c09", 0, 0, lo, min(n9, lo + step)] for lo in range(0, n9, step)]
    n2 = len(_c02_lists(tier))
    step = -(-n2 // (16 if tier == "quick" else b["shards"]))
    out += [["c02", 0, 0, lo, min(n2, lo + step)] for lo in range(0, n2, step)]
    out.append(["kw", 0, 0, 0, len(keyword.kwlist)])
    out.append(["neg", 0, 0, 0, 0])
    np_ = len(c12.OUTER) * len(c12.INNER)
    step = -(-np_ // 16)
    out += [["pairs", 0, 0, lo, min(np_, lo + step)] for lo in range(0, np_, step)]
    return out


# ---------------------------------------------------------------- core
def two_codes(acc, text, case, sigbase):
    """Compile text with Hy; return (code_from_ast, code_from_source, src) or None (and record why)."""
    from mc import hyside
    import warnings
    warnings.simplefilter("ignore")
    mod = hyside.fresh_module()
    try:
        tree = hyside.compile_text(text, mod)
    except BaseException as e:
        acc.outcome("not-compiled:" + ("user-error" if hyside.is_user_error(e) else type(e).__name__))
        return None
    try:
        code_a = compile(tree, "<ast>", "exec")
    except BaseException as e:
        acc.outcome("ast-rejected-by-python")      # C10's business
        return None
    acc.traces += 1
    try:
        src = ast.unparse(tree)
    except BaseException as e:
        acc.disagree("unparse-raised", case, f"{type(e).__name__}: {e}", sig="unparse-raised:" + sigbase, exc=type(e).__name__)
        return None
    try:
        code_s = compile(ast.parse(src), "<src>", "exec")
    except BaseException as e:
        tag = _noparse_tag(case)
        acc.disagree("hy2py-output-does-not-parse", case, f"{type(e).__name__}: {e}; source: {src[:300]!r}",
                     sig="noparse:" + tag + ":" + sigbase, exc=type(e).__name__, tag=tag)
        return None
    if any(s in src for s in ("\nif ", "\ntry:", "\nwith ", "\nwhile ", "\nfor ", "def ", "match ", "class ")) or any(ord(c) > 0x1D400 for c in src):
        acc.nontrivial += 1
    return code_a, code_s, src


def _noparse_tag(case):
    """Structural class of an unparsable-output case, for narrow known-finding matchers."""
    if case.get("family") == "kw" and case.get("keyword") in ("None", "True", "False") and case.get("template") in (4, 7, 8, 9, 14, 25, 26):   # templates using the name as attribute / keyword argument / import alias
        return "constant-keyword-as-attribute-kwarg-or-alias-name"
    if case.get("family") == "pairs" and case["text"].startswith("(defn g [#^ (unpack-iterable a) a]"):
        return "unpacking-form-as-parameter-annotation"
    return "other"


def run_L(code, wrapper):
    from mc import hyside
    mod = hyside.fresh_module("mc_c14")
    log = hyside.install_effects(mod)
    try:
        exec(code, mod.__dict__)
        out = ("val", hyside.rep(mod.__dict__.get("r" if wrapper == "mod_r" else "out")))
    except hyside.FuelExhausted:
        out = ("fuel",)
    except BaseException as e:
        out = ("exc", type(e).__name__)
    env = {k: hyside.rep(v) for k, v in mod.__dict__.items() if k in ("x", "y", "r", "out")}
    return out, list(log), env


def case_L(acc, term, wrapper, sample=False):
    nt = lang.number(term)
    text = lang.wrap_text(nt, wrapper)
    case = {"family": "L", "term": json.loads(json.dumps(term)), "wrapper": wrapper, "text": text}
    acc.states += 1
    acc.evaluations += 1
    m = lang.run_model(nt, wrapper)
    if m["outcome"][0] == "diverges":
        acc.outcome("skipped:diverges")
        return
    r = two_codes(acc, text, case, c01._shape(term))
    if r is None:
        return
    code_a, code_s, src = r
    a = run_L(code_a, wrapper)
    s = run_L(code_s, wrapper)
    acc.transitions += len(a[1]) + len(s[1]) + 2
    acc.outcome("L:" + a[0][0])
    if sample:
        acc.sample({"hy": text, "hy2py": src})
    if a != s:
        acc.disagree("source-behaves-differently", case, f"compiled AST: {a}; hy2py source: {s}; source {src[:300]!r}",
                     sig="differs:" + c01._shape(term))


def case_c09(acc, prog, sample=False):
    num = c09.Numbered(prog)
    text = c09.wrap(c09.render(num.tree), "module")
    case = {"family": "c09", "prog": c09._jsonable(prog), "text": text}
    acc.states += 1
    acc.evaluations += 1
    r = two_codes(acc, text, case, c09._sig(prog))
    if r is None:
        return
    code_a, code_s, src = r
    if sample:
        acc.sample({"hy": text, "hy2py": src})
    for plan in c09.plans(num.points, pairs=False):
        obs = []
        for code in (code_a, code_s):
            w = c09.World(plan)
            g = {"pt": w.pt, "pte": w.pte, "cm": w.cm, "__name__": "mc_c14"}
            try:
                exec(code, g)
                out = ("val", repr(g.get("r")))
            except BaseException as e:
                out = ("exc", type(e).__name__)
            obs.append((out, w.log, repr(g.get("e"))))
        acc.transitions += len(obs[0][1]) + len(obs[1][1])
        acc.outcome("c09:" + obs[0][0][0])
        if obs[0] != obs[1]:
            acc.disagree("source-behaves-differently", dict(case, plan=c09._planstr(plan)),
                         f"compiled AST: {obs[0]}; hy2py source: {obs[1]}; source {src[:300]!r}", sig="differs:" + c09._sig(prog))
            return


def case_c02(acc, shapes, sample=False):
    for op in ("and", "or"):
        tree, nparams = c02.build(op, shapes)
        for ctx in c02.contexts(nparams)[:3]:
            text = c02.program(tree, nparams, ctx)
            case = {"family": "c02", "op": op, "shapes": list(shapes), "ctx": list(ctx), "text": text}
            acc.states += 1
            acc.evaluations += 1
            r = two_codes(acc, text, case, f"{op}:{ctx[0]}")
            if r is None:
                continue
            code_a, code_s, src = r
            fs = []
            logs = []
            for code in (code_a, code_s):
                tr = []
                g = {"log": (lambda tr: (lambda i, v: (tr.append(i), v)[1]))(tr), "__name__": "mc_c14"}
                exec(code, g)
                fs.append(g["f"])
                logs.append(tr)
            for bits in itertools.product((False, True), repeat=nparams):
                vals = [[i] if b else [] for i, b in enumerate(bits)]
                res = []
                for f, tr in zip(fs, logs):
                    del tr[:]
                    try:
                        v = f(*vals)
                        res.append((("val", repr(v)), list(tr)))
                    except BaseException as e:
                        res.append((("exc", type(e).__name__), list(tr)))
                acc.transitions += 2
                acc.outcome("c02:" + res[0][0][0])
                if res[0] != res[1]:
                    acc.disagree("source-behaves-differently", dict(case, bits=list(bits)),
                                 f"compiled AST: {res[0]}; hy2py source: {res[1]}; source {src[:300]!r}", sig=f"differs:c02:{op}:{ctx[0]}")
                    break


def case_kw(acc, k):
    import types
    for ti, tpl in enumerate(KW_TEMPLATES):
        text = tpl.format(k=k)
        case = {"family": "kw", "keyword": k, "template": ti, "text": text}
        acc.states += 1
        acc.evaluations += 1
        r = two_codes(acc, text, case, f"kw:{ti}")
        if r is None:
            continue
        code_a, code_s, src = r
        obs = []
        for code in (code_a, code_s):
            g = {"NS": types.SimpleNamespace, "__name__": "mc_c14"}
            try:
                exec(code, g)
                out = ("val", repr(g.get("r")))
            except BaseException as e:
                out = ("exc", type(e).__name__, str(e)[:80])
            obs.append(out)
        acc.transitions += 2
        acc.outcome("kw:" + obs[0][0])
        if ti == 0 and k == "def":
            acc.sample({"hy": text, "hy2py": src})
        if obs[0] != obs[1]:
            acc.disagree("source-behaves-differently", case, f"compiled AST: {obs[0]}; hy2py source: {obs[1]}; source {src[:300]!r}",
                         sig=f"differs:kw:{ti}")


NEG_TEMPLATES = ["(** {n} 2)", "(** 2 {n})", "(- {n})", "(- 1 {n})", "(. {n} real)", "(.conjugate {n})", "(get [1 2 3] {n})", "(cut [1 2 3] {n})",
                 "(* {n} {n})", "(abs {n})", "(not {n})", "(bnot {n})", "[{n} (- {n})]", "(match {n} {n} \"same\" _ \"other\")", "f\"{{{n}}}\"",
                 "(% {n} 3)", "(// {n} 2)", "(< {n} 0 (- {n}))", "(setv q {n}) (setv r (+= q {n}))"]
NEG_LITERALS = ["-1", "-1.5", "-0.0", "-2j", "-1-2j", "-0", "-1e3", "-0x1F", "-1_000", "1", "0.0",
                "(- 3)", "(- 1.5)", "(+ 3)", "(- 0.0)", "(- (- 3))"]     # the one-argument sign operators applied to a literal


def case_neg(acc, ti, n):
    text = "(setv r " + NEG_TEMPLATES[ti].format(n=n) + ")" if not NEG_TEMPLATES[ti].startswith("(setv q") else NEG_TEMPLATES[ti].format(n=n)
    case = {"family": "neg", "template": ti, "literal": n, "text": text}
    acc.states += 1
    acc.evaluations += 1
    r = two_codes(acc, text, case, f"neg:{ti}")
    if r is None:
        return
    code_a, code_s, src = r
    obs = []
    for code in (code_a, code_s):
        g = {"__name__": "mc_c14"}
        try:
            exec(code, g)
            out = ("val", repr(g.get("r")))
        except BaseException as e:
            out = ("exc", type(e).__name__)
        obs.append(out)
    acc.transitions += 2
    acc.outcome("neg:" + obs[0][0])
    if ti == 0 and n == "-1":
        acc.sample({"hy": text, "hy2py": src})
    if obs[0] != obs[1]:
        import re
        tag = "negative-pure-imaginary-literal" if re.fullmatch(r"-[0-9._]+j", n) else "other"
        acc.disagree("source-behaves-differently", case, f"compiled AST: {obs[0]}; hy2py source: {obs[1]}; source {src[:200]!r}",
                     sig=f"differs:neg:{tag}:{ti}", tag=tag)


def case_pair(acc, idx):
    text, o, i = c12._pairs()[idx]
    case = {"family": "pairs", "idx": idx, "text": text}
    acc.states += 1
    acc.evaluations += 1
    r = two_codes(acc, text, case, "pairs")
    if r is not None:
        acc.transitions += 1
        acc.outcome("pairs:source-parses")


def run_shard(shard, tier):
    b = BOUNDS[tier]
    acc = Acc()
    fam, w_fn, n, lo, hi = shard
    if fam == "L":
        terms = lang.gen(n, w_fn, False)
        w = "fn_ret" if w_fn else "mod_r"
        for idx in range(lo, hi):
            case_L(acc, terms[idx], w, sample=(idx % 5003 == 17))
    elif fam == "c09":
        progs = c09._all_programs(b["c09"])
        for idx in range(lo, hi):
            case_c09(acc, progs[idx], sample=(idx % 2003 == 5))
    elif fam == "c02":
        lists = _c02_lists(tier)
        for idx in range(lo, hi):
            case_c02(acc, lists[idx])
    elif fam == "kw":
        for k in keyword.kwlist + EXTRA_NAMES:
            case_kw(acc, k)
    elif fam == "neg":
        for ti in range(len(NEG_TEMPLATES)):
            for n in NEG_LITERALS:
                case_neg(acc, ti, n)
    else:
        for idx in range(lo, hi):
            case_pair(acc, idx)
    return acc.result()


def recheck(case, tier):
    acc = Acc()
    fam = case["family"]
    if fam == "L":
        case_L(acc, c01._tuplify(case["term"]), case["wrapper"])
    elif fam == "c09":
        case_c09(acc, c09._unjson(case["prog"]))
    elif fam == "c02":
        case_c02(acc, tuple(case["shapes"]))
    elif fam == "kw":
        case_kw(acc, case["keyword"])
    elif fam == "neg":
        case_neg(acc, case["template"], case["literal"])
    else:
        case_pair(acc, case["idx"])
    return acc.disagreements


def snippet(d):
    return ("import hy, ast, types\nfrom hy.compiler import hy_compile\n"
            f"text = {d['case']['text']!r}\n"
            "tree = hy_compile(hy.read_many(text), types.ModuleType('m'))\nsrc = ast.unparse(tree)\nprint(src)\n"
            "ast.parse(src)   # must parse; exec(compile(tree,...)) and exec(src) must behave alike\n"
            f"# {d['detail'][:300]!r}\n")
