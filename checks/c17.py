"""C17  Runtime tracebacks point at the line of the failing form.

Space: every term of the core expression language L (mc/ref/lang.py) with at
most n nodes that has exactly one raising leaf, i.e. every L-term with the
raising leaf substituted at each leaf position in turn, rendered over several
lines with one subform per line (mc/ref/tb_render.py: the start line of every
form differs from that of its parent, children and siblings), the raising
leaf in each of 26 shapes:
  - read from the source text: a call of the plain function `boom` that raises
    a marker exception (one line; split over lines; as a method call `o.boom`;
    as `(.boom o ..)`), `(raise (Marker i))`, a division by zero, a failing
    subscript, an unbound name, a missing attribute, an f-string field, an
    augmented assignment (one / several operands) whose in-place operation raises,
    the first iterable of a comprehension (a real one / one lowered to a generator function);
  - as the ARGUMENT of a user macro that returns it / unquotes it / splices it
    / passes it on to another macro (the raising form keeps its own position);
  - produced by a user macro's TEMPLATE (the raising form has no source text of
    its own: the form of the source that raises is the macro call, whose line
    span is demanded), including a one-off macro whose template is the
    raising leaf's whole parent form, and a macro that returns a model object
    created once (a quoted parameter default) and is expanded at two places;
and the whole term as the argument of each of five user macros; at module level
(boom-free function context) and as the body of a function called later.
Thorough adds all one-hole contexts of depth 3 around the leaf.
Oracle: whenever the raising form raises (seen inside `boom`, in the exception
that leaves the program including its __context__ chain, and in every
context manager's __exit__), the innermost traceback entry for the compiled
module's file name has a line number within the expected span; the reference
interpreter says whether the leaf is reached, and the implementation must
agree (outside programs whose argument-evaluation order the docs leave open).
"""
import json
import sys
import traceback

from mc import enumer
from mc.util import Acc, time_limit, CaseTimeout
from mc.ref import lang
from mc.ref import tb_render as R

ID = "C17"
TECHNIQUE = ("bounded exhaustive enumeration of all terms of a core expression language with one raising leaf at every leaf "
             "position, in every raising-leaf shape and macro wrapper, rendered one subform per line, compiled by the real "
             "reader/compiler, executed, and the innermost traceback line for the module compared with the rendered line span")
LEVEL_TEXT = ("Every program of the generated language up to the size bound, with one raising form at each possible position, is read and "
              "compiled with the real Hy reader/compiler under a real file name and executed; every time the raising form raises, the "
              "innermost traceback entry for that file name must lie within the raising form's line span known from rendering (for a form "
              "that exists only in a macro template: within the macro call's span). A reference interpreter written from the "
              "documentation decides whether the form is reached, so a silent run cannot pass for a positioned one. Exhaustive within "
              "the bound: every composition of up to n constructs (statement-lifted forms, comprehensions, functions called later, "
              "try/with/loops) around the raising form is covered, in 26 leaf shapes and 6 whole-term macro wrappers.")
RULE = ("L-terms enumerated by node count then constructor order, kept when they contain exactly one raising leaf; a case = "
        "(term, module-or-function wrapper, leaf shape, whole-term macro wrapper); contexts x the raising leaf likewise (thorough); "
        "non-trivial = the reference interpreter says the raising leaf is reached AND (the term has a statement-producing constructor "
        "in an expression slot, or the case involves a user macro), counted per distinct case; "
        "'unspecified' = the reference interpreter found an argument group whose evaluation order decides whether the leaf is reached: "
        "only the line of raises that are actually observed is checked")
ASSUMPTIONS = [
    "programs over the constructors, leaves and variables of mc/ref/lang.py, one raising leaf per program, laid out one subform per line",
    "raising-leaf shapes and macro wrappers as listed in bounds(); all code is read from text (models built at run time without positions are documented to fall back to line 1 and are not generated)",
    "a form that exists only in a user macro's template has no source span of its own: the oracle demands the line span of the macro call in the source (the source form that raises)",
    "only line numbers are checked (the property speaks of line spans), not columns",
    "argument-group evaluation order is unspecified by docs/semantics.rst: when it decides whether the leaf is reached the case is 'unspecified' and only observed raises are checked",
    "programs whose reference execution exceeds 40 effects are counted as diverging and not executed",
    "the traceback line of a call is taken both from the caller's frame at the time `boom` runs and from traceback.extract_tb of the exception; CPython computes both from the same instruction position",
]
ENGINE = "E1-enumerator"

ALL_SHAPES = list(R.SHAPE_ORDER)
TOPS_PLAIN = [t for t in R.TOP_ORDER if t != "none"]
# (shape, top) combinations per term
COMBOS_FULL = [(s, "none") for s in ALL_SHAPES] + [("plain", t) for t in TOPS_PLAIN] + \
              [("tmpl", "qq"), ("ptmpl", "nested"), ("arg_qq", "ident"), ("raise", "splice"),
               # a pass-through macro whose expansion is directly another (template) macro call on a later line
               ("tmpl", "ident"), ("tmpl_raise", "ident"), ("tmpl_deep", "ident"), ("tmpl", "nested")]
COMBOS_CORE = [("plain", "none"), ("raise", "none"), ("name", "none"), ("arg_qq", "none"), ("tmpl_deep", "none"),
               ("ptmpl", "none"), ("plain", "nested")]
COMBOS_CORE5 = [("plain", "none"), ("raise", "none"), ("arg_qq", "none"), ("ptmpl", "none"), ("plain", "nested")]
COMBOS_CTX = [("plain", "none")]

# n_full: all combinations; n_core: larger terms with the core combinations; ctx: context depths around the bare leaf
BOUNDS = {
    "quick": dict(n_full=3, n_core=4, core=COMBOS_CORE, ctx=[], shards=64),
    "thorough": dict(n_full=4, n_core=5, core=COMBOS_CORE5, ctx=[3], shards=1024),
}
TIME_CAP = {"quick": 900, "thorough": 5400}


def bounds(tier):
    b = BOUNDS[tier]
    return {"max_nodes_all_shapes": b["n_full"], "max_nodes_core_shapes": b["n_core"],
            "context_depths_around_leaf": b["ctx"],
            "constructors": sorted(lang.ARITY) + ["return", "raise", "break", "continue"],
            "leaves": [l[1] for l in lang.LEAVES], "wrappers": ["mod_r", "fn_ret"],
            "leaf_shapes": {k: v[0] for k, v in R.SHAPES.items()} | {"ptmpl": "(t-parent <siblings>)  ; one-off macro, template = parent form with the leaf"},
            "macros": R.MACROS, "whole_term_wrappers": R.TOP_ORDER,
            "combos_all": [list(c) for c in COMBOS_FULL], "combos_core": [list(c) for c in b["core"]],
            "combos_contexts": [list(c) for c in COMBOS_CTX] if b["ctx"] else []}


_CTX = {}


def _ctx_space(depth, w_fn):
    key = (depth, w_fn)
    if key not in _CTX:
        _CTX[key] = list(R.contexts(depth, w_fn, False))
    return _CTX[key]


def shards(tier):
    b = BOUNDS[tier]
    out = []
    nmax = max(b["n_full"], b["n_core"])
    for w_fn in (False, True):
        for n in range(1, nmax + 1):
            cnt = len(lang.gen(n, w_fn, False))
            per = max(1, b["shards"] // (2 * nmax)) if n >= 3 else 1
            if n == nmax and n >= 4:
                per = b["shards"] // 2
            for lo, hi in enumer.chunk(cnt, per):
                out.append(["sized", w_fn, n, lo, hi])
        for d in b["ctx"]:
            cnt = len(_ctx_space(d, w_fn))
            for lo, hi in enumer.chunk(cnt, b["shards"] // 4):
                out.append(["ctx", w_fn, d, lo, hi])
    return out


# ---------------------------------------------------------------- implementation side
class Marker(Exception):
    pass


class FuelExhausted(BaseException):
    pass


_fileno = [0]


def _is_target(e, kind, site):
    if kind in ("call", "raise"):
        return isinstance(e, Marker) and e.args == (site,)
    if kind == "shared":
        return isinstance(e, NameError) and getattr(e, "name", None) == "nosuch_shared"
    if kind == "div":
        return isinstance(e, ZeroDivisionError)
    if kind == "index":
        return type(e) is KeyError and e.args == (site,)
    if kind == "name":
        return isinstance(e, NameError) and getattr(e, "name", None) == f"nosuch{site}"
    if kind == "attr":
        return isinstance(e, AttributeError) and getattr(e, "name", None) == f"nosuch{site}"
    return False


def _module_line(e, filename):
    """traceback.extract_tb(e.__traceback__) filtered to the module's file name, last entry."""
    fs = [f for f in traceback.extract_tb(e.__traceback__) if f.filename == filename]
    return fs[-1].lineno if fs else None


_MACRO_CACHE = {}
_LIB = []


def macro_fn(deftext):
    """The macro function of a `(defmacro name ...)` text, compiled once per worker
    in a library module (a user macro made available as by `require`)."""
    fn = _MACRO_CACHE.get(deftext)
    stateful = deftext.split()[1] in R.STATEFUL_MACROS
    if fn is None or stateful:
        import hy
        from mc import hyside
        if not _LIB:
            _LIB.append(hyside.fresh_module("c17_macro_lib"))
            _LIB[0].hy = hy        # quasiquote templates expand to hy.models.* calls
        lib = _LIB[0]
        name = hy.mangle(deftext.split()[1])
        getattr(lib, "_hy_macros", {}).pop(name, None)
        hy.eval(hy.read(deftext), lib.__dict__, module=lib)
        fn = _MACRO_CACHE[deftext] = lib._hy_macros.pop(name)
    return fn


def run_impl(text, kind, site, macros=()):
    """Compile and execute; return dict(phase, lines=[(how, lineno)], outcome)."""
    import hy
    from hy.compiler import hy_compile
    from mc import hyside
    import warnings
    warnings.simplefilter("ignore")
    _fileno[0] += 1
    filename = f"<c17-{_fileno[0]}>"
    mod = hyside.fresh_module()
    seen = []          # (how, lineno)
    events = [0]

    def tick():
        events[0] += 1
        if events[0] > 400:
            raise FuelExhausted()

    def note(how, e):
        chain = []
        while e is not None and id(e) not in [id(c) for c in chain]:
            chain.append(e)
            e = e.__cause__ if e.__cause__ is not None else e.__context__
        for c in chain:
            if _is_target(c, kind, site):
                seen.append((how, _module_line(c, filename)))

    def log(i, v):
        tick()
        return v

    def boom(i):
        tick()
        f = sys._getframe(1)
        while f is not None and f.f_code.co_filename != filename:
            f = f.f_back
        seen.append(("frame", f.f_lineno if f is not None else None))
        raise Marker(i)

    def f2(i, a, b):
        tick()
        return b

    class cm:
        def __init__(self, i, suppress):
            self.i, self.suppress = i, suppress

        def __enter__(self):
            return self.i

        def __exit__(self, et, ev, tb):
            tick()
            if ev is not None:
                note("exit", ev)
            return self.suppress

    class O:
        pass

    class InPlace:
        def __iadd__(self, v):
            tick()
            raise Marker(v)

    o = O()
    o.boom = boom
    o.acc = InPlace()
    mod.log, mod.boom, mod.f2, mod.cm, mod.o, mod.Marker = log, boom, f2, cm, o, Marker
    if macros:
        mod._hy_macros = {hy.mangle(d.split()[1]): macro_fn(d) for d in macros}
    try:
        with time_limit(20):
            tree = hy_compile(hy.read_many(text, filename=filename), mod, filename=filename, source=text)
            code = compile(tree, filename, "exec")
    except CaseTimeout:
        return dict(phase="compile", outcome="timeout", lines=[])
    except BaseException as e:
        return dict(phase="compile", outcome=f"{type(e).__name__}: {str(e)[:160]}", lines=[])
    outcome = "val"
    try:
        with time_limit(20):
            exec(code, mod.__dict__)
    except FuelExhausted:
        outcome = "fuel"
    except CaseTimeout:
        outcome = "timeout"
    except BaseException as e:
        outcome = "exc:" + type(e).__name__
        note("escaped", e)
    return dict(phase="run", outcome=outcome, lines=seen)


# ---------------------------------------------------------------- one case
_MODEL = {}


def model_of(term, w_fn):
    """(numbered term, site of the raising leaf, reached?, unspecified reason, outcome)"""
    key = (term, w_fn)
    m = _MODEL.get(key)
    if m is None:
        if len(_MODEL) > 20000:
            _MODEL.clear()
        nt = lang.number(term)
        site = _site(nt)
        mm = lang.run_model(nt, "fn_ret" if w_fn else "mod_r")
        reached = any(s == site and v == "'boom'" for s, v in lang.events_of(mm["trace"]))
        m = _MODEL[key] = (nt, site, reached, mm["unspecified"], mm["outcome"])
    return m


def _site(nt):
    if nt[0] == "boom":
        return nt[1]
    for k in nt[1:]:
        if isinstance(k, tuple):
            s = _site(k)
            if s is not None:
                return s
    return None


def _origin(shape):
    if shape in R.TEMPLATE_SHAPES:
        return "macro-template"
    if shape in R.ARG_SHAPES:
        return "macro-argument"
    return "source"


def _relation(rd, nt, lineno):
    """Where a wrong line lies, for grouping: 'none', 'line-1', 'macro-call' (the
    user macro call that has the raising form as its argument), 'ancestor:<op>@k'
    (start line of the k-th enclosing form), 'inside:<op>', 'outside'."""
    if lineno is None:
        return "no-frame-for-module"
    if lineno == 1:
        return "line-1"
    if rd.leaf_span[0] <= lineno <= rd.leaf_span[1]:
        return "macro-call-of-argument"
    target = R.boom_path(nt)
    best = None
    for path, a, b in rd.spans:
        if a <= lineno <= b and (best is None or (b - a) < (best[2] - best[1])):
            best = (path, a, b)
    if best is None:
        return "outside-term"
    path, a, b = best
    sub = nt
    for k in path:
        sub = R.kids_of(sub)[1][k]
    if target[:len(path)] == path:
        up = len(target) - len(path)
        return f"ancestor{up}:{sub[0]}" + (":start" if lineno == a else (":end" if lineno == b else ""))
    return "other-subform:" + sub[0]


def check_case(acc, term, w_fn, shape, top, record_sample=False):
    nt, site, reached, unspec, m_out = model_of(term, w_fn)
    rp = R.render_program(nt, shape, top, w_fn)
    if rp is None:
        return
    text, rd = rp
    case = {"term": json.loads(json.dumps(term)), "w_fn": w_fn, "shape": shape, "top": top, "text": text, "macros": list(rd.macros)}
    acc.states += 1
    acc.count("shape:" + shape)
    if top != "none":
        acc.count("top:" + top)
    if m_out[0] == "diverges":
        acc.count("model-diverges(skipped)")
        acc.outcome("skipped:diverges")
        return
    if m_out[0] == "model-error":
        acc.disagree("harness-model-error", case, str(m_out), sig="model-error")
        return
    r = run_impl(text, rd.exc_kind, site, rd.macros)
    acc.evaluations += 1
    acc.traces += 1
    acc.transitions += lang.size(term) + len(r["lines"])
    macroish = shape in R.TEMPLATE_SHAPES or shape in R.ARG_SHAPES or top != "none"
    if reached and not unspec and (macroish or lang.has_lifted_stmt(term)):
        acc.nontrivial += 1
    parent = _parent_op(nt)
    fields = dict(shape=shape, top=top, origin=_origin(shape), parent=parent, wrapper="fn" if w_fn else "module")

    def bad(kind, detail, rel=""):
        # one root cause ~ (where the raising form comes from, where the wrong line points)
        relclass = (rel.split(":")[0].rstrip("0123456789") if rel.startswith("ancestor") else rel.split(":")[0]) if kind == "traceback-line-outside-form" else rel
        sig = f"{kind}:{_origin(shape)}:{relclass}" + ("" if kind == "traceback-line-outside-form" else f":{shape}:{parent}")
        acc.disagree(kind, case, detail, sig=sig, rel=rel, **fields)

    if record_sample:
        acc.sample({"hy": text, "expected_span": list(rd.span), "model_reached": reached, "observed": r["lines"][:4]})
    if r["phase"] == "compile":
        acc.outcome("compile-error")
        bad("compile-failed", r["outcome"], rel=r["outcome"].split(":")[0])
        return
    if r["outcome"] in ("fuel", "timeout") and unspec and not r["lines"]:
        # e.g. (+ (m-qq (boom 1)) (while (log 2 1) (log 3 0))): which argument runs first is
        # not specified, and the sibling of the raising form never terminates
        acc.unspecified += 1
        acc.outcome("unspecified-order:sibling-diverges-first")
        return
    if r["outcome"] in ("fuel", "timeout") and shape == "tmpl_shared_atom" and not r["lines"]:
        # the expansion is a bare name; Hy does not evaluate a bare name in statement position
        # (see below), so a loop that only this raise would leave never ends
        acc.unspecified += 1
        acc.outcome("unspecified:bare-name-statement-not-evaluated")
        return
    if r["outcome"] in ("fuel", "timeout"):
        acc.outcome("impl-" + r["outcome"])
        bad("nontermination", f"model outcome {m_out}, implementation ran out of {r['outcome']}")
        return
    # --- the property: every observed raise of the raising form is reported within the span
    lo, hi = rd.span
    wrong = [(how, ln) for how, ln in r["lines"] if ln is None or not (lo <= ln <= hi)]
    if wrong:
        how, ln = wrong[0]
        rel = _relation(rd, nt, ln)
        acc.outcome("reached:line-WRONG")
        bad("traceback-line-outside-form",
            f"innermost traceback line for the module ({how}) is {ln}; the raising form "
            f"({'macro call producing it' if rd.template else 'own text'}) spans lines {lo}-{hi}; line {ln} is {rel}; all observations {r['lines'][:6]}",
            rel=rel)
        return
    impl_reached = bool(r["lines"])
    if unspec:
        acc.unspecified += 1
        acc.outcome("unspecified-order:" + ("raised,line-ok" if impl_reached else "not-raised"))
        return
    if reached and not impl_reached and (rd.exc_kind == "name" or shape == "tmpl_shared_atom"):
        # Hy discards a bare name that follows statements in statement position
        # (Result.expr_as_stmt: "they can't have any side effect"); the documentation
        # does not say whether such a name is evaluated
        acc.unspecified += 1
        acc.outcome("unspecified:bare-name-statement-not-evaluated")
        return
    if reached and not impl_reached and rd.exc_kind != "call" and tuple(m_out) != ("exc", "KeyError"):
        # an exception raised by the compiled code itself (not by `boom`) and then
        # discarded by the program (return/break in finally, ...) is seen by nobody
        acc.outcome("reached:swallowed-unobservable")
        return
    if reached != impl_reached:
        acc.outcome("reach-mismatch")
        bad("raising-form-reach-mismatch",
            f"reference interpreter: leaf {'reached' if reached else 'not reached'} (outcome {m_out}); implementation: "
            f"{'raised' if impl_reached else 'never raised'} (outcome {r['outcome']})", rel="model-reached" if reached else "model-not-reached")
        return
    if reached:
        hows = sorted({h for h, _ in r["lines"]})
        acc.outcome("reached:line-ok:" + "+".join(hows))
    else:
        acc.outcome("not-reached")


def _parent_op(nt):
    p = R.boom_path(nt)
    if not p:
        return "-"
    sub = nt
    for k in p[:-1]:
        sub = R.kids_of(sub)[1][k]
    return sub[0]


def _combos(tier, n):
    b = BOUNDS[tier]
    if n <= b["n_full"]:
        return COMBOS_FULL
    return b["core"]


def run_shard(shard, tier):
    acc = Acc()
    kind, w_fn, n, lo, hi = shard
    if kind == "sized":
        terms = lang.gen(n, w_fn, False)
        combos = _combos(tier, n)
        for idx in range(lo, hi):
            t = terms[idx]
            if R.count_boom(t) != 1:
                continue
            for op in lang.ops_in(t):
                acc.count("op:" + op)
            for j, (shape, top) in enumerate(combos):
                check_case(acc, t, w_fn, shape, top, record_sample=(idx % 3001 == 11 and j == (idx // 3001) % len(combos)))
    else:
        ctxs = _ctx_space(n, w_fn)
        for idx in range(lo, hi):
            t = R.plug(ctxs[idx], ("boom",))
            acc.count("ctx-depth:" + str(n))
            for j, (shape, top) in enumerate(COMBOS_CTX):
                check_case(acc, t, w_fn, shape, top, record_sample=(idx % 9973 == 5 and j == 0))
    return acc.result()


def _tuplify(t):
    if isinstance(t, list):
        return tuple(_tuplify(e) for e in t)
    return t


def recheck(case, tier):
    acc = Acc()
    check_case(acc, _tuplify(case["term"]), case["w_fn"], case["shape"], case["top"])
    return acc.disagreements


def snippet(d):
    c = d["case"]
    return ("import sys, types, traceback\nimport hy\nfrom hy.compiler import hy_compile\n"
            "class Marker(Exception): pass\n"
            "def boom(i): raise Marker(i)\n"
            "class cm:\n"
            "    def __init__(s, i, sup): s.sup = sup\n"
            "    def __enter__(s): return s\n"
            "    def __exit__(s, *a): return s.sup\n"
            "class O: pass\n"
            "o = O(); o.boom = boom\n"
            f"macros = {c.get('macros', [])!r}   # user macros, defined in the module before the program is compiled\n"
            f"text = {c['text']!r}\n"
            "m = types.ModuleType('case')\n"
            "m.__dict__.update(log=lambda i, v: v, boom=boom, f2=lambda i, a, b: b, cm=cm, o=o, Marker=Marker, hy=hy)\n"
            "for d in macros: hy.eval(hy.read(d), m.__dict__, module=m)\n"
            "fn = '<c17>'\n"
            "code = compile(hy_compile(hy.read_many(text, filename=fn), m, filename=fn, source=text), fn, 'exec')\n"
            "try:\n    exec(code, m.__dict__)\n"
            "except Exception as e:\n"
            "    print(type(e).__name__, 'module lines of the traceback, outermost first:',\n"
            "          [f.lineno for f in traceback.extract_tb(e.__traceback__) if f.filename == fn])\n"
            "for i, l in enumerate(text.splitlines(), 1): print(i, l)\n"
            f"# C17: {d['detail'][:400]!r}\n")
