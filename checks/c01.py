"""C01  Compiled code means what the Hy program means.

Space: every term of the core expression language L (mc/ref/lang.py: do, if,
when, cond, and, or, not, setv, setx, let, fn, defn, return, calls, list
displays, +, get, cut, while(+else, break, continue), for(+else), lfor,
with (suppressing or not), try/except/else/finally, raise) with at most n
nodes, every leaf a logging effect, plus every context(depth<=d) x filler
composition; each term under four wrappers: (setv r T) and (setv x T) at
module level, T as the body of a called function, (setv x T) inside one.
Oracle: the reference interpreter's outcome (value or exception type), its
trace tree (Seq where the docs fix the order, Par for argument groups) which
the implementation's flat effect log must linearise, and the final values of
the user variables; no user-visible variable the model does not have.
"""
import ast
import json

from mc import enumer
from mc.util import Acc, time_limit, CaseTimeout
from mc.ref import lang

ID = "C01"
TECHNIQUE = "bounded exhaustive enumeration of all terms of a core expression language (sized terms + context x filler), each compiled by the real compiler, executed, and compared with a reference interpreter's value, effect-trace partial order and final environment"
LEVEL_TEXT = ("Every program of the generated language up to the size/depth bound is compiled with the real Hy compiler and executed; "
              "value / escaping exception type, the effect log (checked against the reference trace tree: documented orders are "
              "sequential constraints, argument groups are unordered) and final variable values are compared with a direct "
              "interpreter written from the documentation. Exhaustive within the bound: every composition of two or three constructs, "
              "with a statement-producing form in every expression slot, is covered.")
RULE = ("sized terms enumerated by node count then constructor order; contexts x fillers enumerated likewise; a case = (term, wrapper); "
        "non-trivial = the term has a statement-producing constructor in an expression slot of another form (the compiler must lift it), counted per distinct term; "
        "'unspecified' = the reference interpreter found an argument group whose children conflict on a variable or exit abruptly (docs leave the order open): weak oracle only")
ASSUMPTIONS = [
    "programs over the constructors, leaves {(log i 0),(log i 1),(log i x)}, variables {x,y} of mc/ref/lang.py only",
    "argument-group evaluation order is unspecified by docs/semantics.rst: any interleaving of the children's effects is accepted; programs whose value could depend on it are classified unspecified",
    "programs whose reference execution exceeds 40 effects are counted as diverging and not executed",
]
ENGINE = "E1-enumerator"

BOUNDS = {
    "quick": dict(n=4, ctx=[[1, 2], [2, 1]], sib_levels=["lite", "lite"], shards=96),
    "thorough": dict(n=5, ctx=[[1, 3], [2, 2], [3, 1]], sib_levels=["full", "full", "min"], shards=1536),
}
TIME_CAP = {"quick": 900, "thorough": 5400}

# contexts: one-hole paths.  A context step is (op, slot_index); sibling slots
# are filled with the canonical effectful leaf.
CTX_OPS = [op for op in lang.ARITY]


def bounds(tier):
    b = BOUNDS[tier]
    return {"max_nodes": b["n"], "contexts[depth,max_filler_nodes]": b["ctx"],
            "sibling_temporaries": {"fillers": len(_temp_fillers("0", "x")), "combinators": _COMBINATORS, "levels_per_context_depth": b.get("sib_levels")},
            "constructors": sorted(lang.ARITY) + ["return", "raise", "boom", "break", "continue"],
            "extra_constructors (own family: every term up to the size bound that contains one)": sorted(lang.EXTRA_ARITY),
            "leaves": [l[1] for l in lang.LEAVES], "wrappers": list(lang.WRAPPERS), "pool": list(lang.POOL)}


def _space_sizes(tier):
    b = BOUNDS[tier]
    sizes = []
    for w_fn in (False, True):
        for n in range(1, b["n"] + 1):
            sizes.append((w_fn, n, len(lang.gen(n, w_fn, False))))
    return sizes


def _contexts(depth, in_fn, in_loop):
    """All one-hole contexts of exactly `depth` steps, as (builder, in_fn_at_hole, in_loop_at_hole).
    builder(filler) -> term.  Sibling slots are the leaf ("L","1") except that a
    loop condition is ("L","x") (so loops terminate: x is reassigned by fillers or the loop is left by fuel)."""
    if depth == 0:
        yield (), in_fn, in_loop
        return
    for op in CTX_OPS:
        ar = lang.ARITY[op]
        for k in range(ar):
            f, l = lang.slot_ctx(op, k, in_fn, in_loop)
            for rest, f2, l2 in _contexts(depth - 1, f, l):
                yield ((op, k),) + rest, f2, l2


def _sibling(op, j, k):
    """Canonical filler for sibling slot j when the hole is in slot k: chosen so that control REACHES the hole."""
    T, F = ("L", "1"), ("L", "0")
    if op == "if" and j == 0:
        return F if k == 2 else T
    if op == "cond":
        if j == 0:
            return F if k >= 2 else T
        if j == 2:
            return T
    if op in ("or", "or3") and j < k:
        return F
    if op in ("while", "whileelse") and j == 0:
        return F                      # the loop ends at once (a hole in the body is compiled but not run)
    if op == "try_ex" and j == 0 and k == 1:
        return ("raise",)             # make the handler run
    if op == "try_full" and j == 0 and k == 1:
        return ("raise",)
    return T


def _plug(path, filler):
    if not path:
        return filler
    (op, k), rest = path[0], path[1:]
    ar = lang.ARITY[op]
    kids = []
    for j in range(ar):
        if j == k:
            kids.append(_plug(rest, filler))
        else:
            kids.append(_sibling(op, j, k))
    return (op,) + tuple(kids)


# ---- sibling pairs of temporary-producing constructs (two compiler temporaries live at once)
def _temp_fillers(v, var):
    """Terms that make the compiler introduce a temporary and evaluate to the value of leaf v; `var` is the variable
    their statement assigns (the two siblings of a pair use different ones, so the pair is not 'unspecified')."""
    L1, Lv = ("L", "1"), ("L", v)
    st = ("do", ("setv_" + var, L1), Lv)
    out = [
        ("if", L1, st, Lv),
        ("if", ("L", "0"), Lv, st),
        ("and", L1, st),
        ("or", ("L", "0"), st),
        ("when", L1, st),
        ("cond", ("L", "0"), L1, L1, st),
        ("try_fin", Lv, L1),
        ("try_ex", Lv, L1),
        ("try_full", L1, L1, Lv, L1),
        ("with_n", Lv),
        ("fn0", ("do", ("setv_x", L1), Lv)),
    ]
    if var == "x":
        out.append(("let_x", Lv, Lv))
    return out


_COMBINATORS = ["list", "add", "f2", "do"]


def _sib_terms(level="full"):
    """level: 'full' = both orders x 4 combinators; 'lite' = both orders x {list, add}; 'min' = one order x {list}"""
    out = []
    combs = {"full": _COMBINATORS, "lite": ["list", "add"], "min": ["list"]}[level]
    for a in _temp_fillers("0", "y"):
        for b in _temp_fillers("1", "x"):
            for x, y in (((a, b), (b, a)) if level != "min" else ((a, b),)):
                for c in combs:
                    out.append((c, x, y))
    return out


_CTX_CACHE = {}


def _ctx_space(tier, in_fn):
    """[(path, in_fn_at_hole, in_loop_at_hole, max_filler_nodes)]"""
    key = (tier, in_fn)
    if key not in _CTX_CACHE:
        out = []
        for d, mf in BOUNDS[tier]["ctx"]:
            for path, f, l in _contexts(d, in_fn, False):
                out.append((path, f, l, mf))
        _CTX_CACHE[key] = out
    return _CTX_CACHE[key]


def shards(tier):
    b = BOUNDS[tier]
    out = []
    for w_fn, n, cnt in _space_sizes(tier):
        per = max(1, b["shards"] // (2 * b["n"])) if n >= 3 else 1
        for lo, hi in enumer.chunk(cnt, per):
            out.append(["sized", w_fn, n, lo, hi])
    for w_fn in (False, True):
        nctx = len(_ctx_space(tier, w_fn))
        for lo, hi in enumer.chunk(nctx, b["shards"] // 2):
            out.append(["ctx", w_fn, 0, lo, hi])
    for w_fn in (False, True):
        nsib = len(_sib_ctxs(tier, w_fn))
        for lo, hi in enumer.chunk(nsib, 24):
            out.append(["sib", w_fn, 0, lo, hi])
    for w_fn in (False, True):
        for n in range(3, b["n"] + 1):
            for lo, hi in enumer.chunk(len(_xop_terms(n, w_fn)), 8 if n < b["n"] else b["shards"] // 8):
                out.append(["xop", w_fn, n, lo, hi])
    return out


_XOPS = tuple(lang.ARITY) + tuple(lang.EXTRA_ARITY)
_XOP_CACHE = {}


def _xop_terms(n, w_fn):
    """All terms of exactly n nodes over the default constructors PLUS lang.EXTRA_ARITY that contain at least one of the
    extra constructors (try with except+else and no finally; cut with a literal upper bound 0 / with a step)."""
    key = (n, w_fn)
    if key not in _XOP_CACHE:
        _XOP_CACHE[key] = [t for t in lang.gen(n, w_fn, False, _XOPS) if any(o in lang.EXTRA_ARITY for o in lang.ops_in(t))]
    return _XOP_CACHE[key]


def _sib_ctxs(tier, w_fn):
    """[(path, sibling-term level)]"""
    lv = BOUNDS[tier].get("sib_levels", ["lite", "lite"])
    out = [((), lv[0])]
    for d in range(1, len(lv)):
        out += [(path, lv[d]) for path, f, l in _contexts(d, w_fn, False)]
    return out


# ---------------------------------------------------------------- one case
def run_impl(text, wrapper, ast_hook=None):
    from mc import hyside
    import warnings
    warnings.simplefilter("ignore")
    mod = hyside.fresh_module()
    log = hyside.install_effects(mod)
    base_keys = set(mod.__dict__)
    try:
        with time_limit(20):
            tree = hyside.compile_text(text, mod)
            if ast_hook is not None:
                ast_hook(tree)
            code = compile(tree, "<case>", "exec")
    except CaseTimeout:
        return dict(phase="compile", outcome=("timeout",), log=[], env=None, extra=[])
    except BaseException as e:
        return dict(phase="compile", outcome=("compile-error", type(e).__name__, str(e)[:200]),
                    user_error=hyside.is_user_error(e), log=[], env=None, extra=[])
    try:
        with time_limit(20):
            exec(code, mod.__dict__)
        if wrapper == "mod_r":
            out = ("val", hyside.rep(mod.__dict__["r"]))
        elif wrapper == "mod_x":
            out = ("val", hyside.rep(mod.__dict__["x"]))
        else:
            out = ("val", hyside.rep(mod.__dict__["out"]))
    except hyside.FuelExhausted:
        out = ("fuel",)
    except CaseTimeout:
        out = ("timeout",)
    except BaseException as e:
        out = ("exc", _excclass(e))
    env = None
    extra = []
    if wrapper in ("mod_r", "mod_x"):
        env = {k: hyside.rep(v) for k, v in mod.__dict__.items() if k in ("x", "y", "r")}
        extra = sorted(k for k in mod.__dict__ if k not in base_keys and k not in ("x", "y", "r", "f", "hy", "__builtins__")
                       and not k.startswith("_hy_"))
    return dict(phase="run", outcome=out, log=list(log), env=env, extra=extra)


def _excclass(e):
    # which of NameError / UnboundLocalError an unbound variable raises depends on
    # Python-level details (closure cell vs. fast local) the docs do not fix
    n = e if isinstance(e, str) else type(e).__name__
    return "NameError" if n == "UnboundLocalError" else n


def check_case(acc, term, wrapper, record_sample=False, ast_hook=None):
    """term: un-numbered L term."""
    nt = lang.number(term)
    text = lang.wrap_text(nt, wrapper)
    case = {"term": json.loads(json.dumps(term)), "wrapper": wrapper, "text": text}
    m = lang.run_model(nt, wrapper)
    if m["outcome"][0] == "exc":
        m["outcome"] = ("exc", _excclass(m["outcome"][1]))
    acc.evaluations += 1
    if m["outcome"][0] == "diverges":
        acc.count("model-diverges(skipped)")
        acc.outcome("skipped:diverges")
        return
    if m["outcome"][0] == "model-error":
        acc.disagree("harness-model-error", case, str(m["outcome"]), sig="model-error")
        return
    r = run_impl(text, wrapper, ast_hook)
    acc.traces += 1
    acc.transitions += len(r["log"]) + 1
    if record_sample:
        acc.sample({"hy": text, "model_outcome": m["outcome"], "impl_outcome": r["outcome"][:2], "events": len(r["log"])})

    def bad(kind, detail, **kw):
        acc.disagree(kind, case, detail, sig=kind + ":" + _shape(term), shape=_shape(term), **kw)

    if r["phase"] == "compile":
        acc.outcome("compile-error:" + str(r["outcome"][1]))
        bad("compile-failed", f"{r['outcome']}", exc=str(r["outcome"][1]))
        return
    if m["unspecified"]:
        acc.unspecified += 1
        acc.outcome("unspecified")
        # weak oracle: no event more often than in the model is not derivable in
        # general (an abrupt exit may skip or not skip a sibling), so: no internal error only.
        # Not even termination can be demanded: in (f2 (boom) (while 1 ...)) the reference stops at
        # (boom), but the order of the two arguments is unspecified and the loop may run first.
        if r["outcome"][0] in ("timeout", "fuel"):
            acc.count("unspecified-order programs in which a diverging sibling ran first")
        return
    acc.outcome(m["outcome"][0] + ":" + (m["outcome"][1] if m["outcome"][0] == "exc" else "v"))
    if tuple(r["outcome"]) != tuple(m["outcome"]):
        bad("wrong-outcome", f"model {m['outcome']} impl {r['outcome']} log={r['log'][:8]}")
        return
    ok, why = lang.admissible(m["trace"], r["log"])
    if ok is None:
        acc.unspecified += 1
        return
    if not ok:
        bad("wrong-effect-trace", f"{why}; model events {lang.events_of(m['trace'])[:10]} impl log {r['log'][:10]}")
        return
    if m["env"] is not None and m["outcome"][0] in ("val", "exc"):
        if r["env"] != m["env"]:
            bad("wrong-final-environment" + ("-after-exception" if m["outcome"][0] == "exc" else ""), f"model {m['env']} impl {r['env']}")
            return
        if r["extra"]:
            bad("leaked-variable", f"user-visible names not in the model: {r['extra']}")
            return


def _shape(term):
    """Signature: the two outermost constructors on the path to the first
    statement-producing sub-term (coarse root-cause grouping)."""
    ops = []

    def walk(t, d):
        if d > 2:
            return
        ops.append(t[0])
        for k in t[1:]:
            if isinstance(k, tuple):
                walk(k, d + 1)
    walk(term, 0)
    return ">".join(ops[:4])


def _tuplify(t):
    if isinstance(t, list):
        return tuple(_tuplify(e) for e in t)
    return t


def run_shard(shard, tier):
    b = BOUNDS[tier]
    acc = Acc()
    kind, w_fn, n, lo, hi = shard
    wrappers = ("fn_ret", "fn_x") if w_fn else ("mod_r", "mod_x")
    if kind == "sized":
        terms = lang.gen(n, w_fn, False)
        for idx in range(lo, hi):
            t = terms[idx]
            acc.states += 1
            if lang.has_lifted_stmt(t):
                acc.nontrivial += 1
            for op in lang.ops_in(t):
                acc.count("op:" + op)
            for w in wrappers:
                check_case(acc, t, w, record_sample=(idx % 4001 == 7 and w == wrappers[0]))
    elif kind == "xop":
        terms = _xop_terms(n, w_fn)
        for idx in range(lo, hi):
            t = terms[idx]
            acc.states += 1
            if lang.has_lifted_stmt(t):
                acc.nontrivial += 1
            for op in lang.ops_in(t):
                if op in lang.EXTRA_ARITY:
                    acc.count("op:" + op)
            for w in wrappers:
                check_case(acc, t, w, record_sample=(idx % 4001 == 11 and w == wrappers[0]))
    elif kind == "sib":
        paths = _sib_ctxs(tier, w_fn)
        for idx in range(lo, hi):
            path, level = paths[idx]
            for si, st in enumerate(_sib_terms(level)):
                t = _plug(path, st)
                acc.states += 1
                acc.nontrivial += 1
                acc.count("sibling-temporaries")
                for w in (wrappers if tier == "thorough" and level != "min" else wrappers[:1]):
                    check_case(acc, t, w, record_sample=(idx % 17 == 3 and si % 211 == 7 and w == wrappers[0]))
    else:
        ctxs = _ctx_space(tier, w_fn)
        for idx in range(lo, hi):
            path, f, l, mf = ctxs[idx]
            for m in range(1, mf + 1):
                for filler in lang.gen(m, f, l):
                    t = _plug(path, filler)
                    if lang.size(t) <= b["n"]:
                        continue        # already in the sized space
                    acc.states += 1
                    acc.count("ctx-depth:" + str(len(path)))
                    if lang.has_lifted_stmt(t):
                        acc.nontrivial += 1
                    for w in wrappers:
                        check_case(acc, t, w, record_sample=(idx % 997 == 3 and w == wrappers[0]))
    return acc.result()


def recheck(case, tier):
    acc = Acc()
    check_case(acc, _tuplify(case["term"]), case["wrapper"])
    return acc.disagreements


def snippet(d):
    c = d["case"]
    return ("# helpers of the generated language\n"
            "import hy, types\nfrom hy.compiler import hy_compile\n"
            "LOG=[]\n"
            "def log(i,v): LOG.append((i,v)); return v\n"
            "def boom(i): LOG.append((i,'boom')); raise KeyError(i)\n"
            "def f2(i,a,b): LOG.append((i,(a,b))); return b\n"
            "class cm:\n"
            "    def __init__(s,i,sup): s.i,s.sup=i,sup; LOG.append((('cm',i,'new'),None))\n"
            "    def __enter__(s): LOG.append((('cm',s.i,'enter'),None))\n"
            "    def __exit__(s,et,ev,tb): LOG.append((('cm',s.i,'exit'),et and et.__name__)); return s.sup\n"
            f"text = {c['text']!r}\n"
            "m = types.ModuleType('case'); m.__dict__.update(log=log, boom=boom, f2=f2, cm=cm)\n"
            "try:\n    exec(compile(hy_compile(hy.read_many(text), m), '<case>', 'exec'), m.__dict__)\n"
            "except Exception as e: print('raised', type(e).__name__)\n"
            "print({k: v for k, v in m.__dict__.items() if k in ('x','y','r','out')}); print(LOG)\n"
            f"# reference interpreter says: {d['detail'][:300]!r}\n")
