"""C22  Numeric literals read like Python plus the documented extensions.

Space: every string up to length n over an ASCII numeric alphabet (digits,
radix / exponent / imaginary letters in both cases, the letters of Inf/NaN/inf,
'.', both separators, both signs); in the thorough tier additionally every
string up to a larger length over a core sub-alphabet; plus every insertion of
one or two separators into each literal of a fixed corpus of longer literals
under each sign.
Oracle: mc/ref/lit_numlit.py — three-valued (number(type, value) / not a
number / unspecified by the documentation); CPython's parser and complex()
provide the values.  The text is read by the real hy.read_many.
"""
from mc import enumer
from mc.util import Acc

ID = "C22"
TECHNIQUE = ("bounded exhaustive enumeration of all strings over a numeric alphabet up to length n, each read by the real "
             "reader and compared with a three-valued reference model whose values come from CPython's own literal evaluation")
LEVEL_TEXT = ("Every string up to the length bound over the alphabet is read by hy.read_many and classified by a reference model "
              "transcribed from docs/syntax.rst (Python literal / documented extension / not a number / left open). Where the model "
              "says 'number' the model type and the value (type-strict, signed zeros, NaN) must equal CPython's; where it says 'not a "
              "number' the text must read as the symbol, the dotted form, or the dotted-identifier syntax error the documentation "
              "prescribes. Exhaustive within the bound: a single misplaced separator, sign, radix letter or capital is found, not sampled.")
RULE = ("length-then-lexicographic enumeration of all strings over the alphabet (all distinct); corpus family: each corpus literal x sign x "
        "every insertion of 1 or 2 separators at every position (deduplicated per shard by construction); "
        "non-trivial = the text contains an ASCII digit or a case-insensitive inf/nan, i.e. it can reach the numeric cascade with something "
        "number-like; outcome classes = (reference class, deciding documentation rule, observed kind)")
ASSUMPTIONS = [
    "alphabet-bounded: ASCII only (non-ASCII digits such as Arabic-Indic are outside the space); length bound as stated",
    "a leading '+' or '-' on a Python literal is taken as part of the literal (DESIGN C22; -Inf and complex() strings are signed in the docs)",
    "signed imaginary literals are valued by complex(text) (the documented constructor), not by Python's unary minus (which gives real part -0.0)",
    "unspecified by the documentation, weak oracle only (reads as number/symbol/dotted form/Hy syntax error, no other exception): "
    "+Inf +NaN -NaN; Infinity; inf/nan in another case inside a complex literal; bare j/J; a separator after a sign that follows the first digit (1e+_5, 1+_5j); separators in a text without any digit "
    "(Inf_); dotted identifiers with such a part",
]

FULL = list("0179abefijnoxINEJX._,+-")          # 23
CORE = list("019abefjnoxIN._,+-")               # 18
CORPUS = ["1000", "0x1F", "0XaB", "0o17", "0b101", "007", "1.5e3", "1e-5", "2.5E+10", "2+3j", "1.5-2.5e1j",
          "10j", ".5", "5.", "Inf", "NaN", "1e5J", "1+Infj", "NaN-NaNj", "00", "0.0", "9e999"]
SIGNS = ["", "-", "+"]

BOUNDS = {
    "quick": dict(full_n=4, core_n=0, shards=96),
    "thorough": dict(full_n=5, core_n=6, shards=1024),
}
TIME_CAP = {"quick": 600, "thorough": 3000}


def bounds(tier):
    b = BOUNDS[tier]
    return {"alphabet": FULL, "max_len": b["full_n"],
            "core_alphabet": CORE if b["core_n"] else [], "core_max_len": b["core_n"],
            "corpus": CORPUS, "corpus_signs": SIGNS,
            "corpus_edits": "every insertion of 1 or 2 separators ('_' or ',') at every position, repeats allowed"}


def shards(tier):
    b = BOUNDS[tier]
    out = [["full", lo, hi] for lo, hi in enumer.string_shards(len(FULL), b["full_n"], b["shards"], minlen=1)]
    if b["core_n"]:
        # only lengths above the full bound: shorter core strings are in the full family
        lo0 = enumer.count_strings(len(CORE), b["full_n"], 1)
        total = enumer.count_strings(len(CORE), b["core_n"], 1)
        step = -(-(total - lo0) // b["shards"])
        out += [["core", lo, min(total, lo + step)] for lo in range(lo0, total, step)]
    for i in range(len(CORPUS)):
        out.append(["corpus", i, 0])
    return out


def corpus_cases(i):
    seen = set()
    for sign in SIGNS:
        base = sign + CORPUS[i]
        n = len(base)
        for p in range(n + 1):
            for a in "_,":
                one = base[:p] + a + base[p:]
                if one not in seen:
                    seen.add(one)
                    yield one
                for q in range(p + 1, n + 2):
                    for c in "_,":
                        two = one[:q] + c + one[q:]
                        if two not in seen:
                            seen.add(two)
                            yield two
        if base not in seen:
            seen.add(base)
            yield base


# ---------------------------------------------------------------- observation

def observe(text):
    """-> (kind, payload).  kind in num / symbol / dotted / lexerror / other."""
    import hy
    import hy.models as M
    from hy.reader.exceptions import LexException
    try:
        forms = list(hy.read_many(text))
    except LexException as e:
        return "lexerror", type(e).__name__
    except BaseException as e:
        return "other", f"raised {type(e).__name__}: {e}"
    if len(forms) != 1:
        return "other", f"{len(forms)} forms"
    m = forms[0]
    t = type(m)
    if t is M.Integer:
        return "num", int(m)
    if t is M.Float:
        return "num", float(m)
    if t is M.Complex:
        return "num", complex(m)
    if t is M.Symbol:
        return "symbol", str(m)
    if t is M.Expression and len(m) >= 2 and all(type(x) is M.Symbol for x in m):
        return "dotted", [str(x) for x in m]
    return "other", f"model {t.__name__}"


def _tname(t):
    return {int: "Integer", float: "Float", complex: "Complex"}.get(t, str(t))


def judge(text):
    """-> (outcome_class, disagreement or None).  disagreement = (kind, detail, sig, fields)."""
    from mc.ref import lit_numlit as R
    ref = R.classify(text)
    kind, got = observe(text)
    sepidx = min((i for i, c in enumerate(text) if c in "_,"), default=None)
    before = text[:sepidx] if sepidx is not None else ""
    base = dict(rule=ref.rule, before_sep=before)
    if kind == "other":
        return f"{ref.cls}:{ref.rule}->other", ("reader-internal-error-or-odd-result", got,
                                                 "other:" + got[:40], dict(base, got=got[:60]))
    if ref.cls == "unspec":
        return f"unspec:{ref.rule}->{kind}", None
    if ref.cls == "num":
        if kind != "num":
            return (f"num:{ref.rule}->{kind}",
                    ("number-not-read-as-number",
                     f"documentation: {text!r} is the {_tname(ref.typ)} {ref.value!r} ({ref.rule}); reader gave {kind} {got!r}",
                     f"number-not-read-as-number:{ref.rule}:{kind}", dict(base, expected_type=_tname(ref.typ), got=kind)))
        if type(got) is not ref.typ:
            return (f"num:{ref.rule}->num-wrong-type",
                    ("number-wrong-type",
                     f"documentation: {text!r} is the {_tname(ref.typ)} {ref.value!r} ({ref.rule}); reader gave {_tname(type(got))} {got!r}",
                     f"number-wrong-type:{ref.rule}:{_tname(ref.typ)}->{_tname(type(got))}",
                     dict(base, expected_type=_tname(ref.typ), got=_tname(type(got)))))
        if not R.same_number(ref.typ, ref.value, got):
            return (f"num:{ref.rule}->num-wrong-value",
                    ("number-wrong-value",
                     f"CPython: {text!r} is {ref.value!r} ({ref.rule}); reader gave {got!r}",
                     f"number-wrong-value:{ref.rule}", dict(base, expected_type=_tname(ref.typ), got=_tname(type(got)))))
        return f"num:{ref.rule}->{_tname(ref.typ)}", None
    # not a number
    if kind == "num":
        return (f"notnum:{ref.rule}->num",
                ("nonnumber-read-as-number",
                 f"documentation: {text!r} is not a numeric literal ({ref.rule}); reader gave {_tname(type(got))} {got!r}",
                 f"nonnumber-read-as-number:{ref.rule}", dict(base, got=_tname(type(got)))))
    exp = R.expected_nonnumber(text)
    if exp[0] == "unspec":
        return f"unspec:{exp[1]}->{kind}", None
    if exp[0] == "symbol":
        ok = kind == "symbol" and got == text
    elif exp[0] == "dotted":
        want = (["."] if exp[1] == "" else [exp[1], "None"]) + exp[2]
        ok = kind == "dotted" and got == want
    else:
        ok = kind == "lexerror" and got == "LexException"
    if ok:
        return f"notnum:{ref.rule}->{exp[0]}", None
    # which rules made the parts of a dotted identifier non-numbers (a part that
    # the reader wrongly takes for a number surfaces here as a syntax error)
    prules = sorted({R.classify(p).rule for p in exp[2]}) if exp[0] == "dotted" else []
    return (f"notnum:{ref.rule}->wrong-form",
            ("nonnumber-wrong-form", f"documentation: {text!r} reads as {exp!r}; reader gave {kind} {got!r}",
             f"nonnumber-wrong-form:{exp[0]}->{kind}:{'+'.join(prules)}",
             dict(base, expected=exp[0], got=kind, part_rules="+".join(prules))))


def _nontrivial(text):
    low = text.lower()
    return any(c in "0123456789" for c in text) or "inf" in low or "nan" in low


def _case(acc, text):
    cls, dis = judge(text)
    acc.states += 1
    acc.transitions += len(text) + 1
    acc.traces += 1
    acc.evaluations += 1
    if _nontrivial(text):
        acc.nontrivial += 1
    if cls.startswith("unspec:"):
        acc.unspecified += 1
    acc.outcome(cls)
    if dis:
        kind, detail, sig, fields = dis
        acc.disagree(kind, {"text": text}, detail, sig=sig, **fields)


def run_shard(shard, tier):
    b = BOUNDS[tier]
    acc = Acc()
    what, lo, hi = shard
    if what == "full":
        for idx, toks in enumer.iter_strings(FULL, lo, hi, b["full_n"], 1):
            s = "".join(toks)
            _case(acc, s)
            if idx % 40009 == 7:
                acc.sample(s)
    elif what == "core":
        for idx, toks in enumer.iter_strings(CORE, lo, hi, b["core_n"], 1):
            s = "".join(toks)
            _case(acc, s)
            if idx % 4000037 == 11:
                acc.sample(s)
    else:
        n = 0
        for s in corpus_cases(lo):
            _case(acc, s)
            n += 1
            if n % 700 == 5:
                acc.sample(s)
    return acc.result()


def recheck(case, tier):
    acc = Acc()
    _case(acc, case["text"])
    return acc.disagreements


def snippet(d):
    t = d["case"]["text"]
    return ("import hy\n"
            f"text = {t!r}\n"
            "try:\n    m = list(hy.read_many(text)); print([(type(x).__name__, x) for x in m])\n"
            "except SyntaxError as e:\n    print('Hy syntax error:', type(e).__name__, e.msg)\n"
            f"# reference (docs/syntax.rst, 'Numeric literals'): {d.get('detail')}\n")
