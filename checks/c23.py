"""C23  String, bytes and bracket-string literals read with Python's escape semantics.

Space: for each prefix in {'', r, b, br, rb}: every body of up to n tokens over
an alphabet of escape-significant tokens (quote characters, backslash, escape
letters, octal/hex digits, \\N names valid and invalid, non-ASCII, LF, CR);
a backslash followed by every printable ASCII character (and TAB, LF, CR, two
non-ASCII characters) in a few contexts; for documented-illegal and other
non-prefixes: every body up to 2 tokens;
for bracket strings: every delimiter of a list x every content up to m tokens
over {letters of the delimiters, ']', '[', LF, CR, braces, backslash, quote}.
Oracle: mc/ref/lit_strlit.py — extent, newline normalisation and the table of
recognised escapes from the documentation; the value is CPython's evaluation
of the equivalent triple-quoted literal; bracket strings verbatim.
"""
from mc import enumer
from mc.util import Acc

ID = "C23"
TECHNIQUE = ("bounded exhaustive enumeration of all literal bodies up to n tokens under every prefix / bracket delimiter, read by the "
             "real reader; CPython's evaluation of the equivalent literal is the value oracle")
LEVEL_TEXT = ("Every body of up to n tokens over the escape-significant alphabet is read under every string prefix by hy.read and "
              "evaluated by CPython as the equivalent triple-quoted literal; model type, value, syntax-error-ness (unrecognised or "
              "malformed escapes, non-ASCII bytes), premature end of input and CR/CRLF normalisation must agree on every one. Every "
              "(delimiter, content) pair of the bracket-string space must read as the content up to the first closing delimiter, "
              "verbatim, minus one leading newline. Exhaustive within the bound: one wrong entry of the escape table, one wrong "
              "decoding path for one prefix, or one wrong restart of the delimiter matcher is found, not sampled.")
RULE = ("length-then-lexicographic enumeration of token strings per family; a case is one (prefix-or-delimiter, body) pair, all distinct; "
        "non-trivial = quoted: the body contains a backslash, a quote, CR, LF or a non-ASCII character; bracket: the content contains "
        "']', CR or LF; outcome classes = (family, prefix class, reference verdict and rule, observed kind)")
ASSUMPTIONS = [
    "alphabet-bounded: bodies over the listed tokens only; NUL and other control characters are outside the alphabet",
    "only the first form of the text is read (hy.read), so text after an early closing quote / delimiter is not examined",
    "octal escapes above 0o377 (deprecated by CPython 3.12, value still produced) are unspecified: weak oracle only",
    "documented-illegal prefixes (uppercase, u): the oracle only demands that no String/Bytes/FString literal is produced under that prefix "
    "(a Hy syntax error, or the prefix read as a symbol, are both accepted); other non-prefixes (bb, rr, bf, x, ...) are unspecified",
    "bracket delimiters contain no newline and no bracket; f / f-… delimiters (f-strings) belong to C24 and are not enumerated; "
    "t / t-… delimiters are plain bracket strings because the bracketed-templates pragma is off",
]

QTOK = ["a", "q", '"', "'", "\\", "n", "x", "4", "1", "7", "8", "N", "u", "U", "{OX}", "{NOPE}", "0041",
        " ", "\n", "\r", "\u00e9", "\u20ac", "{"]
QCORE = ["a", '"', "\\", "x", "4", "7", "N", "{OX}", "\n", "\r", "\u00e9", "u"]
PREFIXES = ["", "r", "b", "br", "rb"]
ILLEGAL = ["u", "U", "R", "B", "F", "T", "Rb", "bR", "BR", "ur", "rB"]          # uppercase / u: documented as not recognised
OTHER = ["bb", "rr", "bf", "fb", "bt", "ft", "rbr", "brb", "x", "a", "tr"]     # nothing said: weak oracle ("tr"/"rt" are t-strings)
DELIMS = ["", "a", "ab", "aa", "aba", "=", "==", "x", "t", "t-a", "a b", "\u00e9", "F", "fa",
          "f=", "f.", "f a", "f+", "=f", "t="]     # start with f/t but are neither `f` nor `f-...`: plain bracket strings
BTOK = ["a", "b", "=", "]", "[", "\n", "\r", "{", "}", "\\", '"']
BCORE = ["a", "b", "]", "\n", "\r"]

# escape-table family: a backslash followed by EVERY character of ESC_CHARS, in each context
ESC_CHARS = [chr(i) for i in range(0x20, 0x7f)] + ["\t", "\n", "\r", "\u00e9", "\u20ac"]
ESC_PRE = ["", "a", "\\\\"]
ESC_POST = ["", "a", "4", "41", "0041", "{OX}", "\n"]

BOUNDS = {
    "quick": dict(q_n=4, qcore_n=0, bad_n=2, b_n=4, bcore_n=0, shards=48),
    "thorough": dict(q_n=5, qcore_n=6, bad_n=3, b_n=5, bcore_n=8, shards=512),
}
TIME_CAP = {"quick": 600, "thorough": 3000}


def bounds(tier):
    b = BOUNDS[tier]
    return {"quoted_tokens": QTOK, "quoted_max_tokens": b["q_n"], "prefixes": PREFIXES,
            "quoted_core_tokens": QCORE if b["qcore_n"] else [], "quoted_core_max_tokens": b["qcore_n"],
            "escape_table_family": {"backslash_followed_by": "every printable ASCII character, TAB, LF, CR, U+00E9, U+20AC",
                                    "before": ESC_PRE, "after": ESC_POST},
            "illegal_prefixes": ILLEGAL, "other_nonprefixes": OTHER, "nonprefix_body_max_tokens": b["bad_n"],
            "bracket_delimiters": DELIMS, "bracket_tokens": BTOK, "bracket_max_tokens": b["b_n"],
            "bracket_core_tokens": BCORE if b["bcore_n"] else [], "bracket_core_max_tokens": b["bcore_n"]}


def _range_shards(tag, k, lo_len_excl, hi_len, nshards):
    lo0 = enumer.count_strings(k, lo_len_excl) if lo_len_excl >= 0 else 0
    total = enumer.count_strings(k, hi_len)
    if total <= lo0:
        return []
    step = -(-(total - lo0) // nshards)
    return [[tag, lo, min(total, lo + step)] for lo in range(lo0, total, step)]


def shards(tier):
    b = BOUNDS[tier]
    out = _range_shards("q", len(QTOK), -1, b["q_n"], b["shards"])
    if b["qcore_n"]:
        out += _range_shards("qcore", len(QCORE), b["q_n"], b["qcore_n"], b["shards"])
    out += [["esc", lo, min(len(ESC_CHARS), lo + 13)] for lo in range(0, len(ESC_CHARS), 13)]
    out += _range_shards("bad", len(QTOK), -1, b["bad_n"], 4)
    out += _range_shards("b", len(BTOK), -1, b["b_n"], b["shards"] // 2)
    if b["bcore_n"]:
        out += _range_shards("bcore", len(BCORE), b["b_n"], b["bcore_n"], b["shards"] // 4)
    return out


# ---------------------------------------------------------------- observation

def observe(text):
    """First form of `text` -> (kind, payload, brackets)."""
    import hy
    import hy.models as M
    from hy.reader.exceptions import LexException, PrematureEndOfInput
    try:
        m = hy.read(text)
    except PrematureEndOfInput:
        return "premature-eof", None, None
    except LexException as e:
        return "syntax-error", str(getattr(e, "msg", e))[:60], None
    except BaseException as e:
        return "other", f"raised {type(e).__name__}: {e}"[:120], None
    t = type(m)
    if t is M.String:
        return "String", str(m), m.brackets
    if t is M.Bytes:
        return "Bytes", bytes(m), None
    if t is M.Symbol:
        return "Symbol", str(m), None
    return "model:" + t.__name__, None, getattr(m, "brackets", None)


def _pclass(prefix):
    return "prefix=" + (prefix or "none")


def judge_quoted(prefix, body):
    from mc.ref import lit_strlit as R
    ref = R.quoted(prefix, body)
    text = prefix + '"' + body + '"'
    kind, got, br = observe(text)
    case = {"fam": "quoted", "prefix": prefix, "body": body}
    fields = dict(prefix=prefix or "none", rule=ref["rule"], got=kind)
    out = []
    if ref.get("selfcheck"):
        out.append(("reference-selfcheck-failed", case, ref["selfcheck"], "selfcheck:" + ref["rule"], fields))
    cls = f"quoted:{_pclass(prefix)}:{ref['cls']}:{ref['rule']}->{kind}"
    if kind == "other" or kind.startswith("model:"):
        out.append(("reader-internal-error-or-odd-result", case, f"{text!r}: {kind} {got!r}", f"odd:{kind}:{str(got)[:30]}", fields))
        return cls, out, ref
    if ref["cls"] == "unspec":
        return cls, out, ref
    if ref["cls"] == "value":
        want_kind = "Bytes" if ref["typ"] is bytes else "String"
        if kind != want_kind:
            out.append(("literal-not-read-as-value", case,
                        f"CPython: {prefix}\"\"\"…\"\"\" is {ref['value']!r}; reader gave {kind} {got!r} for {text!r}",
                        f"literal-not-read-as-value:{prefix}:{ref['rule']}:{kind}", fields))
        elif got != ref["value"]:
            out.append(("literal-wrong-value", case,
                        f"CPython: {ref['value']!r}; reader: {got!r} for {text!r}",
                        f"literal-wrong-value:{prefix}:{ref['rule']}", fields))
        elif br is not None:
            out.append(("quoted-literal-has-brackets-attribute", case, f"brackets={br!r}", "quoted-brackets", fields))
    elif ref["cls"] == "syntax-error":
        if kind != "syntax-error":
            out.append(("invalid-literal-accepted" if kind in ("String", "Bytes") else "invalid-literal-wrong-error", case,
                        f"reference: {text!r} is a syntax error ({ref['rule']}); reader gave {kind} {got!r}",
                        f"invalid-literal:{prefix}:{ref['rule']}:{kind}", fields))
    elif ref["cls"] == "any-syntax-error":
        if kind not in ("syntax-error", "premature-eof"):
            out.append(("invalid-literal-accepted", case,
                        f"reference: {text!r} is unterminated and otherwise invalid; reader gave {kind} {got!r}",
                        f"invalid-literal:{prefix}:{ref['rule']}:{kind}", fields))
    else:  # premature-eof
        if kind != "premature-eof":
            out.append(("unterminated-literal-not-premature-eof", case,
                        f"reference: {text!r} is unterminated; reader gave {kind} {got!r}",
                        f"unterminated:{prefix}:{kind}", fields))
    return cls, out, ref


def judge_bad(prefix, body, documented):
    text = prefix + '"' + body + '"'
    kind, got, br = observe(text)
    case = {"fam": "bad", "prefix": prefix, "body": body}
    cls = f"nonprefix:{'documented-illegal' if documented else 'other'}->{kind if kind != 'Symbol' else 'Symbol'}"
    out = []
    fields = dict(prefix=prefix, got=kind, rule="illegal-prefix" if documented else "other-nonprefix")
    if kind == "other":
        out.append(("reader-internal-error-or-odd-result", case, f"{text!r}: {got!r}", f"odd:{str(got)[:30]}", fields))
    elif documented:
        ok = kind in ("syntax-error", "premature-eof") or (kind == "Symbol" and got == prefix)
        if not ok:
            out.append(("illegal-prefix-accepted", case,
                        f"docs: only lowercase r b f t are prefixes and u is not allowed; {text!r} read as {kind} {got!r}",
                        f"illegal-prefix-accepted:{prefix}:{kind}", fields))
    return cls, out


def judge_bracket(delim, content):
    from mc.ref import lit_strlit as R
    ref = R.bracket(delim, content)
    text = "#[" + delim + "[" + content + "]" + delim + "]"
    kind, got, br = observe(text)
    case = {"fam": "bracket", "delim": delim, "content": content}
    feats = [f for f, on in (("early-close", ref["early_close"]), ("leading-newline", ref["leading_newline"]),
                             ("has-CR", "\r" in content)) if on]
    shape = ",".join(feats) or "plain"
    cls = f"bracket:{shape}->{kind}"
    fields = dict(delim=delim or "none", shape=shape, got=kind)
    out = []
    if kind != "String":
        out.append(("bracket-string-not-read-as-string", case, f"{text!r}: {kind} {got!r}; expected String {ref['value']!r}",
                    f"bracket-not-string:{shape}:{kind}", fields))
    elif got != ref["value"]:
        out.append(("bracket-string-wrong-value", case, f"{text!r}: reader {got!r}; verbatim content {ref['value']!r}",
                    f"bracket-wrong-value:{shape}", fields))
    elif br != delim:
        out.append(("bracket-string-wrong-brackets-attribute", case, f"{text!r}: brackets={br!r}", "bracket-attr", fields))
    return cls, out


# ---------------------------------------------------------------- driver

def _account(acc, cls, dis, ntok, nontrivial, unspec=False):
    acc.states += 1
    acc.transitions += ntok + 2
    acc.traces += 1
    acc.evaluations += 1
    if nontrivial:
        acc.nontrivial += 1
    if unspec:
        acc.unspecified += 1
    acc.outcome(cls)
    for kind, case, detail, sig, fields in dis:
        acc.disagree(kind, case, detail, sig=sig, **fields)


_NT_Q = set('"\'\\\n\r\u00e9\u20ac')


def _do_quoted(acc, toks):
    body = "".join(toks)
    nt = any(c in _NT_Q for c in body)
    for p in PREFIXES:
        cls, dis, ref = judge_quoted(p, body)
        _account(acc, cls, dis, len(toks), nt, ref["cls"] == "unspec")


def run_shard(shard, tier):
    b = BOUNDS[tier]
    acc = Acc()
    what, lo, hi = shard
    if what in ("q", "qcore"):
        alpha, n = (QTOK, b["q_n"]) if what == "q" else (QCORE, b["qcore_n"])
        for idx, toks in enumer.iter_strings(alpha, lo, hi, n):
            _do_quoted(acc, toks)
            if idx % 30011 == 3:
                acc.sample({"body": "".join(toks), "prefixes": PREFIXES})
    elif what == "esc":
        for c in ESC_CHARS[lo:hi]:
            for pre in ESC_PRE:
                for post in ESC_POST:
                    _do_quoted(acc, (pre, "\\", c, post))
                    acc.count("escape-table-family")
    elif what == "bad":
        for idx, toks in enumer.iter_strings(QTOK, lo, hi, b["bad_n"]):
            body = "".join(toks)
            for p in ILLEGAL:
                cls, dis = judge_bad(p, body, True)
                _account(acc, cls, dis, len(toks), True)
            for p in OTHER:
                cls, dis = judge_bad(p, body, False)
                _account(acc, cls, dis, len(toks), True, True)
    else:
        alpha, n = (BTOK, b["b_n"]) if what == "b" else (BCORE, b["bcore_n"])
        for idx, toks in enumer.iter_strings(alpha, lo, hi, n):
            content = "".join(toks)
            nt = any(c in "]\r\n" for c in content)
            for d in DELIMS:
                cls, dis = judge_bracket(d, content)
                _account(acc, cls, dis, len(toks), nt)
            if idx % 20011 == 5:
                acc.sample({"content": content, "delims": DELIMS})
    return acc.result()


def recheck(case, tier):
    acc = Acc()
    if case["fam"] == "quoted":
        cls, dis, ref = judge_quoted(case["prefix"], case["body"])
    elif case["fam"] == "bad":
        cls, dis = judge_bad(case["prefix"], case["body"], case["prefix"] in ILLEGAL)
    else:
        cls, dis = judge_bracket(case["delim"], case["content"])
    _account(acc, cls, dis, 1, True)
    return acc.disagreements


def snippet(d):
    c = d["case"]
    if c["fam"] == "bracket":
        text = "#[" + c["delim"] + "[" + c["content"] + "]" + c["delim"] + "]"
        tail = "# expected: the content up to the first closing delimiter, verbatim, minus one leading newline, CR/CRLF -> LF\n"
    else:
        text = c["prefix"] + '"' + c["body"] + '"'
        py = c["prefix"] + '"""' + c["body"].replace("\r\n", "\n").replace("\r", "\n") + '"""'
        tail = (f"import ast, warnings\nwarnings.simplefilter('error')\n"
                f"try:\n    print('CPython:', repr(ast.literal_eval({py!r})))\nexcept SyntaxError as e:\n    print('CPython rejects:', e.msg)\n")
    return ("import hy\n"
            f"text = {text!r}\n"
            "try:\n    m = hy.read(text); print(type(m).__name__, repr(m))\n"
            "except SyntaxError as e:\n    print('Hy syntax error:', type(e).__name__, e.msg)\n" + tail)
