"""C15  Loading a Hy module from cached bytecode behaves like compiling it.

(1) Module pairs x histories (E2, in-process, real import system, real .pyc):
    every generated pair A (0-3 macros incl. an underscore name, with/without
    an export list, optionally a reader macro) / B (one `require` of A in every
    documented shape — bare, :as, name lists, aliases, *, :macros, two clauses,
    relative inside a package, a submodule named in the list of its package, inside a function body, :readers — plus a use
    of every macro name the shape brings in, an own macro, plain values) x
    every history of <= k steps over
        I   drop A and B from sys.modules, import B
        IB  drop only B, import B
        TB  touch B's source, drop both, import B
        TA  touch A's source, drop both, import B
    Oracle after EVERY step: exactly the files without valid bytecode are
    compiled (HY_MESSAGE_WHEN_COMPILING); B's values equal the reference's;
    B's _hy_macros holds exactly the documented names, each denoting the
    documented macro object of A; each such name is usable (hy.eval in B).
(2) The same pairs' shapes in two FRESH processes each (compile, then load
    from bytecode): same values and macro names, second run compiles nothing.
(3) File-extension rule: a polyglot file (valid Hy and valid Python with
    different results) under each of 11 names (incl. .PY / .Py, which are not Python source suffixes here), loaded (i) through
    SourceFileLoader, (ii) through hy.importer.runhy.run_path (what `hy FILE`
    uses), (iii) by `hy FILE` in a subprocess: compiled as Hy exactly when the
    suffix is not another Python source suffix.
"""
from mc.util import Acc

ID = "C15"
ENGINE = "E2-history"
TECHNIQUE = ("exhaustive module-pair generation (macro sets x export lists x require shapes) x explicit-state exploration of import/touch histories "
             "through the real import system and real .pyc files, with the documented result of `require` as reference; fresh-process and file-name legs")
LEVEL_TEXT = ("Every generated pair of modules (macro module A, requiring module B, all documented require shapes) is imported from source, from "
              "cached bytecode, after touching either file, with and without A staying loaded, in every order up to k steps; after every import "
              "the module values, the macro table and the set of files that had to be compiled are compared with the reference. Exhaustive within the bounds.")
RULE = ("pairs enumerated as (A variant, shape), all distinct; each pair is run through every maximal history over {I, IB, TB, TA} (first step "
        "restricted as stated in the bounds: on fresh files IB is the same operation as I) with the oracle after every step (so every such "
        "history of length <= k is compared once); 'states' = distinct (pair, A bytecode valid?, B bytecode valid?, A still "
        "loaded?) configurations reached; non-trivial = the shape brings at least one macro into B and the history loads B from bytecode at least once")
ASSUMPTIONS = [
    "whether loading B from bytecode imports A at all is not documented (a B that received no macros has no reason to): observed, and A is required "
    "to be compiled exactly when it IS imported anew without valid bytecode",
    "macro sets, export lists, shapes and history operations as listed; modules have no compile-time side effects; touch = new mtime (whole seconds), same content",
    "unspecified: whether `(require A)` / `(require A :as P)` include NON-exported macros of A (docs say 'every macro' but define export lists only for *): "
    "such names may or may not be present, are not used by B, and must only be the same in every load",
    "bare relative `(require .a)` (the resulting prefix is not documented) is outside the space",
    "extension rule: Python's source suffixes are read from importlib.machinery.SOURCE_SUFFIXES on this platform",
]

BOUNDS = {
    # first: operations tried as the FIRST step (on fresh files with nothing loaded IB is literally the same operation as I;
    # TB/TA differ from I only by the source mtime the first bytecode file records)
    "quick": dict(k=2, first=["I"]),
    "thorough": dict(k=3, first=["I", "TB", "TA"]),
}
TIME_CAP = {"quick": 1500, "thorough": 5400}


def _sub_a():
    """index into a_variants() of the A preferred by the fresh-process leg: [m1 m2 _p], default exports"""
    from mc.ref import rc_reqmodel as Q
    return Q.a_variants().index((["m1", "m2", "_p"], None, False))


def bounds(tier):
    from mc.ref import rc_reqmodel as Q
    b = BOUNDS[tier]
    return {"A_variants": [[ms, ex, rd] for ms, ex, rd in Q.a_variants()], "shapes": Q.SHAPES, "pairs": len(Q.pairs()),
            "history_ops": Q.HIST_OPS, "max_history": b["k"], "first_step_in": b["first"], "fresh_process_leg": "one pair per shape, 2 processes each",
            "extension_names": Q.EXT_NAMES}


def shards(tier):
    from mc.ref import rc_reqmodel as Q
    out = [["pair", ai, sh] for ai, sh in Q.pairs()]
    av = Q.a_variants()
    for sh in Q.SHAPES:
        cands = [ai for ai, s in Q.pairs() if s == sh]
        ai = _sub_a() if _sub_a() in cands else cands[-1]
        out.append(["sub", ai, sh])
    out.append(["ext", "loader"])
    out.append(["ext", "run_path"])
    for name in Q.EXT_NAMES:
        out.append(["ext", "hy-file", name])
    return out


# ------------------------------------------------------------------ building a pair on disk

class Pair:
    def __init__(self, ai, shape):
        import os
        from mc.ref import rc_modload as M
        from mc.ref import rc_reqmodel as Q
        self.Q, self.M = Q, M
        self.ai, self.shape = ai, shape
        self.ms, self.export, self.reader = Q.a_variants()[ai]
        self.dir = M.fresh_dir("c15_")
        uid = M.fresh_id()
        self.rel = shape.startswith("rel-")
        if self.rel:
            self.pkg = "rcP_" + uid
            pd = os.path.join(self.dir, self.pkg)
            os.makedirs(pd)
            M.write(os.path.join(pd, "__init__.py"), "")
            self.a_name, self.b_name = self.pkg + ".a", self.pkg + ".b"
            self.a_path, self.b_path = os.path.join(pd, "a.hy"), os.path.join(pd, "b.hy")
            self.a_ref = self.a_name
            rel_name = ".a"
        elif shape.startswith("pkg-"):
            self.pkg = "rcP_" + uid
            pd = os.path.join(self.dir, self.pkg)
            os.makedirs(pd)
            M.write(os.path.join(pd, "__init__.py"), "")
            self.a_name, self.b_name = self.pkg + ".a", "rcB_" + uid
            self.a_path, self.b_path = os.path.join(pd, "a.hy"), os.path.join(self.dir, self.b_name + ".hy")
            rel_name = self.pkg
        else:
            self.pkg = None
            self.a_name, self.b_name = "rcA_" + uid, "rcB_" + uid
            self.a_path, self.b_path = os.path.join(self.dir, self.a_name + ".hy"), os.path.join(self.dir, self.b_name + ".hy")
            rel_name = None
        self.a_text = Q.a_source(self.ms, self.export, self.reader)
        self.b_text, self.values = Q.b_source(shape, self.a_name, rel_name, self.ms, self.export)
        self.sure, self.maybe = Q.brought(shape, self.a_name, self.ms, self.export)
        M.write(self.a_path, self.a_text)
        M.write(self.b_path, self.b_text)

    def describe(self):
        return "A (%s):\n%s\nB (%s):\n%s" % (self.a_name, self.a_text, self.b_name, self.b_text)

    def drop_all(self):
        import sys
        for n in (self.a_name, self.b_name, self.pkg):
            if n:
                sys.modules.pop(n, None)


def _observe(pair, mod):
    """-> (values, macro table {name: source macro name | '?'}, usable {name: value|error})"""
    import sys
    import hy
    vals = {k: mod.__dict__.get(k, "<absent>") for k in pair.values}
    a = sys.modules.get(pair.a_name)
    amac = getattr(a, "_hy_macros", {}) if a is not None else {}
    table = {}
    for k, fn in dict(getattr(mod, "_hy_macros", {})).items():
        src = [n for n, f in amac.items() if f is fn]
        table[k] = src[0] if src else ("<own>" if getattr(fn, "__module__", None) == mod.__name__ else "<other:%s>" % getattr(fn, "__module__", "?"))
    usable = {}
    for k in pair.sure:
        try:
            usable[k] = hy.eval(hy.read("(%s 100)" % k), module=mod)
        except BaseException as e:   # noqa
            usable[k] = "%s: %s" % (type(e).__name__, str(e)[:80])
    rd = sorted(getattr(mod, "_hy_reader_macros", {}))
    return vals, table, usable, rd


def run_pair_history(ai, shape, history):
    """-> (records, pair)"""
    import sys
    from mc.ref import rc_modload as M
    from mc.ref import rc_reqmodel as Q
    pair = Pair(ai, shape)
    model = Q.CacheModel()
    recs = []
    with M.on_sys_path(pair.dir):
        try:
            for step, op in enumerate(history):
                if op == "TB":
                    M.touch(pair.b_path)
                if op == "TA":
                    M.touch(pair.a_path)
                model.touch(op)
                b_from_bytecode = model.valid["B"]
                drop = () if op == "IB" else tuple(n for n in (pair.a_name, pair.pkg) if n)
                for n in drop:
                    sys.modules.pop(n, None)
                a_before = sys.modules.get(pair.a_name)
                mod, exc, compiled, other = M.load(pair.b_name, drop=drop)
                a_after = sys.modules.get(pair.a_name)
                a_imported = a_after is not None and a_after is not a_before
                state_before = (model.valid["A"], model.valid["B"], a_before is not None)
                exp_comp = model.step(a_imported)
                comp = set()
                for p in compiled:
                    if p == pair.a_path:
                        comp.add("A")
                    elif p == pair.b_path:
                        comp.add("B")
                    else:
                        comp.add(p)
                rec = dict(step=step, op=op, compiled=sorted(comp), exp_compiled=sorted(exp_comp), stderr=other[-300:], a_imported=a_imported,
                           from_bytecode=b_from_bytecode, state_before=state_before,
                           exc=None if exc is None else "%s: %s" % (type(exc).__name__, str(exc)[:200]))
                if exc is None:
                    rec["vals"], rec["table"], rec["usable"], rec["readers"] = _observe(pair, mod)
                recs.append(rec)
                if exc is not None:
                    break
        finally:
            pair.drop_all()
    return recs, pair


def judge_pair(pair, history, recs):
    Q = pair.Q
    problems = []
    first_table = None
    for r in recs:
        from_bc = r["from_bytecode"]
        where = dict(step=str(r["step"]), op=r["op"], shape=pair.shape, load=("bytecode" if from_bc else "source"),
                     a="%s|%s" % (",".join(pair.ms), "default" if pair.export is None else ",".join(pair.export)))
        ctx = "step %d (%s) of history %s, B loaded from %s\n%s" % (r["step"], r["op"], history, where["load"], pair.describe())
        if r["exc"] is not None:
            problems.append(dict(kind="module-load-raised", sig="raised:%s:%s:%s" % (pair.shape, where["load"], r["exc"].split(":")[0]),
                                 exc=r["exc"].split(":")[0], detail=r["exc"] + "\n" + ctx, **where))
            break
        if r["compiled"] != r["exp_compiled"]:
            extra = sorted(set(r["compiled"]) - set(r["exp_compiled"]))
            kind = "recompiled-although-bytecode-valid" if extra else "not-recompiled-although-bytecode-stale-or-missing"
            problems.append(dict(kind=kind, sig="%s:%s" % (kind, ",".join(extra or sorted(set(r["exp_compiled"]) - set(r["compiled"])))),
                                 detail="compiled %r, expected %r\n%s" % (r["compiled"], r["exp_compiled"], ctx), **where))
            break
        if r["vals"] != pair.values:
            bad = sorted(k for k in pair.values if r["vals"].get(k) != pair.values[k])
            problems.append(dict(kind="module-values-differ", sig="values:%s:%s" % (pair.shape, where["load"]), names=",".join(bad),
                                 detail="values %r, expected %r\n%s" % (r["vals"], pair.values, ctx), **where))
            break
        exp_table = dict(pair.sure)
        exp_table["own"] = "<own>"
        got = dict(r["table"])
        for k, v in pair.maybe.items():         # unspecified names: either way, but consistent
            if k in got and got[k] == v:
                exp_table[k] = v
        if got != exp_table:
            missing = sorted(set(exp_table) - set(got))
            extra = sorted(set(got) - set(exp_table))
            wrong = sorted(k for k in got if k in exp_table and got[k] != exp_table[k])
            cls = "missing" if missing else "extra" if extra else "wrong-macro"
            problems.append(dict(kind="required-macros-differ-from-documented-set", sig="macros:%s:%s:%s" % (pair.shape, where["load"], cls), diff=cls,
                                 names=",".join(missing or extra or wrong).replace(pair.a_name, "A"),
                                 detail="B._hy_macros = %r, documented %r (unspecified, accepted if present: %r)\n%s" % (got, exp_table, pair.maybe, ctx), **where))
            break
        if first_table is None:
            first_table = got
        elif got != first_table:
            problems.append(dict(kind="macro-table-differs-between-loads", sig="macros-between-loads:%s" % pair.shape,
                                 detail="B._hy_macros = %r now, %r in the first load\n%s" % (got, first_table, ctx), **where))
            break
        exp_use = {k: Q.MACRO_FN[src](100) for k, src in pair.sure.items()}
        if r["usable"] != exp_use:
            problems.append(dict(kind="required-macro-not-usable", sig="usable:%s:%s" % (pair.shape, where["load"]),
                                 detail="calling the required macros in B gives %r, expected %r\n%s" % (r["usable"], exp_use, ctx), **where))
            break
        if pair.shape == "readers" and "rr" not in r["readers"]:
            problems.append(dict(kind="required-reader-macro-missing", sig="readers:%s" % where["load"],
                                 detail="B._hy_reader_macros = %r\n%s" % (r["readers"], ctx), **where))
            break
    return problems


def _maximal(tier):
    import itertools
    from mc.ref import rc_reqmodel as Q
    b = BOUNDS[tier]
    return [[f] + list(h) for f in b["first"] for h in itertools.product(list(Q.HIST_OPS), repeat=b["k"] - 1)]


def _pair_shard(acc, tier, ai, shape):
    from mc.ref import rc_reqmodel as Q
    seen = set()
    cfgs = set()
    any_bc = False
    pair = None
    for h in _maximal(tier):
        recs, pair = run_pair_history(ai, shape, h)
        acc.evaluations += len(recs)
        problems = judge_pair(pair, h, recs)
        bad = int(problems[0]["step"]) if problems else None
        for r in recs:
            cfgs.add(tuple(r["state_before"]))
            pre = tuple(h[:r["step"] + 1])
            if pre in seen:
                continue
            seen.add(pre)
            acc.traces += 1
            acc.transitions += 1
            acc.outcome(("compiled=%s,A-imported=%s" % ("+".join(r["compiled"]), r["a_imported"])) if r["exc"] is None else "raised")
            if r["from_bytecode"]:
                any_bc = True
            if bad is not None and r["step"] == bad:
                p = dict(problems[0])
                acc.disagree(p.pop("kind"), {"leg": "pair", "a": ai, "shape": shape, "history": list(pre)}, p.pop("detail"), sig=p.pop("sig"), **p)
    acc.states += len(cfgs)
    if pair is not None:
        if pair.sure and any_bc:
            acc.nontrivial += 1
        if pair.maybe:
            acc.unspecified += 1
        acc.count("pairs_with_shape:" + shape)
        acc.sample({"A": pair.a_text.strip().split("\n"), "B": pair.b_text.strip().split("\n"), "documented_macros": pair.sure})


# ------------------------------------------------------------------ fresh-process leg

_SUB_PROG = r"""
import json, sys
import hy
sys.path.insert(0, sys.argv[1])
import importlib
b = importlib.import_module(sys.argv[2])
a = sys.modules.get(sys.argv[3])
amac = getattr(a, "_hy_macros", {}) if a is not None else {}
table = {}
for k, fn in getattr(b, "_hy_macros", {}).items():
    src = [n for n, f in amac.items() if f is fn]
    table[k] = src[0] if src else "<own>" if getattr(fn, "__module__", None) == b.__name__ else "<other>"
vals = {k: v for k, v in vars(b).items() if isinstance(v, int) and not k.startswith("_")}
print("RC15 " + json.dumps({"vals": vals, "table": table}, sort_keys=True))
"""


def run_sub(ai, shape):
    import json
    import subprocess
    import sys
    from mc.ref import rc_modload as M
    pair = Pair(ai, shape)
    env = M.sub_env({"HY_MESSAGE_WHEN_COMPILING": "1"})
    runs = []
    for i in range(2):
        p = subprocess.run([sys.executable, "-c", _SUB_PROG, pair.dir, pair.b_name, pair.a_name], env=env, capture_output=True, text=True, timeout=300,
                           cwd=pair.dir)
        data = None
        for line in p.stdout.splitlines():
            if line.startswith("RC15 "):
                data = json.loads(line[5:])
        comp = sorted("A" if l.endswith(pair.a_path) else "B" if l.endswith(pair.b_path) else l for l in p.stderr.splitlines() if l.startswith("Compiling "))
        runs.append(dict(rc=p.returncode, data=data, compiled=comp, stderr=p.stderr[-600:]))
    return runs, pair


def judge_sub(pair, runs):
    problems = []
    where = dict(shape=pair.shape, leg="fresh-process")
    exp_comp = [sorted(["A", "B"]), []]
    for i, r in enumerate(runs):
        load = "source" if i == 0 else "bytecode"
        ctx = "fresh process #%d (%s)\n%s\nstderr: %s" % (i + 1, load, pair.describe(), r["stderr"])
        if r["rc"] != 0 or r["data"] is None:
            last = [l for l in r["stderr"].strip().splitlines() if l.strip()][-1:] or [""]
            problems.append(dict(kind="module-load-raised", sig="sub:raised:%s:%s" % (load, last[0].split(":")[0]), exc=last[0].split(":")[0].strip(), load=load,
                                 detail="exit status %r\n%s" % (r["rc"], ctx), **where))
            break
        if r["compiled"] != exp_comp[i]:
            problems.append(dict(kind="recompiled-although-bytecode-valid" if i else "not-recompiled-although-bytecode-stale-or-missing",
                                 sig="sub:compiled:%d" % i, load=load, detail="compiled %r, expected %r\n%s" % (r["compiled"], exp_comp[i], ctx), **where))
            break
        vals = {k: v for k, v in r["data"]["vals"].items() if k in pair.values}
        if vals != pair.values:
            problems.append(dict(kind="module-values-differ", sig="sub:values:%s:%s" % (pair.shape, load), load=load,
                                 detail="values %r, expected %r\n%s" % (vals, pair.values, ctx), **where))
            break
        exp_table = dict(pair.sure)
        exp_table["own"] = "<own>"
        got = r["data"]["table"]
        for k, v in pair.maybe.items():
            if got.get(k) == v:
                exp_table[k] = v
        if got != exp_table:
            problems.append(dict(kind="required-macros-differ-from-documented-set", sig="sub:macros:%s:%s" % (pair.shape, load), load=load,
                                 detail="B._hy_macros = %r, documented %r\n%s" % (got, exp_table, ctx), **where))
            break
    if not problems and runs[0]["data"] != runs[1]["data"]:
        problems.append(dict(kind="macro-table-differs-between-loads", sig="sub:between-loads:%s" % pair.shape, load="bytecode",
                             detail="first process %r, second %r\n%s" % (runs[0]["data"], runs[1]["data"], pair.describe()), **where))
    return problems


# ------------------------------------------------------------------ extension rule

def _py_suffixes():
    import importlib.machinery
    return list(importlib.machinery.SOURCE_SUFFIXES)


def _exc_fields(e_name, msg, frames):
    return dict(exc=e_name, msg=msg[:80], frame=frames)


def run_ext(leg, name):
    """-> dict(lang | exc...)"""
    import os
    import sys
    from mc.ref import rc_modload as M
    from mc.ref import rc_reqmodel as Q
    d = M.fresh_dir("c15x_")
    path = os.path.join(d, name)
    M.write(path, Q.POLYGLOT)
    import contextlib
    import io
    import traceback
    out = io.StringIO()
    if leg == "loader":
        import importlib.util
        from importlib.machinery import SourceFileLoader
        modname = "rcX_" + M.fresh_id()
        try:
            loader = SourceFileLoader(modname, path)
            spec = importlib.util.spec_from_file_location(modname, path, loader=loader)
            mod = importlib.util.module_from_spec(spec)
            with contextlib.redirect_stdout(out):
                spec.loader.exec_module(mod)
            return dict(lang=getattr(mod, "lang", None))
        except Exception as e:
            tb = traceback.extract_tb(e.__traceback__)
            return dict(exc=type(e).__name__, msg=str(e), frame=tb[-1].name if tb else "")
        finally:
            sys.modules.pop(modname, None)
    if leg == "run_path":
        import hy.importer
        try:
            with contextlib.redirect_stdout(out):
                g = hy.importer.runhy.run_path(path)
            return dict(lang=g.get("lang"))
        except Exception as e:
            tb = traceback.extract_tb(e.__traceback__)
            return dict(exc=type(e).__name__, msg=str(e), frame=tb[-1].name if tb else "")
    # hy FILE in a subprocess
    import subprocess
    p = subprocess.run(M.hy_cmd() + [name], env=M.sub_env(), cwd=d, capture_output=True, text=True, timeout=300)
    if p.returncode == 0 and p.stdout.strip() in ("lang=hy", "lang=py"):
        return dict(lang=p.stdout.strip()[5:])
    return _parse_traceback(p.stderr, p.returncode, p.stdout)


def _parse_traceback(stderr, rc, stdout=""):
    import re
    lines = [l for l in stderr.strip().splitlines() if l.strip()]
    last = lines[-1] if lines else ""
    m = re.match(r"^([A-Za-z_][\w.]*)(?::\s*(.*))?$", last.strip())
    frames = re.findall(r'File "[^"]*", line \d+, in (\S+)', stderr)
    return dict(exc=(m.group(1).split(".")[-1] if m else "exit-%s" % rc), msg=(m.group(2) or "" if m else last)[:120], frame=frames[-1] if frames else "",
                rc=rc, stdout=stdout[-200:], stderr=stderr[-800:])


def judge_ext(leg, name, obs):
    from mc.ref import rc_reqmodel as Q
    want = "hy" if Q.compiled_as_hy(name, _py_suffixes()) else "py"
    if "exc" in obs:
        return [dict(kind="running-a-file-raised", sig="ext:%s:%s:%s" % (leg, obs["exc"], obs["msg"][:40]), leg=leg, exc=obs["exc"], msg=obs["msg"][:80],
                     frame=obs.get("frame", ""), detail="%s on a file named %r (content valid as Hy and as Python) raised %s: %s (innermost frame %s); expected it to be "
                     "compiled as %s\n%s" % (leg, name, obs["exc"], obs["msg"], obs.get("frame"), want, obs.get("stderr", "")))]
    if obs["lang"] != want:
        return [dict(kind="file-compiled-as-wrong-language", sig="ext:%s:%s-as-%s" % (leg, _suffix_class(name), obs["lang"]), leg=leg, suffix=_suffix_class(name),
                     got=str(obs["lang"]), detail="%s compiled the file named %r as %r; its suffix %s another Python source suffix (%r), so it must be compiled as %s"
                     % (leg, name, obs["lang"], "is" if want == "py" else "is not", [s for s in _py_suffixes() if s != ".hy"], want))]
    return []


def _suffix_class(name):
    dot = name.rfind(".")
    return name[dot:] if dot > 0 else "<none>"


def _ext_shard(acc, shard):
    from mc.ref import rc_reqmodel as Q
    leg = shard[1]
    names = Q.EXT_NAMES if len(shard) == 2 else [shard[2]]
    for name in names:
        obs = run_ext(leg, name)
        acc.states += 1
        acc.transitions += 1
        acc.traces += 1
        acc.evaluations += 1
        acc.nontrivial += 1
        acc.outcome("ext:%s:%s" % (leg, obs.get("lang") or "raised"))
        for p in judge_ext(leg, name, obs):
            p = dict(p)
            acc.disagree(p.pop("kind"), {"leg": "ext", "how": leg, "name": name}, p.pop("detail"), sig=p.pop("sig"), **p)


# ------------------------------------------------------------------ contract

def run_shard(shard, tier):
    acc = Acc()
    if shard[0] == "pair":
        _pair_shard(acc, tier, shard[1], shard[2])
    elif shard[0] == "sub":
        runs, pair = run_sub(shard[1], shard[2])
        acc.states += 2
        acc.transitions += 2
        acc.traces += 1
        acc.evaluations += 2
        if pair.sure:
            acc.nontrivial += 1
        acc.outcome("sub:compiled=%s/%s" % ("+".join(runs[0]["compiled"]), "+".join(runs[1]["compiled"])))
        for p in judge_sub(pair, runs):
            p = dict(p)
            acc.disagree(p.pop("kind"), {"leg": "sub", "a": shard[1], "shape": shard[2]}, p.pop("detail"), sig=p.pop("sig"), **p)
    else:
        _ext_shard(acc, shard)
    return acc.result()


def recheck(case, tier):
    if case["leg"] == "pair":
        recs, pair = run_pair_history(case["a"], case["shape"], case["history"])
        return judge_pair(pair, case["history"], recs)
    if case["leg"] == "sub":
        runs, pair = run_sub(case["a"], case["shape"])
        return judge_sub(pair, runs)
    return judge_ext(case["how"], case["name"], run_ext(case["how"], case["name"]))


def snippet(d):
    from mc.ref import rc_reqmodel as Q
    c = d["case"]
    if c["leg"] == "ext":
        return ("import os, tempfile, hy, hy.importer\n"
                f"p = os.path.join(tempfile.mkdtemp(), {c['name']!r}); open(p, 'w').write({Q.POLYGLOT!r})\n"
                "print(hy.importer.runhy.run_path(p).get('lang'))   # what `hy FILE` does; C15: 'hy' unless the suffix is another Python source suffix\n")
    ms, ex, rd = Q.a_variants()[c["a"]]
    rel = c["shape"].startswith("rel-")
    a_name = "pkg.a" if rel else "rca"
    btext, vals = Q.b_source(c["shape"], a_name, ".a" if rel else None, ms, ex)
    return ("# run with PYTHONDONTWRITEBYTECODE unset and a scratch PYTHONPYCACHEPREFIX; HY_MESSAGE_WHEN_COMPILING=1 shows recompilation\n"
            "import importlib, os, sys, tempfile, hy\n"
            "d = tempfile.mkdtemp(); sys.path.insert(0, d)\n"
            + ("os.mkdir(os.path.join(d, 'pkg')); open(os.path.join(d, 'pkg', '__init__.py'), 'w').close(); d = os.path.join(d, 'pkg')\n" if rel else "")
            + f"open(os.path.join(d, {'a.hy' if rel else 'rca.hy'!r}), 'w').write({Q.a_source(ms, ex, rd)!r})\n"
            f"open(os.path.join(d, {'b.hy' if rel else 'rcb.hy'!r}), 'w').write({btext!r})\n"
            f"for i in range(2):\n"
            f"    for n in ({a_name!r}, {'pkg.b' if rel else 'rcb'!r}): sys.modules.pop(n, None)\n"
            f"    b = importlib.import_module({'pkg.b' if rel else 'rcb'!r})\n"
            f"    print(sorted(b._hy_macros), {{k: getattr(b, k, None) for k in {sorted(vals)!r}}})\n"
            f"# expected values {vals!r}; history in the counterexample: {c.get('history')!r}\n")
