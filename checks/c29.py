"""C29  hy.as-model promotes values to models that evaluate back to them.

Two spaces, one oracle.

(a) values (histories of length 1 and 2): every leaf of the model-representable
    types and existing models; every container kind (list, tuple, set, dict,
    List, Tuple, Set, Dict) of <= 2 elements over the full leaf pool; every
    two-level nesting over a small pool; every self-referential shape (anchor
    list / dict value, <= 2 intermediate containers of every kind, back edge
    first or last, rooted at every node of the cycle or outside it).  Each is
    promoted, then a fixed ordinary value is promoted ("keeps working").
(b) histories (E2): every sequence of <= k promotions over 23 operands
    (succeeding; self-referential; an element without a wrapper at every
    position / depth; probes: models whose `replace` hook raises, observes
    hy.models._seen or calls as_model re-entrantly while containers are on
    the recursion guard), with every single and every pair of probe faults.

Oracle per call: the result is a tree of models; hy.eval(tree) equals the
original with the models inside it replaced by what they denote (NaN equals
NaN); as_model(tree) dumps equal to tree; a self-referential structure raises
HyWrapperError; hy.models._seen is empty after EVERY call (returned or raised);
the outcome equals the pristine-interpreter outcome of the same call; the
recursion-guard contents seen from inside the call equal the reference model's.
"""
import json
import os
import subprocess
import sys

from mc.util import Acc

ID = "C29"
ENGINE = "E2-history"
TECHNIQUE = ("bounded exhaustive enumeration of values and self-referential shapes, plus explicit-state BFS over histories of "
             "hy.as-model calls on the real module with exhaustive probe fault sets; reference model of the recursion guard in "
             "lock-step; independent reference evaluation of the promoted tree")
LEVEL_TEXT = ("Every value of the bounded value space and every self-referential shape is promoted, evaluated back and re-promoted; "
              "every history of up to k promotions mixing succeeding, self-referential, unwrappable and failing-inside operands is run on "
              "the real hy.as-model and hy.models._seen is read after every call. Exhaustive within the bounds.")
RULE = ("values: enumerated by container kind, arity and pool, all distinct as specs; non-trivial = contains a container (the recursion guard is "
        "used). histories: BFS over (operand, probe fault set) sequences; state = canonical (labels of ids in hy.models._seen, faults spent) at call "
        "boundaries and at every probe action; 'states' = the value cases plus the distinct canonical states of the pruned state-graph search; non-trivial history = "
        "contains at least one failing promotion followed by a later call")
ASSUMPTIONS = [
    "value pools, container arities (<= 2; dict <= 1 pair in nestings) and nesting depth (2) as listed in bounds",
    "NaN is kept out of set elements and dict keys (Python compares those by identity first)",
    "Expression values are (+ ...) forms only; Symbol values are None / True / False",
    "probes are instances of a hy.models.Symbol subclass overriding .replace(), which as_model calls on models; if that hook is not live the probe operands are reported as dead, not as violations",
    "an element no wrapper exists for must make as_model raise; the exception CLASS is demanded (HyWrapperError) only for self-reference, as in the property; elsewhere it is compared with the pristine-interpreter outcome",
    "equality of the evaluated value is Python == (NaN == NaN); a result that is equal but of another type (1 vs True) is counted, not reported",
]

BOUNDS = {
    "quick": dict(depth=3, call_faults=2, total_faults=2, graph_depth=6, value_shards=48),
    "thorough": dict(depth=4, call_faults=2, total_faults=2, graph_depth=8, value_shards=256),
}
TIME_CAP = {"quick": 600, "thorough": 3600}
N_OPS_HINT = 38
FOLLOW = "nest"

_OPS = {}
_VALS = {}


def _ops(tier):
    from mc.ref import hs_asmodel as H
    if tier not in _OPS:
        _OPS[tier] = H.all_ops(BOUNDS[tier]["call_faults"], H.hook_is_live())
    return _OPS[tier]


def _values(tier):
    """Stream of (index, spec): the value space, then the cycle shapes."""
    import itertools
    from mc.ref import hs_asmodel as H
    return enumerate(itertools.chain(H.value_space(tier), H.cycle_space()))


def bounds(tier):
    from mc.ref import hs_asmodel as H
    b = BOUNDS[tier]
    return {"history_operands": {k: repr(v) for k, v in H.OPERANDS.items()}, "probe_scripts": {k: repr(v) for k, v in H.PROBES.items()},
            "max_history_length": b["depth"], "max_faults_per_call": b["call_faults"], "max_faults_per_history": b["total_faults"],
            "state_graph_search_depth": b["graph_depth"],
            "value_leaves": [repr(x) for x in H.LEAVES_FULL], "nesting_pool": [repr(x) for x in H.LEAVES_SMALL[tier]],
            "inner_container_max_elements": H.INNER_LEN[tier],
            "container_kinds": H.KINDS, "cycle_shapes": "anchor in {list, dict} x chain of <=2 of {list,tuple,dict,List,Tuple,Set,Dict,Expression} x back edge first/last x every root"}


def shards(tier):
    b = BOUNDS[tier]
    out = [["graph"]]
    out += [["hist", i] for i in range(N_OPS_HINT)]
    out += [["fresh", i] for i in range(0, N_OPS_HINT, 5)]
    out += [["values", i, b["value_shards"]] for i in range(b["value_shards"])]
    return out


def _key(op):
    return (op[0] if isinstance(op[0], str) else "<spec>") + ":" + ",".join(map(str, op[1]))


class Ctx:
    pass


class AsModelSystem:
    def __init__(self, ops, total_faults, acc, deep, use_fresh=True):
        from mc.ref import hs_asmodel as H
        self.H = H
        self.ops = ops
        self.total_faults = total_faults
        self.acc = acc
        self.deep = deep
        self.hook = H.hook_is_live()
        self.fresh = {}
        if use_fresh:
            for op in ops:
                self.fresh[_key(op)] = H.fresh_outcome(op[0], op[1])
        H.force_pristine()

    def reset(self):
        if self.H.force_pristine():
            self.acc.count("harness_reset_repaired_leaked_state")
        ctx = Ctx()
        ctx.labels = {}
        ctx.nodes = {}
        ctx.spent = 0
        ctx.mid = []
        ctx.failed_then_called = False
        ctx.any_failed = False
        ctx.last = None
        return ctx

    def enabled(self, ctx, d):
        left = self.total_faults - ctx.spent
        return [op for op in self.ops if len(op[1]) <= left]

    def canon(self, ctx):
        return (self.H.seen_labels(ctx.labels), ctx.spent)

    def mid_states(self, ctx):
        return ctx.mid

    def nontrivial(self, ctx):
        return ctx.failed_then_called

    def _leak(self, ctx, when, opk, how, problems):
        labs = self.H.seen_labels(ctx.labels)
        if labs:
            problems.append(dict(kind="seen-not-empty-after-call", sig="leak:%s:%s" % (when, how), when=when, call=how, op=opk,
                                 detail="hy.models._seen holds %r after %s (%s)" % (list(labs), when, how)))
        return bool(labs)

    def step(self, ctx, op):
        H = self.H
        x, faults = op
        opk = _key(op)
        name = x if isinstance(x, str) else json.dumps(x)
        node = ctx.nodes.get(name)
        if node is None:
            node = ctx.nodes[name] = H.build(H.operand_spec(x), ctx.labels, x if isinstance(x, str) else "v%d" % len(ctx.nodes))
        if ctx.any_failed:
            ctx.failed_then_called = True
        out, run, res = H.call(node, ctx.labels, faults)
        problems = []
        how = "returned" if out[0] == "ok" else "raised-" + out[1]
        if run.fired and out[0] == "ok":
            how = "returned-after-caught-failure"
        self._leak(ctx, "as_model", opk, how, problems)
        ref_out, st = H.ref_run(node, ctx.labels, faults, self.hook)
        ctx.spent += len(faults)
        ctx.mid = [("mid", e[0], e[-1]) for e in run.log]
        ctx.any_failed = ctx.any_failed or out[0] != "ok" or bool(run.fired)
        ctx.last = (out, ref_out, run)
        # outcome class against the reference model
        if ref_out[0] == "ok":
            if out[0] != "ok":
                problems.append(dict(kind="promotion-of-representable-value-raised", sig="raised:%s" % out[1], exc=out[1], op=opk,
                                     detail="as_model raised %r on a value built from model-representable types" % (out,)))
        elif ref_out[1] == "HyWrapperError" and ref_out[2] == "self":
            if out[:2] != ("raise", "HyWrapperError"):
                problems.append(dict(kind="self-reference-not-HyWrapperError", sig="selfref:%s" % (out[1] if out[0] == "raise" else "returned"),
                                     got=(out[1] if out[0] == "raise" else "returned"), op=opk,
                                     detail="self-referential structure: expected HyWrapperError, got %r" % (out,)))
        elif ref_out[1] == "HyWrapperError":
            if out[0] == "ok":
                problems.append(dict(kind="unrepresentable-element-accepted", sig="unwrappable-accepted", op=opk,
                                     detail="as_model returned %r for a structure containing an object no literal represents" % (H.dump(res),)))
            elif out[1] != "HyWrapperError":
                self.acc.unspecified += 1
        elif ref_out[1] == "Fault" and out[:2] != ("raise", "Fault"):
            self.acc.unspecified += 1
        if H._jl(run.log) != H._jl(st.log):
            a, b = H._jl(run.log), H._jl(st.log)
            k = next((i for i, (p, q) in enumerate(zip(a, b)) if p != q), min(len(a), len(b)))
            problems.append(dict(kind="mid-call-guard-state-differs-from-reference-model", sig="ref:mid:%s" % how, call=how, op=opk,
                                 detail="(action, result, labels in _seen) inside the call: real %r, model %r (first difference at %d)" % (a[k:k + 2], b[k:k + 2], k)))
        d = None
        if out[0] == "ok":
            d = H.dump(res)
            bad = H.not_models(d)
            if bad:
                problems.append(dict(kind="result-is-not-a-model-tree", sig="not-model:%s" % bad[0], nonmodel=bad[0], op=opk,
                                     detail="result contains non-model nodes of types %r: %r" % (bad, d)))
        fr = self.fresh.get(opk)
        if fr is not None and (list(out) != fr["out"] or d != fr["dump"]):
            problems.append(dict(kind="outcome-differs-from-fresh-interpreter", sig="fresh:%s" % how, call=how, op=opk,
                                 detail="in this history: %r %r; pristine interpreter: %r %r" % (out, d, fr["out"], fr["dump"])))
        if out[0] == "ok" and not problems:
            # idempotence (cheap: always)
            out2, run2, res2 = H.call(res_node(res), ctx.labels, ())
            if out2[0] != "ok" or H.dump(res2) != d:
                problems.append(dict(kind="not-idempotent", sig="idem:%s" % out2[0], op=opk,
                                     detail="as_model(as_model(x)) gave %r %r, as_model(x) dumps as %r" % (out2, H.dump(res2) if res2 is not None else None, d)))
            self._leak(ctx, "as_model-of-result", opk, how, problems)
            if self.deep and not H.has_kind(H.operand_spec(x), ("probe",)):
                self._eval_check(ctx, node, res, opk, how, problems)
        return problems

    def _eval_check(self, ctx, node, res, opk, how, problems):
        import hy
        H = self.H
        try:
            want = ("ok", H.ref_value(node))
        except TypeError as e:
            want = ("raise", "TypeError")
        try:
            got = ("ok", hy.eval(res, {}))
        except BaseException as e:
            got = ("raise", type(e).__name__, str(e)[:80])
        self.acc.count("promoted_trees_evaluated")
        self._leak(ctx, "hy.eval-of-result", opk, how, problems)
        if want[0] == "raise":
            if got[0] != "raise":
                self.acc.unspecified += 1
            return
        if got[0] == "raise":
            problems.append(dict(kind="evaluating-promoted-tree-raised", sig="eval-raised:%s" % got[1], exc=got[1], op=opk,
                                 detail="hy.eval(as_model(x)) raised %r; tree %r" % (got[1:], H.dump(res))))
            return
        eq, ty = H.same_value(got[1], want[1])
        if not eq:
            problems.append(dict(kind="evaluates-to-different-value", sig="eval-differs:%s" % type(want[1]).__name__, op=opk, type=type(want[1]).__name__,
                                 detail="hy.eval(as_model(x)) = %r, expected %r; tree %r" % (got[1], want[1], H.dump(res))))
        elif not ty:
            self.acc.count("evaluates_equal_but_type_differs(not reported)")

    def outcome(self, ctx):
        out, ref_out, run = ctx.last
        return "%s/%s%s" % (out[0], out[1] if out[0] == "raise" else "tree", ":" + out[2] if len(out) > 2 else "") + ("/fired=%d" % len(run.fired))


class _R:
    pass


def res_node(res):
    n = _R()
    n.real = res
    return n


def _explore(acc, tier, roots, prune, depth, count_states, deep):
    from mc import hist
    b = BOUNDS[tier]
    system = AsModelSystem(_ops(tier), b["total_faults"], acc, deep)
    if not system.hook:
        acc.count("PROBE_HOOK_DEAD(as_model no longer calls .replace on models; probe operands observe nothing)")

    def on_problem(history, p):
        p = dict(p)
        acc.disagree(p.pop("kind"), {"history": [[o[0], list(o[1])] for o in history]}, p.pop("detail"), sig=p.pop("sig"),
                     depth=str(len(history)), **{k: str(v) for k, v in p.items()})

    def on_history(history, ctx):
        acc.outcome(system.outcome(ctx))

    ex = hist.Explorer(system, depth, prune=prune, on_problem=on_problem, on_history=on_history)
    st = ex.run(roots)
    hist.report(acc, st, count_states=count_states, prefix="graph:" if prune else "hist:")


def _values_shard(acc, tier, i, n):
    """Every value / cycle shape: history [value, FOLLOW] on the real module."""
    from mc import hist
    from mc.ref import hs_asmodel as H
    system = AsModelSystem([], 0, acc, deep=True, use_fresh=False)
    follow_fresh = H.fresh_outcome(FOLLOW, [])
    for idx, spec in _values(tier):
        if idx % n != i:
            continue
        history = [[spec, []], [FOLLOW, []]]
        ctx = system.reset()
        ps = system.step(ctx, history[0])
        acc.outcome("value:" + system.outcome(ctx))
        first_out = ctx.last[0]
        ps2 = system.step(ctx, history[1])
        out2 = ctx.last[0]
        if not ps2 and (list(out2) != follow_fresh["out"]):
            ps2.append(dict(kind="outcome-differs-from-fresh-interpreter", sig="fresh:after-value", call="after-" + first_out[0], op=FOLLOW,
                            detail="after promoting the value, as_model(%s) gave %r" % (FOLLOW, out2)))
        acc.states += 1
        acc.transitions += 2
        acc.traces += 1
        acc.evaluations += 2
        if H.has_kind(spec, set(H.KINDS) | {"mexpr"}):
            acc.nontrivial += 1
        acc.count("values:" + ("cycle-shape" if H.has_kind(spec, ("ref",)) else spec[0]))
        for p in ps + ps2:
            p = dict(p)
            acc.disagree(p.pop("kind"), {"history": history}, p.pop("detail"), sig=p.pop("sig"), **{k: str(v) for k, v in p.items()})
        if idx % 9973 == 0:
            acc.sample({"value": spec})


def _fresh_process(op):
    code = ("import json\nfrom mc.ref import hs_asmodel as H\n"
            "print('HS_FRESH '+json.dumps(H.fresh_outcome(%r, %r)))\n" % (op[0], list(op[1])))
    p = subprocess.run([sys.executable, "-c", code], capture_output=True, text=True, timeout=120,
                       cwd=os.path.dirname(os.path.dirname(os.path.abspath(__file__))))
    for line in p.stdout.splitlines():
        if line.startswith("HS_FRESH "):
            return json.loads(line[len("HS_FRESH "):])
    return {"error": (p.stdout + p.stderr)[-600:]}


def _fresh_shard(acc, tier, lo, step):
    from mc.ref import hs_asmodel as H
    for op in _ops(tier)[lo:lo + step]:
        case = {"fresh": [op[0], list(op[1])]}
        got = _fresh_process(op)
        acc.evaluations += 1
        acc.traces += 1
        acc.transitions += 1
        if "error" in got:
            acc.disagree("fresh-process-failed", case, got["error"], sig="fresh-process-failed", op=_key(op))
            continue
        acc.outcome("fresh-process:" + got["out"][0])
        here = json.loads(json.dumps(H.fresh_outcome(op[0], op[1])))
        if got != here:
            acc.disagree("pristine-in-process-differs-from-new-process", case, "new process: %r; this worker: %r" % (got, here),
                         sig="fresh:inproc", op=_key(op))
        if got["seen_after"]:
            acc.disagree("seen-not-empty-after-call", case, "in a new process _seen holds %r after the call" % (got["seen_after"],),
                         sig="leak:fresh-process", when="as_model", call=got["out"][0], op=_key(op))


def run_shard(shard, tier):
    acc = Acc()
    b = BOUNDS[tier]
    if shard[0] == "values":
        _values_shard(acc, tier, shard[1], shard[2])
        return acc.result()
    ops = _ops(tier)
    if len(ops) != N_OPS_HINT:
        from mc.ref import hs_asmodel as H
        if H.hook_is_live():
            raise RuntimeError("N_OPS_HINT=%d but the operand table yields %d operations" % (N_OPS_HINT, len(ops)))
    if shard[0] == "graph":
        _explore(acc, tier, ((),), True, b["graph_depth"], True, True)
        acc.sample({"operations": [_key(o) for o in ops]})
    elif shard[0] == "hist":
        if shard[1] < len(ops):
            _explore(acc, tier, ((ops[shard[1]],),), False, b["depth"], False, False)
    else:
        _fresh_shard(acc, tier, shard[1], 5)
    return acc.result()


def recheck(case, tier):
    from mc import hist
    acc = Acc()
    if "fresh" in case:
        ops = _ops(tier)
        i = [k for k, o in enumerate(ops) if [o[0], list(o[1])] == case["fresh"]]
        if i:
            _fresh_shard(acc, tier, i[0], 1)
        return acc.disagreements
    b = BOUNDS[tier]
    history = [[o[0], list(o[1])] for o in case["history"]]
    named = all(isinstance(o[0], str) for o in history)
    system = AsModelSystem(_ops(tier) if named else [], b["total_faults"], acc, deep=True, use_fresh=named)
    return [dict(p) for p in hist.replay(system, history)]


def snippet(d):
    c = d["case"]
    hist_ = c.get("history") or [c["fresh"]]
    return ("import sys; sys.path.insert(0, '/verif')\n"
            "import hy, hy.models\nfrom mc.ref import hs_asmodel as H\n"
            "labels = {}; nodes = {}\n"
            f"for x, faults in {hist_!r}:\n"
            "    node = nodes.setdefault(repr(x), H.build(H.operand_spec(x), labels, 'op%d' % len(nodes)))\n"
            "    out, run, res = H.call(node, labels, faults)     # hy.as_model(node.real)\n"
            "    print(x, faults, '->', out, H.dump(res) if res is not None else None, '| hy.models._seen:', hy.models._seen)\n"
            "    if res is not None and not H.has_kind(H.operand_spec(x), ('probe',)):\n"
            "        print('   hy.eval(tree) =', repr(hy.eval(res, {})), ' expected', repr(H.ref_value(node)))\n")
