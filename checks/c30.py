"""C30  Evaluating (quote m) reproduces the model m exactly.

Space: every model the reader yields for every token string up to n tokens
(C25's text space); C25's structured families (sequence kinds x atoms, special
heads incl. unquote / unquote-splice / quasiquote in quoted position, every
f-string field shape, every string content x delimiter) -- taken as read by
the reader when the spec is reader-producible, else as assembled through the
constructors; plus models only constructors can give (symbols / keywords only
legal with from_parser, FComponent with every combination of conversion /
expression / is_tstring incl. None and odd texts, bare FComponent, FString
with arbitrary brackets, signed-zero complex parts).

Oracle: r = hy.eval(Expression([Symbol("quote"), m])); r equals m node by
node: identical model type, equal value (NaN-aware, signed-zero-aware), and
identical brackets, conversion, expression, is_tstring.  m itself must be
unchanged afterwards.
"""
from mc import enumer
from mc.util import Acc, time_limit, CaseTimeout
from mc.ref import pr_models as P

ID = "C30"
TECHNIQUE = ("bounded exhaustive enumeration of model trees (read from all token strings up to n; assembled from constructors over "
             "structured families); (quote m) evaluated by the real compiler and compared node by node with a strict reference comparer")
LEVEL_TEXT = ("Every model of the bounded space is wrapped in (quote ...), compiled and evaluated by the real Hy, and the result "
              "is compared with the argument at every node including brackets, conversion, expression and is_tstring; exhaustive "
              "within the bound, so a model class or attribute that render_quoted_form forgets is found, not sampled.")
RULE = ("one case per distinct model per shard/block (key = canonical spec); non-trivial = the model contains a node that "
        "render_quoted_form must rebuild with extra arguments or recursion: Symbol, Keyword, bracket String, FString, "
        "FComponent or any sequence; outcome classes = ok:<top type> / first differing field")
ASSUMPTIONS = [
    "models over the listed tokens / atoms / heads / f-string parts only; bounds as stated",
    "elements of sequence models are always proper models (promotion of non-models is C29's subject)",
    "evaluation through hy.eval with a fresh module and empty locals",
    "watchdog: 10 s per evaluation",
]
TIME_CAP = {"quick": 900, "thorough": 3600}
FAMILIES = ["atoms", "constructed", "terms", "fstrings", "strings"]


def bounds(tier):
    b = P.space_bounds(tier)
    b["constructed_only"] = "symbols/keywords legal only with from_parser; FComponent x conversion{None,r,'',rs} x expression{None,'','x',' x ','(f\\n x)',non-ASCII} x is_tstring x 5 child shapes; bare/empty FComponent; FString with non-f brackets; ComplexV signed zeros"
    return b


def shards(tier):
    b = P.SPACE[tier]
    out = []
    nsh = 96 if tier == "quick" else 1024
    for lo, hi in enumer.string_shards(len(P.TOKENS), b["text_n"], nsh):
        out.append(["text", lo, hi])
    for fam in FAMILIES:
        for blk in P.blocks(fam, tier):
            out.append(["fam", fam, blk])
    return out


def _mod():
    import types
    return types.ModuleType("pr_c30_case")


def observe(m):
    import hy
    M = P._M()
    before = P.key(P.spec_of(m))
    form = M.Expression([M.Symbol("quote"), m])
    try:
        with time_limit(10):
            r = hy.eval(form, locals={}, module=_mod())
    except CaseTimeout:
        return dict(kind="quote-eval-nontermination", detail="hy.eval of (quote m) did not return within 10 s")
    except BaseException as e:
        return dict(kind="quote-eval-raises", exc=type(e).__name__,
                    detail=f"evaluating (quote m) raises {type(e).__name__}: {e}"[:400])
    if P.key(P.spec_of(m)) != before:
        return dict(kind="quote-mutated-its-argument", detail="the argument model changed while (quote m) was evaluated")
    if r is m:
        return None
    d = P.model_diff(m, r, expression=True)
    if d is not None:
        return dict(kind=f"quote-{d['field']}-differs", field=d["field"], node=d["node"], path="/".join(map(str, d["path"])),
                    detail=f"(quote m) differs from m at path {d['path']} ({d['node']}.{d['field']}): "
                           f"m has {d['a']!r}, result has {d['b']!r}"[:500])
    return None


def classes(m):
    import math
    M = P._M()
    out = []
    if isinstance(m, M.Complex):
        # the imaginary part decides (a negative-zero real part alone is a different class)
        if m.imag == 0 and math.copysign(1.0, m.imag) < 0:
            out.append("complex-negative-zero-imag")
        elif m.real == 0 and math.copysign(1.0, m.real) < 0:
            out.append("complex-negative-zero-real")
    return out


def culprit(m, obs):
    M = P._M()
    depth = 0
    while depth < 12 and isinstance(m, M.Sequence):
        depth += 1
        for c in m:
            if isinstance(c, M.Object):
                o = observe(c)
                if o is not None:
                    m, obs = c, o
                    break
        else:
            break
    return m, obs


def nontrivial(spec):
    for s in P.walk(spec):
        if s[0] in ("Symbol", "Keyword", "FString", "FComponent") or s[0] in P.SEQ:
            return True
        if s[0] == "String" and s[2] is not None:
            return True
    return False


def check_case(acc, case, m, spec, prov):
    acc.states += 1
    acc.transitions += P.size(spec)
    acc.traces += 1
    acc.evaluations += 1
    for s in P.walk(spec):
        acc.count("node:" + s[0])
    acc.count("provenance:" + prov)
    if nontrivial(spec):
        acc.nontrivial += 1
    obs = observe(m)
    P.check_state(acc, case, "C30 quote")
    if obs is None:
        acc.outcome("ok:" + spec[0])
        return
    cm, cobs = culprit(m, obs)
    P.check_state(acc, case, "C30 culprit search")
    cdesc = P.features(cm)
    ccls = "+".join(classes(cm))
    acc.outcome(obs["kind"])
    acc.count("culprit-class:" + (ccls or "unclassified"))
    fields = {k: str(v) for k, v in obs.items() if k not in ("kind", "detail")}
    fields.update(provenance=prov, culprit=cdesc, culprit_class=ccls or "unclassified", culprit_kind=cobs["kind"],
                  culprit_spec=P.key(P.spec_of(cm))[:200])
    acc.disagree(obs["kind"], case, obs["detail"] + f"  [minimal failing sub-model {cdesc}: {cobs['detail']}]"[:500],
                 sig=(ccls if ccls else f"{cobs['kind']}|{cdesc}"), **fields)


def run_shard(shard, tier):
    b = P.SPACE[tier]
    acc = Acc()
    P.reset_state()
    if shard[0] == "text":
        _, lo, hi = shard
        seen = set()
        for idx, toks in enumer.iter_strings(P.TOKENS, lo, hi, b["text_n"]):
            text = "".join(toks)
            acc.transitions += len(toks)
            forms = P.forms_of_text(text)
            if forms is None:
                acc.outcome("text-not-readable")
                continue
            if not forms:
                acc.outcome("text-without-forms")
                continue
            for i, m in enumerate(forms):
                spec = P.spec_of(m)
                k = P.key(spec)
                if k in seen:
                    acc.count("duplicate-model-in-shard")
                    continue
                seen.add(k)
                check_case(acc, {"text": text, "i": i}, m, spec, "read")
                if acc.states % 4001 == 1:
                    acc.sample({"text": text, "form": i})
    else:
        _, fam, blk = shard
        both = fam == "atoms"      # the assembled twin of a read model, for the atom pool
        for n, spec in enumerate(P.block_specs(fam, tier, blk)):
            m_r, text = (None, None) if fam == "constructed" else P.read_spec(spec)
            if m_r is not None:
                check_case(acc, {"spec": spec, "prov": "read"}, m_r, spec, "read")
            if m_r is None or both:
                check_case(acc, {"spec": spec, "prov": "assembled"}, P.build(spec), spec, "assembled")
            if n % 3001 == 0:
                acc.sample({"family": fam, "spec": P.key(spec)[:200]})
    return acc.result()


def recheck(case, tier):
    acc = Acc()
    P.reset_state()
    if "text" in case:
        forms = P.forms_of_text(case["text"])
        if forms is None or len(forms) <= case["i"]:
            return []
        m = forms[case["i"]]
        check_case(acc, case, m, P.spec_of(m), "read")
    else:
        spec = case["spec"]
        if case.get("prov") == "read":
            m, _ = P.read_spec(spec)
            if m is None:
                return []
            check_case(acc, case, m, spec, "read")
        else:
            check_case(acc, case, P.build(spec), spec, "assembled")
    return acc.disagreements


_BUILD_SRC = '''
import hy, hy.models as M
def build(s):
    t = s[0]
    if t == "Symbol": return M.Symbol(s[1], from_parser=True)
    if t == "Keyword": return M.Keyword(s[1], from_parser=True)
    if t == "String": return M.String(s[1], brackets=s[2])
    if t == "Bytes": return M.Bytes(s[1].encode("latin-1"))
    if t in ("Integer", "Float", "Complex"): return getattr(M, t)(s[1])
    if t == "ComplexV": return M.Complex(float(s[1]), float(s[2]))
    if t == "FString": return M.FString([build(c) for c in s[3]], brackets=s[1], is_tstring=s[2])
    if t == "FComponent": return M.FComponent([build(c) for c in s[4]], conversion=s[1], expression=s[2], is_tstring=s[3])
    return getattr(M, t)([build(c) for c in s[1]])
'''


def snippet(d):
    c = d["case"]
    if "text" in c:
        get = f"import hy, hy.models as M\nm = list(hy.read_many({c['text']!r}))[{c['i']}]\n"
    else:
        get = _BUILD_SRC + f"m = build({c['spec']!r})\n"
    return (get + "r = hy.eval(M.Expression([M.Symbol('quote'), m]))\n"
            "print(repr(m)); print(repr(r))\n"
            "# C30: r must equal m node by node: type, value (signed zeros / NaN included), brackets, conversion, expression, is_tstring\n")
