"""C37  Reader macros are defined and used in stream order and per module.

Space (E2): every stream of <= k top-level items over
  (defreader x 'K) | (defreader x) [returns None] | (defreader x ... reads one form ...)
  (rec #x 5) | #x 6 at top level | (rec #q 5) with q never defined
  (require mrd_b :readers [x]) | (require mrd_b :readers *) | (rec 0)
  (do (defreader x 'K) (rec #x 5))          define + use inside ONE top-level form
evaluated as hy.eval(hy.read_many(text)) in a fresh module M1, followed by each
of a fixed list of second streams evaluated the same way (fresh reader) in an
unrelated fresh module M2.
Plus the "nested compilation" leg: streams whose first form requires / imports a
module FILE that has not been compiled yet (it is read and compiled in the
middle of M1's stream, defines reader macros and uses its own), second form a
use of one of that module's reader macros: visible exactly when the `:readers`
list names it.
Oracle: mc/ref/mac_readerstream.py (reader table updated only between top-level
forms): the top-level forms produced, the values passed to `rec`, LexException
exactly at a use before/without definition (or inside the defining form),
per-module _hy_reader_macros, no visibility across modules/readers, and
HyReader._current_reader is None after every stream, also after an error.
"""
from mc import enumer
from mc.util import Acc

ID = "C37"
ENGINE = "E2-history"
TECHNIQUE = ("explicit enumeration of every stream (history of top-level forms) up to length k, evaluated by the real reader+compiler with lazy "
             "reading in a fresh module, then a second stream in an unrelated module with a fresh reader; compared with a reader-table "
             "reference model (forms, values, errors, per-module tables, current-reader global)")
LEVEL_TEXT = ("Every stream of at most k items over the alphabet is read and evaluated form by form by the real hy; the forms the reader "
              "produced, the values computed, the point and type of the error, the module's reader-macro table and the global current "
              "reader are compared with the reference model, then the same for every listed second stream in another module. Exhaustive "
              "within the alphabet and length, so an ordering / eager-reading / leaking-table / unrestored-global error that needs up to k "
              "forms is found, not sampled.")
RULE = ("streams enumerated length-then-lexicographic over the item alphabet; a case = (first stream, second stream), all distinct; "
        "non-trivial = at least one reader-macro use is resolved against a definition made earlier in a stream, or a use is rejected; "
        "states = distinct canonical (reader table, module table, rejected?) states of the reference model after the first stream (definition constants replaced by rank), counted exactly by the `graph` shard")
ASSUMPTIONS = [
    "names r, s (definable) and q (never defined); helper module mrd_b defining r (returns a model) and s (reads one form)",
    "stream length bound as stated; second streams from the fixed list",
    "after an error only the forms read before it, the error type, the table's keys being a subset of the predicted ones and the current-reader global are compared "
    "(values computed / exact table after a failed stream are not documented: counted unspecified)",
    "the error must be a LexException; its message is recorded, not compared",
]

QUICK_ITEMS = [["defm", "r"], ["defn", "r"], ["defr", "r"], ["defm", "s"], ["use", "r"], ["use", "s"], ["use", "q"], ["top", "r"],
               ["reqr", ["r"]], ["reqstar"], ["plain"], ["douse", "r"]]
THOROUGH_ITEMS = QUICK_ITEMS + [["defr", "s"], ["top", "s"], ["reqr", ["s"]], ["douse", "s"]]
SECOND = [[], [["use", "r"]], [["use", "s"]], [["top", "r"]], [["defm", "r"], ["use", "r"]], [["reqr", ["r"]], ["use", "s"]], [["douse", "r"]]]
BOUNDS = {"quick": dict(items=QUICK_ITEMS, k=3, shards=64), "thorough": dict(items=THOROUGH_ITEMS, k=4, shards=1024)}
TIME_CAP = {"quick": 900, "thorough": 3000}


def bounds(tier):
    from mc.ref import mac_readerstream as R
    b = BOUNDS[tier]
    return {"items": [R.item_text(it, "K") for it in b["items"]], "max_stream_length": b["k"],
            "second_streams": [[R.item_text(it, "K") for it in s] for s in SECOND], "helper_module": R.HELPER_SRC}


def shards(tier):
    b = BOUNDS[tier]
    return [["graph", 0], ["nested", 0]] + enumer.string_shards(len(b["items"]), b["k"], b["shards"])


# ------------------------------------------------------------------ implementation side

_ENV = {}


def _setup():
    if _ENV:
        return _ENV
    import importlib
    import os
    import sys
    import tempfile
    import hy
    from mc.ref import mac_readerstream as R
    root = os.environ.get("MC_SCRATCH") or tempfile.mkdtemp(prefix="hyverif-c37-")
    d = os.path.join(root, "c37_helpers_%d" % os.getpid())
    os.makedirs(d, exist_ok=True)
    with open(os.path.join(d, R.HELPER + ".hy"), "w") as fh:
        fh.write(R.HELPER_SRC)
    sys.path.insert(0, d)
    importlib.invalidate_caches()
    helper = importlib.import_module(R.HELPER)
    _ENV.update(hy=hy, helper=helper, helper_keys=dict(helper._hy_reader_macros), n=0, plain_cache={})
    from hy.reader.hy_reader import HyReader
    _ENV["HyReader"] = HyReader
    _ENV["default_macros"] = sorted(HyReader().reader_macros)
    return _ENV


def show(m):
    import hy.models as M
    if isinstance(m, M.Expression):
        return "(" + " ".join(show(c) for c in m) + ")"
    if isinstance(m, M.List):
        return "[" + " ".join(show(c) for c in m) + "]"
    if isinstance(m, M.Integer):
        return str(int(m))
    if isinstance(m, M.Symbol):
        return str(m)
    if isinstance(m, M.Keyword):
        return ":" + m.name
    if isinstance(m, M.String):
        return '"' + str(m) + '"'
    return "<%s %r>" % (type(m).__name__, m)


def expected_forms(env, texts):
    key = "\n".join(texts)
    c = env["plain_cache"]
    if key not in c:
        if len(c) > 20000:
            c.clear()
        c[key] = [show(f) for f in env["hy"].read_many(key)]
    return c[key]


def run_stream(env, text, tag):
    """hy.eval(hy.read_many(text)) in a fresh module, observing every top-level form as it is read."""
    import types
    hy = env["hy"]
    env["n"] += 1
    M = types.ModuleType("mc37_%s_%d" % (tag, env["n"]))
    recs = []
    M.rec = lambda *a: recs.append(_jsonable(a))
    forms = []

    def tap(it):
        for f in it:
            forms.append(show(f))
            yield f
    exc = None
    try:
        lazy = hy.read_many(text, filename="<c37-%s>" % tag)
        lazy2 = hy.models.Lazy(tap(lazy))
        lazy2.source, lazy2.filename, lazy2.reader = lazy.source, lazy.filename, lazy.reader
        hy.eval(lazy2, module=M)
    except BaseException as e:
        exc = (type(e).__name__, [c.__name__ for c in type(e).__mro__], str(getattr(e, "msg", e))[:120])
    cur = env["HyReader"]._current_reader
    if cur is not None:
        env["HyReader"]._current_reader = None
    return dict(module=M, forms=forms, recs=recs, exc=exc, current_reader_left=cur is not None,
                keys=sorted(getattr(M, "_hy_reader_macros", {})))


def _jsonable(v):
    if isinstance(v, (list, tuple)):
        return [_jsonable(x) for x in v]
    if isinstance(v, (int, str)) or v is None:
        return v
    return repr(v)


def compare(acc, env, phase, items, base, got, case, extra_sig=""):
    """Compare one stream's observation with the model.  Returns the model state."""
    from mc.ref import mac_readerstream as R
    st = R.ReaderStream()
    exp = st.run(items, base)
    want_forms = expected_forms(env, exp["plain_texts"])
    at = exp["error_at"]
    kind_at = items[at][0] if at is not None else "-"

    def bad(kind, detail, sig, **kw):
        acc.disagree(kind, case, f"[{phase}] {detail}\nstream:\n{R.stream_text(items, base)}", sig=f"{kind}:{phase}:{sig}", phase=phase, **kw)

    acc.outcome(f"{phase}:" + ("ok" if at is None else "rejected-at-" + kind_at))
    if got["current_reader_left"]:
        bad("current-reader-not-restored", f"HyReader._current_reader is not None after the stream ({'error' if got['exc'] else 'success'})",
            "after-error" if got["exc"] else "after-success", after="error" if got["exc"] else "success")
    if at is None and got["exc"] is not None:
        n = len(got["forms"])
        failing = items[n][0] if n < len(items) else "?"
        bad("unexpected-error", f"{got['exc'][0]}: {got['exc'][2]} after {n} forms; reference: the stream reads and evaluates", failing,
            exc=got["exc"][0], item=failing)
        return st, exp
    if at is not None and got["exc"] is None:
        bad("missing-error", f"item {at} ({R.item_text(items[at], base + at)}) uses a reader macro that is not defined at that point; "
            f"hy read forms {got['forms']} and computed {got['recs']}", kind_at, item=kind_at)
        return st, exp
    if at is not None and "LexException" not in got["exc"][1]:
        bad("wrong-error-type", f"expected LexException, got {got['exc'][0]}: {got['exc'][2]}", got["exc"][0], exc=got["exc"][0])
    elif at is not None:
        acc.outcome("lex-message:" + ("not-defined" if "is not defined" in got["exc"][2] else "other"))
    if got["forms"] != want_forms:
        k = next((i for i, (a, b) in enumerate(zip(got["forms"], want_forms)) if a != b), min(len(got["forms"]), len(want_forms)))
        bad("wrong-forms", f"forms read: {got['forms']}; reference: {want_forms} (first difference at form {k})",
            ("after-error" if at is not None else "ok") + ":" + _item_of_form(items, base, k, env), error="yes" if at is not None else "no")
    if at is None:
        if got["recs"] != exp["recs"]:
            bad("wrong-values", f"values passed to rec: {got['recs']}; reference: {exp['recs']}", "values")
        if got["keys"] != sorted(st.module):
            bad("module-table", f"_hy_reader_macros keys {got['keys']}; reference {sorted(st.module)}", "keys")
    else:
        acc.unspecified += 1
        if not set(got["keys"]) <= set(st.module):
            bad("module-table", f"after the error _hy_reader_macros keys {got['keys']}; reference: a subset of {sorted(st.module)}", "keys-after-error")
    if exp["uses"] or at is not None:
        acc.count("streams_nontrivial:" + phase)
    return st, exp


def _item_of_form(items, base, k, env):
    """Kind of the item that form number k belongs to (by the reference)."""
    from mc.ref import mac_readerstream as R
    for i in range(len(items)):
        e = R.ReaderStream().run(items[:i + 1], base)
        if e["error_at"] is not None:
            return items[i][0]
        if len(expected_forms(env, e["plain_texts"])) > k:
            return items[i][0]
    return "end"


def check_case(acc, env, first, second):
    from mc.ref import mac_readerstream as R
    case = {"first": first, "second": second}
    hk = dict(env["helper"]._hy_reader_macros)
    g1 = run_stream(env, R.stream_text(first, 100), "m1")
    acc.evaluations += 1
    r1 = compare(acc, env, "stream1", first, 100, g1, case)
    keys1 = sorted(g1["module"].__dict__.get("_hy_reader_macros", {}))
    fns1 = dict(g1["module"].__dict__.get("_hy_reader_macros", {}))
    g2 = run_stream(env, R.stream_text(second, 200), "m2")
    acc.evaluations += 1
    r2 = compare(acc, env, "stream2", second, 200, g2, case)
    acc.traces += 1
    acc.transitions += len(first) + len(second)
    nontrivial = False
    for r in (r1, r2):
        if r[1]["uses"] or r[1]["error_at"] is not None:
            nontrivial = True
    if nontrivial:
        acc.nontrivial += 1
    # isolation
    now1 = g1["module"].__dict__.get("_hy_reader_macros", {})
    if sorted(now1) != keys1 or any(now1[k] is not fns1[k] for k in fns1):
        acc.disagree("cross-module-leak", case, f"M1._hy_reader_macros changed while M2's stream ran: {keys1} -> {sorted(now1)}",
                     sig="cross-module-leak:m1-changed", phase="stream2")
    if dict(env["helper"]._hy_reader_macros) != hk:
        acc.disagree("cross-module-leak", case, f"the helper module's _hy_reader_macros changed: {sorted(env['helper']._hy_reader_macros)}",
                     sig="cross-module-leak:helper-changed", phase="both")
        env["helper"]._hy_reader_macros.clear()
        env["helper"]._hy_reader_macros.update(hk)
    fresh = sorted(env["HyReader"]().reader_macros)
    if fresh != env["default_macros"]:
        acc.disagree("cross-module-leak", case, f"a brand-new HyReader() now knows reader macros {sorted(set(fresh) ^ set(env['default_macros']))}",
                     sig="cross-module-leak:new-reader", phase="both")
    return r1


# ------------------------------------------------------------------ nested compilation
# A stream in M1 requires / imports a module file that has NOT been compiled yet, so that module is read and compiled
# in the middle of M1's stream.  That module defines reader macros and uses one of its own; M1 sees exactly the names
# its `:readers` list asks for.
NESTED_SRC = "(defreader z '78)\n(setv own #z)\n(defreader r '77)\n(setv own2 #r)\n"
# (first form template, second form, expected: list of rec values | "lex")
NESTED = [
    ("(require {M} :readers [r])", "(rec #r)", [[77]]),
    ("(require {M} :readers [r])", "(rec #z)", "lex"),
    ("(require {M} :readers [z])", "(rec #z)", [[78]]),
    ("(require {M})", "(rec #r)", "lex"),
    ("(require {M})", "(rec #z)", "lex"),
    ("(require {M} :readers *)", "(rec #z #r)", [[78, 77]]),
    ("(import {M})", "(rec #z)", "lex"),
    ("(import {M})", "(rec #r)", "lex"),
    ("(eval-when-compile (import {M}))", "(rec #z)", "lex"),
]


def check_nested(acc, env, idx):
    import importlib
    import os
    import sys
    first, second, want = NESTED[idx]
    env["n"] += 1
    name = "mrd_n_%d_%d" % (os.getpid(), env["n"])
    d = os.path.dirname(env["helper"].__file__)
    with open(os.path.join(d, name + ".hy"), "w") as fh:
        fh.write(NESTED_SRC)
    importlib.invalidate_caches()
    text = first.format(M=name) + "\n" + second + "\n"
    case = {"nested": idx, "text": text.replace(name, "FRESH"), "fresh_module_source": NESTED_SRC}
    g = run_stream(env, text, "nested")
    acc.evaluations += 1
    acc.traces += 1
    acc.transitions += 2
    acc.nontrivial += 1
    acc.states += 1

    def bad(kind, detail, sig, **kw):
        acc.disagree(kind, case, "[nested] " + detail + "\nstream:\n" + case["text"] + "FRESH.hy:\n" + NESTED_SRC, sig="nested:%s:%s" % (kind, sig), phase="nested", **kw)
    mod = sys.modules.get(name)
    acc.outcome("nested:" + ("rejected" if want == "lex" else "ok"))
    if g["current_reader_left"]:
        bad("current-reader-not-restored", "HyReader._current_reader is not None after the stream", "x")
    if want == "lex":
        if g["exc"] is None:
            bad("missing-error", "the second form uses a reader macro of the freshly compiled module that the stream never required with :readers; "
                "hy read %r and computed %r" % (g["forms"], g["recs"]), first.split()[0].strip("("))
        elif "LexException" not in g["exc"][1]:
            bad("unexpected-error" if len(g["forms"]) < 2 else "wrong-error-type", "%s: %s after %d forms" % (g["exc"][0], g["exc"][2], len(g["forms"])),
                g["exc"][0], exc=g["exc"][0])
    else:
        if g["exc"] is not None:
            bad("unexpected-error", "%s: %s after %d forms; reference: the stream reads and evaluates" % (g["exc"][0], g["exc"][2], len(g["forms"])),
                g["exc"][0], exc=g["exc"][0])
        elif g["recs"] != want:
            bad("wrong-values", "values passed to rec: %r; reference %r" % (g["recs"], want), "values")
    if mod is not None and g["exc"] is None or (mod is not None and len(g["forms"]) >= 2):
        own = (mod.__dict__.get("own"), mod.__dict__.get("own2"))
        if own != (78, 77):
            bad("wrong-values", "the freshly compiled module used its own reader macros: (own, own2) = %r; reference (78, 77)" % (own,), "own")
        if sorted(getattr(mod, "_hy_reader_macros", {})) != ["r", "z"]:
            bad("module-table", "the freshly compiled module's _hy_reader_macros keys %r; reference ['r', 'z']" % sorted(getattr(mod, "_hy_reader_macros", {})), "fresh-keys")
    # an unrelated module / reader afterwards
    g2 = run_stream(env, "(rec #z)\n", "nested2")
    if g2["exc"] is None or "LexException" not in g2["exc"][1]:
        bad("cross-module-leak", "an unrelated module could then read #z: %r %r" % (g2["recs"], g2["exc"]), "unrelated")
    sys.modules.pop(name, None)
    try:
        os.unlink(os.path.join(d, name + ".hy"))
    except OSError:
        pass


def run_shard(shard, tier):
    from mc.ref import mac_readerstream as R
    b = BOUNDS[tier]
    env = _setup()
    acc = Acc()
    if shard[0] == "nested":
        for idx in range(len(NESTED)):
            check_nested(acc, env, idx)
        return acc.result()
    if shard[0] == "graph":
        # the reference model alone over every first stream: exact number of distinct
        # (reader table, module table, rejected?) states, definition constants replaced by rank
        states = set()
        total = enumer.count_strings(len(b["items"]), b["k"])
        for idx, toks in enumer.iter_strings(list(range(len(b["items"]))), 0, total, b["k"]):
            st = R.ReaderStream()
            e = st.run([b["items"][t] for t in toks], 100)
            states.add(_canon(st, e))
        acc.states += len(states)
        acc.count("canonical_model_states", len(states))
        return acc.result()
    lo, hi = shard
    for idx, toks in enumer.iter_strings(list(range(len(b["items"]))), lo, hi, b["k"]):
        first = [b["items"][t] for t in toks]
        for second in SECOND:
            check_case(acc, env, first, second)
        acc.count("first_streams_of_length_%d" % len(first))
        if idx % 331 == 0:
            acc.sample({"first_stream": R.stream_text(first, 100), "then_each_of": len(SECOND)})
    return acc.result()


def _canon(st, e):
    ks = sorted({b[1] for t in (st.table, st.module) for b in t.values() if len(b) > 1 and b[1] < 900})
    rank = {k: i for i, k in enumerate(ks)}

    def tab(t):
        return tuple(sorted((n, b[0], rank.get(b[1], b[1]) if len(b) > 1 else None) for n, b in t.items()))
    return (tab(st.table), tab(st.module), e["error_at"] is not None)


def recheck(case, tier):
    env = _setup()
    acc = Acc()
    if "nested" in case:
        check_nested(acc, env, case["nested"])
        return acc.disagreements
    check_case(acc, env, case["first"], case["second"])
    return acc.disagreements


def snippet(d):
    from mc.ref import mac_readerstream as R
    c = d["case"]
    return (
        "import os, sys, tempfile, types\n"
        "d = tempfile.mkdtemp(); sys.path.insert(0, d)\n"
        f"open(os.path.join(d, {R.HELPER + '.hy'!r}), 'w').write({R.HELPER_SRC!r})\n"
        "import hy\nfrom hy.reader.hy_reader import HyReader\n"
        f"for name, text in (('M1', {R.stream_text(c['first'], 100)!r}), ('M2', {R.stream_text(c['second'], 200)!r})):\n"
        "    M = types.ModuleType(name); out = []; M.rec = lambda *a: out.append(a)\n"
        "    try:\n        hy.eval(hy.read_many(text), module=M); print(name, 'ok', out)\n"
        "    except Exception as e:\n        print(name, type(e).__name__, getattr(e, 'msg', e))\n"
        "    print('  _hy_reader_macros:', sorted(getattr(M, '_hy_reader_macros', {})), ' current reader:', HyReader._current_reader)\n"
        f"# reference: {d['detail'].splitlines()[0][:300]!r}\n")
