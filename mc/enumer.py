"""E1 helpers: indexable, shardable exhaustive enumerators.

Everything here is a pure function of its arguments: the space of a tier never
depends on VERIF_SEED, time or the machine.
"""
import itertools


def count_strings(k, maxlen, minlen=0):
    """Number of strings over a k-letter alphabet with minlen <= len <= maxlen."""
    return sum(k ** n for n in range(minlen, maxlen + 1))


def iter_strings(alphabet, lo, hi, maxlen, minlen=0):
    """Yield (index, tuple_of_tokens) for indices lo <= i < hi of the
    length-then-lexicographic enumeration of all token strings with
    minlen <= len <= maxlen.  Tokens may be multi-character."""
    k = len(alphabet)
    i = 0
    # find starting length
    n = minlen
    base = 0
    while n <= maxlen and base + k ** n <= lo:
        base += k ** n
        n += 1
    if n > maxlen:
        return
    idx = lo
    off = lo - base
    digits = []
    for _ in range(n):
        digits.append(off % k)
        off //= k
    digits.reverse()
    while idx < hi:
        yield idx, tuple(alphabet[d] for d in digits)
        idx += 1
        # increment odometer
        j = n - 1
        while j >= 0:
            digits[j] += 1
            if digits[j] < k:
                break
            digits[j] = 0
            j -= 1
        if j < 0:
            n += 1
            if n > maxlen:
                return
            digits = [0] * n


def string_shards(k, maxlen, nshards, minlen=0):
    """Split the index space of iter_strings into about nshards ranges."""
    total = count_strings(k, maxlen, minlen)
    nshards = max(1, min(nshards, total))
    step = -(-total // nshards)
    return [[lo, min(total, lo + step)] for lo in range(0, total, step)]


def chunk(seq_len, nshards):
    nshards = max(1, min(nshards, seq_len)) if seq_len else 1
    step = -(-seq_len // nshards) if seq_len else 1
    return [[lo, min(seq_len, lo + step)] for lo in range(0, max(seq_len, 1), step)]


def sized_terms(leaves, constructors, n, memo=None):
    """All terms with exactly n constructor/leaf nodes.

    leaves: list of leaf terms (size 1).
    constructors: list of (name, arity_list) — each arity in arity_list is
    tried; a term is (name, child, ...).  Returned as a list (memoised)."""
    if memo is None:
        memo = {}
    if n in memo:
        return memo[n]
    out = []
    if n == 1:
        out.extend(leaves)
    for name, arities in constructors:
        for ar in arities:
            if ar == 0:
                if n == 1:
                    out.append((name,))
                continue
            if n - 1 < ar:
                continue
            for split in compositions(n - 1, ar):
                pools = [sized_terms(leaves, constructors, s, memo) for s in split]
                for kids in itertools.product(*pools):
                    out.append((name,) + kids)
    memo[n] = out
    return out


def compositions(total, parts):
    """All ways to write total as an ordered sum of `parts` positive ints."""
    if parts == 1:
        yield (total,)
        return
    for first in range(1, total - parts + 2):
        for rest in compositions(total - first, parts - 1):
            yield (first,) + rest
