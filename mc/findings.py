"""known_findings.json handling.  The file is committed and never written at
run time.  An entry matches a disagreement iff every key of entry['match'] is
present in the disagreement (top level, or under 'case' with the key prefix
'case.') and its value fully matches the given regular expression."""
import json
import os
import re

VERIF = os.path.dirname(os.path.dirname(os.path.abspath(__file__)))
PATH = os.path.join(VERIF, "known_findings.json")


def load(check_id):
    if not os.path.exists(PATH):
        return []
    data = json.load(open(PATH))
    return [e for e in data.get("findings", []) if e.get("property") == check_id and e.get("status") == "known"]


def _get(d, key):
    cur = d
    for part in key.split("."):
        if isinstance(cur, dict) and part in cur:
            cur = cur[part]
        else:
            return None
    return cur


def match(entries, d):
    for e in entries:
        ok = True
        for k, pat in e.get("match", {}).items():
            v = _get(d, k)
            if v is None:
                ok = False
                break
            if not isinstance(v, str):
                v = json.dumps(v, sort_keys=True, default=str)
            if not re.fullmatch(pat, v, re.S):
                ok = False
                break
        if ok and e.get("match"):
            return e
    return None
