"""Small helpers shared by the checks (worker side)."""
import contextlib
import signal


class CaseTimeout(BaseException):
    pass


@contextlib.contextmanager
def time_limit(seconds):
    """Watchdog for 'always terminates' oracles (main thread of a worker)."""
    def handler(signum, frame):
        raise CaseTimeout()
    old = signal.signal(signal.SIGALRM, handler)
    signal.setitimer(signal.ITIMER_REAL, seconds)
    try:
        yield
    finally:
        signal.setitimer(signal.ITIMER_REAL, 0)
        signal.signal(signal.SIGALRM, old)


class Acc:
    """Per-shard accumulator with the result shape mc.run expects."""

    def __init__(self, max_samples=3):
        self.states = 0
        self.transitions = 0
        self.traces = 0
        self.evaluations = 0
        self.nontrivial = 0
        self.unspecified = 0
        self.outcomes = {}
        self.counts = {}
        self.samples = []
        self.disagreements = []
        self.caps_hit = []
        self.max_samples = max_samples
        self._per_sig = {}

    def outcome(self, name, n=1):
        self.outcomes[name] = self.outcomes.get(name, 0) + n

    def count(self, name, n=1):
        self.counts[name] = self.counts.get(name, 0) + n

    def sample(self, s):
        if len(self.samples) < self.max_samples:
            self.samples.append(s)

    def disagree(self, kind, case, detail, sig=None, **kw):
        sig = sig or kind
        n = self._per_sig.get(sig, 0)
        self._per_sig[sig] = n + 1
        if n < 25 and len(self.disagreements) < 5000:
            d = {"kind": kind, "case": case, "detail": detail, "sig": sig}
            d.update(kw)
            self.disagreements.append(d)
        else:
            self.count("disagreements_not_listed(sig already has 25 in this shard)")

    def result(self):
        return dict(states=self.states, transitions=self.transitions, traces=self.traces,
                    evaluations=self.evaluations, nontrivial=self.nontrivial,
                    unspecified=self.unspecified, outcomes=self.outcomes, counts=self.counts,
                    samples=self.samples, disagreements=self.disagreements, caps_hit=self.caps_hit)
