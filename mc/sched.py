"""E3 -- stateless CHESS-style schedule explorer for real Python threads.

What it does
------------
A *program* is a list of zero-argument callables, one per thread.  Every
execution runs them on real OS threads, serialised by a per-thread semaphore
baton: exactly one thread runs at a time and it gives the baton away only at a
*scheduling point*.  With ``fresh_threads=True`` (every replay) the threads are
brand-new ``threading.Thread``s; the search itself uses long-lived pooled
threads that get a fresh body and a fresh trace function per execution (thread
creation costs milliseconds here, and switching sys.settrace off and on
re-instruments every code object on 3.12).  Scheduling points are placed

* before every bytecode of a *watched* frame (``watch(code, globals)`` says
  which frames; the check watches all functions of the module under test) that
  the ``Points`` policy selects: the bytecodes touching shared mutable state
  (mode 'shared'), every global access (mode 'globals') or every bytecode
  (mode 'every').  This uses ``sys.settrace`` per thread with
  ``frame.f_trace_opcodes = True`` on watched frames only; the 'opcode' event
  is delivered before the instruction executes, so the thread is parked with
  the instruction still pending;
* inside ``acquire`` / ``release`` of the instrumented locks (``SchedLock``,
  ``SchedRLock``) that replace ``threading.Lock`` / ``RLock`` in the module
  under test (``load_instrumented``).  A thread whose pending operation is a
  blocking acquire of a lock somebody else holds is *not enabled*; the real
  thread never blocks in a real lock, so the explorer cannot hang.  If no
  thread is enabled while some are unfinished the execution is a *deadlock*.

Everything between two scheduling points of a thread (frame-local bytecodes,
calls into unwatched code) is one atomic step.

A *schedule* is the list of thread ids chosen at the successive scheduling
decisions.  ``Execution`` runs one schedule given by a *strategy* (forced
prefix then "keep running the current thread", or an arbitrary callback).
``explore`` is the depth-first search over all schedules with at most ``bound``
preemptions (``None`` = unbounded): a node is a choice prefix; it is replayed
from the initial state on fresh thread bodies (divergence while replaying =
hard error ``SchedError``: the state in which the last prefix choice is taken
must have the digest the search recorded), the
rest of the execution takes the default choice, and every alternative choice at
a position beyond the prefix whose preemption count stays within the bound
becomes a child.  A preemption is a switch away from a thread that is still
enabled; switches at thread end or at a blocked acquire are free.

CPython 3.12 notes: per-opcode events must be armed before the first traced
thread starts (``_arm_opcode_tracing``); an exception leaving a trace function
unsets the thread's trace function (pooled workers re-install it); an execution
in which a thread entered a watched frame but got no 'opcode' event is a hard
error.

Nothing here is specific to Hy.  TLC helpers (run TLC, read the dot dump,
unfold all maximal paths) are at the end of the file.
"""
import _thread
import dis
import os
import re
import subprocess
import sys
import threading

_REAL_ALLOCATE = _thread.allocate_lock
_REAL_LOCK = threading.Lock
_REAL_RLOCK = threading.RLock
REAL_LOCK_TYPES = (type(_REAL_ALLOCATE()), type(_REAL_RLOCK()))


class SchedError(Exception):
    """Hard error of the harness: replay divergence, nondeterminism, a thread
    that did not come back to the scheduler, an uncontrolled blocking call."""


class _Abort(BaseException):
    """Raised inside parked threads to unwind them when an execution is
    abandoned (deadlock, hard error)."""


_ACTIVE = [None]        # the Execution in progress (at most one per process)


# ------------------------------------------------------------------ locks

class SchedLock:
    """Scheduler-aware replacement for ``threading.Lock`` (and, with
    ``reentrant``, ``threading.RLock``).  Never blocks a real thread."""
    reentrant = False

    def __init__(self, *a, **kw):
        self.owner = None
        self.count = 0

    # -- helpers
    def _who(self):
        ex = _ACTIVE[0]
        if ex is not None:
            tid = ex._ident2tid.get(_thread.get_ident())
            if tid is not None:
                return ex, tid
        return None, ("ext", _thread.get_ident())

    def _free_for(self, who):
        return self.owner is None or (self.reentrant and self.owner == who)

    def _take(self, who):
        self.owner = who
        self.count += 1

    # -- the threading.Lock interface
    def acquire(self, blocking=True, timeout=-1):
        ex, who = self._who()
        blocking = bool(blocking) and (timeout is None or timeout < 0)
        if ex is None:
            if self._free_for(who):
                self._take(who)
                return True
            if not blocking:
                return False
            raise SchedError("blocking acquire of a held instrumented lock outside the scheduler")
        ex._lock_point(who, "acq", self, blocking)
        if self._free_for(who):
            self._take(who)
            return True
        if blocking:     # the scheduler only resumes a blocking acquire when the lock is free
            raise SchedError("scheduler resumed a blocked acquire")
        return False

    def release(self):
        ex, who = self._who()
        if ex is not None:
            if ex.aborted:
                return
            ex._lock_point(who, "rel", self, False)
        if self.owner is None:
            raise RuntimeError("release unlocked lock")
        if self.reentrant and self.owner != who:
            raise RuntimeError("cannot release un-acquired lock")
        self.count -= 1
        if self.count <= 0:
            self.owner = None
            self.count = 0

    def locked(self):
        return self.owner is not None

    def __enter__(self):
        self.acquire()
        return True

    def __exit__(self, *exc):
        self.release()

    def _at_fork_reinit(self):
        self.owner, self.count = None, 0

    def _is_owned(self):
        return self.owner == self._who()[1]

    def _force_reset(self):
        self.owner, self.count = None, 0

    def __repr__(self):
        return f"<{type(self).__name__} owner={self.owner!r} count={self.count}>"


class SchedRLock(SchedLock):
    reentrant = True


class instrumented_threading:
    """Context manager: while active, ``threading.Lock`` and ``threading.RLock``
    are the instrumented factories.  Meant to be active only while the module
    under test is being executed (all its dependencies imported beforehand), so
    that every lock and every lock factory that module binds is scheduler-aware.
    (``_thread.allocate_lock`` is deliberately left alone: importlib's own
    module locks look it up at call time.  Real ``_thread`` locks and factories
    bound by the module are replaced afterwards by ``load_instrumented``.)"""

    def __enter__(self):
        self.saved = (threading.Lock, threading.RLock)
        threading.Lock = SchedLock
        threading.RLock = SchedRLock
        return self

    def __exit__(self, *exc):
        threading.Lock, threading.RLock = self.saved


def load_instrumented(modname):
    """Execute a FRESH copy of module `modname` (not registered in
    sys.modules) with instrumented lock factories installed, then replace any
    real lock object or real lock factory that is still reachable from its
    globals.  Returns (module, n_replaced)."""
    import importlib
    import importlib.util
    importlib.import_module(modname)          # warm every dependency first
    spec = importlib.util.find_spec(modname)
    mod = importlib.util.module_from_spec(spec)
    with instrumented_threading():
        spec.loader.exec_module(mod)
    replaced = 0
    for k, v in list(vars(mod).items()):
        if isinstance(v, REAL_LOCK_TYPES):
            vars(mod)[k] = SchedRLock() if isinstance(v, REAL_LOCK_TYPES[1]) else SchedLock()
            replaced += 1
        elif v is _REAL_LOCK or v is _REAL_ALLOCATE:
            vars(mod)[k] = SchedLock
            replaced += 1
        elif v is _REAL_RLOCK:
            vars(mod)[k] = SchedRLock
            replaced += 1
    return mod, replaced


# ------------------------------------------------------------------ scheduling-point policy

GLOBAL_OPS = frozenset({"LOAD_GLOBAL", "STORE_GLOBAL", "DELETE_GLOBAL", "LOAD_NAME", "STORE_NAME",
                        "DELETE_NAME", "LOAD_FROM_DICT_OR_GLOBALS"})
GLOBAL_WRITES = frozenset({"STORE_GLOBAL", "DELETE_GLOBAL", "STORE_NAME", "DELETE_NAME"})
DEREF_OPS = frozenset({"LOAD_DEREF", "STORE_DEREF", "DELETE_DEREF", "LOAD_CLASSDEREF", "LOAD_FROM_DICT_OR_DEREF"})
ATTR_WRITES = frozenset({"STORE_ATTR", "DELETE_ATTR"})
SUBSCR_WRITES = frozenset({"STORE_SUBSCR", "DELETE_SUBSCR", "STORE_SLICE"})
SUBSCR_READS = frozenset({"BINARY_SUBSCR", "BINARY_SLICE"})
_SKIP_ALWAYS = frozenset({"RESUME", "CACHE", "NOP", "EXTENDED_ARG"})


class Points:
    """Which bytecodes of watched frames are preceded by a scheduling point.

    mode 'shared'  (the default): the bytecodes that touch shared MUTABLE state --
        * global/name loads, stores and deletes of a name in `shared_names`
          (= every global some analysed function stores or deletes, plus the names the
          caller lists in `mutable_names`: the globals of the module under test bound to a
          lock or to any other mutable object),
        * every closure-cell access, every attribute / subscript store or delete,
          and attribute / subscript LOADS too as soon as any analysed function
          contains an attribute / subscript store.
        Loads of globals that no analysed function ever rebinds (`hy`, `len`, ...)
        commute with every other operation and are not points; that they are in fact
        never rebound is re-checked by the caller after every execution.
        The policy is computed from `codes` (the watched code objects a warm-up run
        entered); a watched frame running any other code object is a hard error.
    mode 'globals': every global/name access + the stores above (no analysis needed).
    mode 'every'  : every bytecode.
    (acquire/release of instrumented locks are scheduling points in every mode.)
    """

    def __init__(self, mode="shared", codes=(), mutable_names=()):
        assert mode in ("shared", "globals", "every")
        self.mode = mode
        self.codes = set(codes)
        written = set()
        self.attr_store = self.subscr_store = False
        for code in self.codes:
            for ins in dis.get_instructions(code):
                if ins.opname in GLOBAL_WRITES:
                    written.add(ins.argval)
                elif ins.opname in ATTR_WRITES:
                    self.attr_store = True
                elif ins.opname in SUBSCR_WRITES:
                    self.subscr_store = True
        self.written = frozenset(written)
        self.shared_names = frozenset(written) | frozenset(mutable_names)
        self._tables = {}

    def describe(self):
        return {"mode": self.mode, "shared_names": sorted(self.shared_names),
                "attr_loads_are_points": self.attr_store, "subscr_loads_are_points": self.subscr_store,
                "analysed_code_objects": sorted(c.co_name for c in self.codes)}

    def _is_point(self, ins):
        op = ins.opname
        if op in _SKIP_ALWAYS:
            return False
        if self.mode == "every":
            return True
        if op in GLOBAL_OPS:
            return self.mode == "globals" or ins.argval in self.shared_names
        if op in DEREF_OPS or op in ATTR_WRITES or op in SUBSCR_WRITES:
            return True
        if self.mode == "shared":
            if op == "LOAD_ATTR":
                return self.attr_store
            if op in SUBSCR_READS:
                return self.subscr_store
        return False

    def table(self, code):
        """{bytecode offset: (opname, argument)} for the scheduling points of `code`."""
        t = self._tables.get(code)
        if t is None:
            if self.mode == "shared" and code not in self.codes:
                raise SchedError(f"watched code object {code.co_name!r} ({code.co_filename}:{code.co_firstlineno}) "
                                 "was not in the analysed set the 'shared' point policy was computed from")
            t = {}
            for ins in dis.get_instructions(code):
                if self._is_point(ins):
                    arg = ins.argval if (ins.opname in GLOBAL_OPS or ins.opname in DEREF_OPS
                                         or ins.opname in ATTR_WRITES or ins.opname == "LOAD_ATTR") else ""
                    t[ins.offset] = (ins.opname, str(arg))
            self._tables[code] = t
        return t


# ------------------------------------------------------------------ strategies

class PrefixStrategy:
    """Replay `prefix` (thread ids), then keep running the current thread (the
    lowest enabled thread if it cannot continue).  `expect` = (step, digest) that the
    search recorded for the state in which the LAST prefix choice is taken; a different
    digest on replay is a divergence."""

    def __init__(self, prefix=(), expect=None):
        self.prefix = tuple(prefix)
        self.expect = expect

    def choose(self, ex, step, cur, enabled):
        if step < len(self.prefix):
            if self.expect is not None and step == self.expect[0] and ex.state_digest != self.expect[1]:
                raise SchedError(f"replay divergence at step {step}: state differs from the recorded one "
                                 f"(prefix {list(self.prefix)})")
            t = self.prefix[step]
            if t not in enabled:
                raise SchedError(f"replay divergence at step {step}: thread {t} not enabled "
                                 f"(enabled {list(enabled)}, prefix {list(self.prefix)})")
            return t
        return cur if cur is not None else enabled[0]


class CallbackStrategy:
    """fn(ex, step, cur, enabled) -> thread id (a forced schedule computed on the fly)."""

    def __init__(self, fn):
        self.fn = fn

    def choose(self, ex, step, cur, enabled):
        t = self.fn(ex, step, cur, enabled)
        if t not in enabled:
            raise SchedError(f"forced schedule chose thread {t} at step {step}, enabled {list(enabled)}")
        return t


# ------------------------------------------------------------------ OS threads

def _arm_opcode_tracing():
    """On CPython 3.12 per-opcode trace events are only switched on by a
    sys.settrace() call made AFTER some frame has had f_trace_opcodes set to True
    (an interpreter-wide flag).  Set that flag before any traced thread starts,
    otherwise the first execution silently gets no 'opcode' events."""
    if not _ARMED:
        gen = (x for x in ())           # a frame that is not running
        gen.gi_frame.f_trace_opcodes = True
        _ARMED.append(gen)


_ARMED = []


class _Worker:
    """A long-lived OS thread that runs one job (a thread body of one execution) at a
    time.  Its trace function is installed once and dispatches to the tracer of
    the current job, so tracing is never switched off and on between executions
    (on 3.12 that re-instruments every code object and dominates the run time)."""

    def __init__(self, ix):
        self.ix = ix
        self.job = None
        self.tracer = None
        self.job_sem = _REAL_ALLOCATE()
        self.job_sem.acquire()
        self.done_sem = _REAL_ALLOCATE()
        self.done_sem.acquire()
        self._disp = self._dispatch
        _arm_opcode_tracing()
        self.thread = threading.Thread(target=self._loop, daemon=True, name=f"sched-worker-{ix}")
        self.thread.start()

    def _dispatch(self, frame, event, arg):
        tr = self.tracer
        if tr is None:
            return None
        return tr(frame, event, arg)

    def _loop(self):
        while True:
            if sys.gettrace() is not self._disp:       # an exception leaving a trace function unsets it
                sys.settrace(self._disp)
            self.job_sem.acquire()
            job = self.job
            if job is None:
                sys.settrace(None)
                return
            try:
                job(self)
            finally:
                self.tracer = None
                self.job = None
                self.done_sem.release()

    def submit(self, job):
        self.job = job
        self.job_sem.release()

    def wait(self, timeout):
        return self.done_sem.acquire(timeout=timeout)

    def stop(self):
        self.job = None
        self.job_sem.release()


class _FreshThread:
    """One job on a brand-new OS thread with its own sys.settrace."""

    def __init__(self, ix):
        self.ix = ix
        self.thread = None

    def set_tracer(self, tr):
        sys.settrace(tr)

    def submit(self, job):
        def run():
            try:
                job(self)
            finally:
                sys.settrace(None)
        _arm_opcode_tracing()
        self.thread = threading.Thread(target=run, daemon=True, name=f"sched-fresh-{self.ix}")
        self.thread.start()

    def wait(self, timeout):
        self.thread.join(timeout)
        return not self.thread.is_alive()


def _pool_set_tracer(self, tr):
    self.tracer = tr


_Worker.set_tracer = _pool_set_tracer

_POOL = []


def _pool(n):
    while len(_POOL) < n:
        _POOL.append(_Worker(len(_POOL)))
    return _POOL[:n]


def discard_pool():
    for w in _POOL:
        if w.job is None:
            w.stop()
    del _POOL[:]


# ------------------------------------------------------------------ one execution

class Execution:
    """Run one schedule.  After run():
      choices      list of thread ids, one per scheduling decision
      trace        per decision: (chosen, enabled tuple, cur [the running thread if it could
                   have continued, else None], configuration, pending operation of chosen)
      preemptions  number of decisions with cur not None and chosen != cur
      results      per thread ('ok', value) | ('exc', exception) | None (aborted)
      deadlock     None or [(tid, pending operation), ...]
      final_config configuration after the last step
      codes_seen   the watched code objects that were entered
    A configuration is (per-thread pc, shared(), owner of every instrumented lock used);
    a pc is (number of watched frames entered so far, bytecode offset of the pending
    instruction) or (…, 'acq'|'rel', lock number) or 'done'.
    """

    def __init__(self, bodies, watch, strategy, shared=lambda: None, points=None,
                 fresh_threads=False, watchdog=30.0, max_steps=20000):
        self.bodies = list(bodies)
        self.T = len(self.bodies)
        self.watch = watch
        self.strategy = strategy
        self.shared = shared
        self.points = points if points is not None else Points("globals")
        self.fresh_threads = fresh_threads
        self.watchdog = watchdog
        self.max_steps = max_steps
        T = self.T
        self.go = [_REAL_ALLOCATE() for _ in range(T)]
        for g in self.go:
            g.acquire()
        self.main_sem = _REAL_ALLOCATE()
        self.main_sem.acquire()
        self.pending = [("start",)] * T        # the operation each thread will do next
        self.where = ["start"] * T             # per-thread pc for the configuration
        self.finished = [False] * T
        self.exited = [False] * T
        self.ncalls = [0] * T
        self.npoints = [0] * T
        self.nopcode_events = [0] * T
        self.results = [None] * T
        self.locks = []                        # instrumented locks in order of first use
        self._lock_ix = {}
        self._ident2tid = {}
        self.codes_seen = set()
        self.priming = True
        self.aborted = False
        self.error = None
        self.deadlock = None
        self.hang = False
        self.choices = []
        self.trace = []
        self.preemptions = 0
        self.digest = 0
        self.state_digest = 0
        self.final_config = None

    # -- configuration ---------------------------------------------------
    def lock_id(self, lock):
        i = self._lock_ix.get(id(lock))
        if i is None:
            i = len(self.locks)
            self._lock_ix[id(lock)] = i
            self.locks.append(lock)
        return i

    def config(self):
        return (tuple(self.where), self.shared(), tuple(l.owner for l in self.locks))

    # -- scheduling ------------------------------------------------------
    def _enabled(self, t):
        if self.finished[t]:
            return False
        p = self.pending[t]
        if p[0] == "acq" and p[2]:             # blocking acquire
            return self.locks[p[1]]._free_for(t)
        return True

    def _decide(self, cur):
        """Called by the baton holder.  Returns the thread to run next, or None
        when the execution is over (all finished, deadlock, or error)."""
        enabled = tuple(t for t in range(self.T) if self._enabled(t))
        if not enabled:
            self.final_config = self.config()
            if not all(self.finished):
                self.deadlock = [(t, self.pending[t]) for t in range(self.T) if not self.finished[t]]
                self._abort(cur)
            return None
        step = len(self.choices)
        if step >= self.max_steps:
            self.error = SchedError(f"more than {self.max_steps} scheduling steps in one execution")
            self._abort(cur)
            return None
        c = cur if (cur is not None and cur in enabled) else None
        cfg = self.config()
        self.state_digest = hash((self.digest, enabled, c, cfg))
        try:
            chosen = self.strategy.choose(self, step, c, enabled)
        except SchedError as e:
            self.error = e
            self._abort(cur)
            return None
        self.choices.append(chosen)
        self.trace.append((chosen, enabled, c, cfg, self.pending[chosen]))
        self.digest = hash((self.state_digest, chosen))
        if c is not None and chosen != c:
            self.preemptions += 1
        return chosen

    def _abort(self, caller):
        self.aborted = True
        for t in range(self.T):
            if t != caller and not self.exited[t]:
                try:
                    self.go[t].release()
                except RuntimeError:
                    pass

    def _park(self, me):
        self.go[me].acquire()
        if self.aborted:
            raise _Abort()

    def _point(self, me, label, where):
        """A scheduling point of thread `me`; returns when `me` is chosen to
        perform the operation `label`."""
        if self.aborted:
            raise _Abort()
        self.pending[me] = label
        self.where[me] = where
        self.npoints[me] += 1
        if self.priming:
            self.main_sem.release()
            self._park(me)
            return
        nxt = self._decide(me)
        if nxt is None:
            self.main_sem.release()
            raise _Abort()
        if nxt != me:
            self.go[nxt].release()
            self._park(me)

    def _lock_point(self, me, kind, lock, blocking):
        if self.aborted:
            raise _Abort()
        lid = self.lock_id(lock)
        self._point(me, (kind, lid, blocking), (self.ncalls[me], kind, lid))

    def _fail(self, me, err):
        """Hard error detected inside a thread."""
        if self.error is None:
            self.error = err
        self._abort(me)
        self.main_sem.release()
        raise _Abort()

    # -- thread side -----------------------------------------------------
    def _thread_main(self, me, host):
        self._ident2tid[_thread.get_ident()] = me
        table = self.points.table
        watch = self.watch

        def local(frame, event, arg):
            if event == "opcode":
                self.nopcode_events[me] += 1
                try:
                    lab = table(frame.f_code).get(frame.f_lasti)
                except SchedError as e:
                    self._fail(me, e)
                if lab is not None:
                    self._point(me, ("op", lab[0], lab[1]), (self.ncalls[me], frame.f_lasti))
            return local

        def glob(frame, event, arg):
            if event == "call" and watch(frame.f_code, frame.f_globals):
                frame.f_trace_opcodes = True
                frame.f_trace_lines = False
                self.ncalls[me] += 1
                self.codes_seen.add(frame.f_code)
                return local
            return None

        try:
            self._park(me)                      # wait for the priming turn
            host.set_tracer(glob)
            try:
                r = ("ok", self.bodies[me]())
            except _Abort:
                raise
            except BaseException as e:          # the body's own failure is an observation ...
                r = ("exc", e)
                if isinstance(e, SchedError) and self.error is None:
                    self.error = e              # ... unless it is the harness complaining
            finally:
                host.set_tracer(None)
            self.results[me] = r
        except _Abort:
            self.exited[me] = True
            return
        self.finished[me] = True
        self.pending[me] = ("done",)
        self.where[me] = "done"
        self.exited[me] = True
        if self.priming:
            self.main_sem.release()
            return
        if self.aborted:
            return
        nxt = self._decide(me)
        if nxt is None:
            self.main_sem.release()
        else:
            self.go[nxt].release()

    # -- main side ---------------------------------------------------------
    def _wait_main(self):
        if not self.main_sem.acquire(timeout=self.watchdog):
            self.hang = True
            self.aborted = True
            for t in range(self.T):
                try:
                    self.go[t].release()
                except RuntimeError:
                    pass
            return False
        return True

    def run(self):
        if _ACTIVE[0] is not None:
            raise SchedError("nested Execution")
        _ACTIVE[0] = self
        hosts = [_FreshThread(t) for t in range(self.T)] if self.fresh_threads else _pool(self.T)
        try:
            for t, h in enumerate(hosts):
                h.submit(lambda host, t=t: self._thread_main(t, host))
            # priming: every thread runs alone, in index order, up to its first scheduling
            # point (thread-local prelude; no choice, not counted as a step)
            ok = True
            for t in range(self.T):
                self.go[t].release()
                if not self._wait_main():
                    ok = False
                    break
            if ok:
                self.priming = False
                first = self._decide(None)
                if first is not None:
                    self.go[first].release()
                    self._wait_main()
            for h in hosts:
                if not h.wait(self.watchdog):
                    self.hang = True
        finally:
            for l in self.locks:
                l._force_reset()
            _ACTIVE[0] = None
            if self.hang and not self.fresh_threads:
                discard_pool()
        if self.hang:
            raise SchedError("a thread did not return to the scheduler within the watchdog time "
                             "(uncontrolled blocking call?) pending=" + repr(self.pending))
        if self.error is not None:
            raise self.error
        for t in range(self.T):
            if self.ncalls[t] and not self.nopcode_events[t]:
                raise SchedError(f"thread {t} entered a watched frame but received no 'opcode' trace event")
        if self.final_config is None:
            self.final_config = self.config()
        return self

    def observation(self):
        """Everything the scheduler saw, in a comparable form."""
        res = []
        for r in self.results:
            if r is None:
                res.append(None)
            elif r[0] == "ok":
                res.append(("ok", repr(r[1])))
            else:
                res.append(("exc", type(r[1]).__name__, str(r[1])))
        return (tuple(self.choices), tuple(self.trace), self.final_config, tuple(res),
                None if self.deadlock is None else tuple(self.deadlock))


# ------------------------------------------------------------------ the search

def explore(make_bodies, watch, bound, on_execution, shared=lambda: None, points=None,
            reset=lambda: None, part=None, fresh_threads=False):
    """Depth-first search over all schedules with <= `bound` preemptions
    (None: all schedules).  `make_bodies()` gives fresh thread bodies for every
    execution, `reset()` is called before each one.  `on_execution(ex)` sees every
    complete execution.  `part=(k, K)`: only the k-th of K slices of the root's
    children (the root execution itself belongs to slice 0) -- for sharding a
    search.  Returns the number of executions reported."""
    stack = [((), 0, None)]
    n = 0
    root = True
    while stack:
        prefix, pre, expect = stack.pop()
        reset()
        ex = Execution(make_bodies(), watch, PrefixStrategy(prefix, expect), shared, points,
                       fresh_threads=fresh_threads).run()
        if tuple(ex.choices[:len(prefix)]) != tuple(prefix):
            raise SchedError("replay did not follow its prefix")
        if ex.preemptions != pre:
            raise SchedError(f"preemption accounting differs: predicted {pre}, executed {ex.preemptions}")
        report = True
        kids = []
        digest = 0
        digests = []
        for (chosen, enabled, c, cfg, _lab) in ex.trace:
            sd = hash((digest, enabled, c, cfg))
            digests.append(sd)
            digest = hash((sd, chosen))
        for i in range(len(prefix), len(ex.trace)):
            chosen, enabled, c, cfg, _lab = ex.trace[i]
            for t in enabled:
                if t == chosen:
                    continue
                cost = pre + (1 if (c is not None and t != c) else 0)
                if bound is None or cost <= bound:
                    kids.append((tuple(ex.choices[:i]) + (t,), cost, (i, digests[i])))
        if root and part is not None:
            k, K = part
            kids = [kid for j, kid in enumerate(kids) if j % K == k]
            report = (k == 0)
        root = False
        if report:
            n += 1
            on_execution(ex)
        stack.extend(reversed(kids))
    return n


def replay(make_bodies, watch, choices, shared=lambda: None, points=None, reset=lambda: None,
           fresh_threads=True):
    """Run exactly the schedule `choices` (a complete schedule or a prefix), by
    default on brand-new OS threads."""
    reset()
    return Execution(make_bodies(), watch, PrefixStrategy(choices), shared, points,
                     fresh_threads=fresh_threads).run()


# ------------------------------------------------------------------ atomic-callee audit

def audit_callees(fn, watch):
    """Run fn() once, sequentially, tracing EVERY Python frame at opcode level.
    Returns (writes, modules): `writes` = [(module name, function, opname, name)] for every
    global/name store or delete and every import executed in an UNWATCHED frame
    (callees the scheduler treats as atomic); `modules` = the module globals
    dicts those frames ran in (for snapshotting)."""
    writes = []
    mods = {}
    bad = {"STORE_GLOBAL", "DELETE_GLOBAL", "STORE_NAME", "DELETE_NAME", "IMPORT_NAME", "IMPORT_FROM"}
    tables = {}

    def table(code):
        t = tables.get(code)
        if t is None:
            t = {i.offset: (i.opname, str(i.argval)) for i in dis.get_instructions(code) if i.opname in bad}
            tables[code] = t
        return t

    def local(frame, event, arg):
        if event == "opcode":
            lab = table(frame.f_code).get(frame.f_lasti)
            if lab is not None:
                writes.append((frame.f_globals.get("__name__"), frame.f_code.co_name, lab[0], lab[1]))
        return local

    def glob(frame, event, arg):
        if event == "call":
            if watch(frame.f_code, frame.f_globals) or frame.f_globals.get("__name__") == __name__:
                return None
            mods[id(frame.f_globals)] = frame.f_globals
            frame.f_trace_opcodes = True
            frame.f_trace_lines = False
            return local
        return None

    old = sys.gettrace()
    sys.settrace(glob)
    try:
        fn()
    finally:
        sys.settrace(old)
    return writes, list(mods.values())


def snapshot_globals(dicts, skip=()):
    """Identity of every global + a shallow copy of the builtin containers."""
    out = []
    for d in dicts:
        snap = {}
        for k, v in d.items():
            if k in skip:
                continue
            if isinstance(v, (dict, list, set, bytearray)):
                snap[k] = (id(v), type(v)(v))
            else:
                snap[k] = (id(v), None)
        out.append(snap)
    return out


def diff_snapshots(a, b, dicts):
    out = []
    for sa, sb, d in zip(a, b, dicts):
        for k in set(sa) | set(sb):
            if sa.get(k) != sb.get(k):
                out.append(f"{d.get('__name__')}.{k}")
    return sorted(out)


# ------------------------------------------------------------------ TLC

def run_tlc(spec_path, cfg_path, workdir, deadlock_ok=True, timeout=600):
    """Copy spec+cfg into workdir, run the installed TLC there and return
    (stdout, path of the dot dump).  -deadlock switches deadlock checking OFF
    (terminating model)."""
    import shutil
    os.makedirs(workdir, exist_ok=True)
    spec = os.path.join(workdir, os.path.basename(spec_path))
    cfg = os.path.join(workdir, os.path.basename(cfg_path))
    shutil.copyfile(spec_path, spec)
    shutil.copyfile(cfg_path, cfg)
    dump = os.path.join(workdir, "graph")
    cmd = ["tlc", "-workers", "1", "-noGenerateSpecTE", "-fp", "0", "-seed", "0",
           "-metadir", os.path.join(workdir, "meta"), "-config", cfg,
           "-dump", "dot,actionlabels", dump]
    if deadlock_ok:
        cmd.append("-deadlock")
    cmd.append(spec)
    env = {k: v for k, v in os.environ.items() if not k.startswith("PYTHON")}
    p = subprocess.run(cmd, cwd=workdir, capture_output=True, text=True, timeout=timeout, env=env)
    return p.returncode, p.stdout + p.stderr, dump + ".dot"


_NODE = re.compile(r'^(-?\d+) \[label="((?:[^"\\]|\\.)*)"')
_EDGE = re.compile(r'^(-?\d+) -> (-?\d+) \[label="((?:[^"\\]|\\.)*)"')


def read_dot(path):
    """TLC's dot dump -> (initial node ids, {id: label text}, {id: [(action, dst), ...] sorted})."""
    nodes, edges, init = {}, {}, []
    with open(path) as fh:
        for line in fh:
            m = _EDGE.match(line)
            if m:
                edges.setdefault(m.group(1), []).append((m.group(3), m.group(2)))
                continue
            m = _NODE.match(line)
            if m:
                lab = m.group(2).replace("\\n", "\n").replace('\\"', '"').replace("\\\\", "\\")
                nodes[m.group(1)] = lab
                if "style = filled" in line:
                    init.append(m.group(1))
    for k in edges:
        edges[k] = sorted(set(edges[k]))
    return init, nodes, edges


def maximal_paths(init, edges):
    """All maximal paths of an acyclic state graph, as lists [(action, dst id), ...]
    (self-loops are ignored; a cycle is an error)."""
    out = []
    for s in sorted(init):
        stack = [(s, [], {s})]
        while stack:
            node, path, on = stack.pop()
            succ = [(a, d) for (a, d) in edges.get(node, []) if d != node]
            if not succ:
                out.append((s, path))
                continue
            for a, d in reversed(succ):
                if d in on:
                    raise SchedError("state graph has a cycle; cannot unfold into maximal paths")
                stack.append((d, path + [(a, d)], on | {d}))
    return out
