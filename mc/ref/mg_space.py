"""Case space shared by C32 and C33: every Unicode code point in a list of
positional contexts, and every short string over a small tricky alphabet.
Pure functions of the tier."""
from mc import enumer

NCP = 0x110000

# name -> function of the character.  The first nine are the contexts of
# DESIGN 4 (C32/C33); the others are added in the thorough tier.
CONTEXTS_QUICK = ["c", "a+c", "c+a", "a+c+b", "_+c", "-+c", "--+c", "X+c", "c+-+c"]
CONTEXTS_EXTRA = ["?+c", "c+?", "c+X", "c+c", "_+c+_", "a-+c", "c+-", "FE33+c", "c+0308", "1+c", "-+c+X", "?+c+?"]

_CTX = {
    "c": lambda c: c,
    "a+c": lambda c: "a" + c,
    "c+a": lambda c: c + "a",
    "a+c+b": lambda c: "a" + c + "b",
    "_+c": lambda c: "_" + c,
    "-+c": lambda c: "-" + c,
    "--+c": lambda c: "--" + c,
    "X+c": lambda c: "X" + c,
    "c+-+c": lambda c: c + "-" + c,
    "?+c": lambda c: "?" + c,
    "c+?": lambda c: c + "?",
    "c+X": lambda c: c + "X",
    "c+c": lambda c: c + c,
    "_+c+_": lambda c: "_" + c + "_",
    "a-+c": lambda c: "a-" + c,
    "c+-": lambda c: c + "-",
    "FE33+c": lambda c: "\ufe33" + c,
    "c+0308": lambda c: c + "\u0308",
    "1+c": lambda c: "1" + c,
    "-+c+X": lambda c: "-" + c + "X",
    "?+c+?": lambda c: "?" + c + "?",
}

# a, the delimiter, underscore, hyphen, an illegal character, a legal non-ASCII
# letter, a letter that NFKC folds to two ASCII letters, a character that NFKC
# folds to '_', the dot, a digit, a character that NFKC folds to the delimiter,
# a combining mark that composes with the delimiter, and the escape prefix
ALPHA = ["a", "X", "_", "-", "?", "\u00e9", "\ufb01", "\ufe33", ".", "1", "\u2169", "\u0308", "hyx_", "h", "x", "y", "U"]

BOUNDS = {
    "quick": dict(contexts=CONTEXTS_QUICK, strlen=4, cp_shards=272, str_shards=16),
    "thorough": dict(contexts=CONTEXTS_QUICK + CONTEXTS_EXTRA, strlen=6, cp_shards=544, str_shards=256),
}


def contexts(tier):
    return BOUNDS[tier]["contexts"]


def build(ctx, cp):
    return _CTX[ctx](chr(cp))


def bounds(tier):
    b = BOUNDS[tier]
    return {"code_points": "all 0x0..0x10FFFF (surrogates included)", "contexts": b["contexts"],
            "string_alphabet": ALPHA, "string_max_tokens": b["strlen"],
            "strings": enumer.count_strings(len(ALPHA), b["strlen"], 1)}


def shards(tier):
    b = BOUNDS[tier]
    out = [["cp", lo, hi] for lo, hi in enumer.chunk(NCP, b["cp_shards"])]
    total = enumer.count_strings(len(ALPHA), b["strlen"])
    # index 0 is the empty string, which is outside the property ("non-empty name")
    step = -(-(total - 1) // b["str_shards"])
    out += [["str", lo, min(total, lo + step)] for lo in range(1, total, step)]
    return out


def iter_shard(shard, tier):
    """Yield (case_dict, name, ctx_label, ntokens)."""
    b = BOUNDS[tier]
    kind, lo, hi = shard
    if kind == "cp":
        ctxs = [(n, _CTX[n]) for n in b["contexts"]]
        for cp in range(lo, hi):
            ch = chr(cp)
            for n, f in ctxs:
                yield {"ctx": n, "cp": cp}, f(ch), n, 1
    else:
        for idx, toks in enumer.iter_strings(ALPHA, lo, hi, b["strlen"]):
            s = "".join(toks)
            yield {"s": s}, s, "str", len(toks)


def name_of(case):
    if "s" in case:
        return case["s"], "str"
    return build(case["ctx"], case["cp"]), case["ctx"]
