"""Pattern sublanguage of Hy's `match` for C08: abstract patterns, their Hy and
Python renderings, the enumeration (atoms, depth-1 patterns, one-hole contexts)
and the subject pool.  No matching semantics lives here: CPython's own `match`
statement executes the Python rendering.

pattern :=  ("lit", hy_text, py_text) | ("cap", name) | ("wild",) | ("val", dotted)
          | ("kw", name)                       keyword literal  :name
          | ("seq", "list"|"tuple", elems)     elem := pattern | ("star", name|"_")
          | ("map", ((hy_key, py_key, pattern), ...), rest_name|None)
          | ("cls", class_text, (patterns...), ((attr, pattern), ...))
          | ("or", (patterns...)) | ("as", pattern, name)
"""
import itertools

LIT1 = ("lit", "1", "1")
LITA = ("lit", '"a"', "'a'")
NONE = ("lit", "None", "None")
TRUE = ("lit", "True", "True")
X, Y = ("cap", "x"), ("cap", "y")
WILD = ("wild",)
VAL = ("val", "K.one")
KW = ("kw", "k")

A_FULL = [LIT1, LITA, NONE, TRUE, X, Y, WILD, VAL, KW]
A_MID = [LIT1, LITA, NONE, X, WILD]
A_SMALL = [LIT1, X, WILD]
A_TINY = [LIT1, X]

CAPTURE_VARS = ["x", "y", "z", "rs", "rm"]


def hy(p):
    k = p[0]
    if k == "lit":
        return p[1]
    if k == "cap":
        return p[1]
    if k == "wild":
        return "_"
    if k == "val":
        return p[1]
    if k == "kw":
        return ":" + p[1]
    if k == "star":
        return "#* " + p[1]
    if k == "seq":
        inner = " ".join(hy(e) for e in p[2])
        return "[" + inner + "]" if p[1] == "list" else "#(" + inner + ")"
    if k == "map":
        parts = [f"{hk} {hy(v)}" for hk, _, v in p[1]]
        if p[2]:
            parts.append("#** " + p[2])
        return "{" + " ".join(parts) + "}"
    if k == "cls":
        parts = [p[1]] + [hy(a) for a in p[2]] + [f":{attr} {hy(v)}" for attr, v in p[3]]
        return "(" + " ".join(parts) + ")"
    if k == "or":
        return "(| " + " ".join(hy(a) for a in p[1]) + ")"
    if k == "as":
        return hy(p[1]) + " :as " + p[2]
    raise ValueError(p)


def py(p):
    k = p[0]
    if k == "lit":
        return p[2]
    if k == "cap":
        return p[1]
    if k == "wild":
        return "_"
    if k == "val":
        return p[1]
    if k == "kw":
        return "KWV." + p[1]          # literal pattern: compared by equality with the keyword object
    if k == "star":
        return "*" + p[1]
    if k == "seq":
        return "[" + ", ".join(py(e) for e in p[2]) + "]"
    if k == "map":
        parts = [f"{pk}: {py(v)}" for _, pk, v in p[1]]
        if p[2]:
            parts.append("**" + p[2])
        return "{" + ", ".join(parts) + "}"
    if k == "cls":
        parts = [py(a) for a in p[2]] + [f"{attr}={py(v)}" for attr, v in p[3]]
        return p[1] + "(" + ", ".join(parts) + ")"
    if k == "or":
        return "(" + " | ".join(py(a) for a in p[1]) + ")"
    if k == "as":
        return "(" + py(p[1]) + " as " + p[2] + ")"
    raise ValueError(p)


def features(p, out=None):
    """set of constructor/feature names used (for outcome/field reporting)"""
    out = set() if out is None else out
    k = p[0]
    if k == "star":
        out.add("star-wildcard" if p[1] == "_" else "star-capture")
        return out
    out.add(k)
    if k == "seq":
        out.add("seq-" + p[1])
        for e in p[2]:
            features(e, out)
    elif k == "map":
        if p[2]:
            out.add("map-rest")
        for _, _, v in p[1]:
            features(v, out)
    elif k == "cls":
        if p[3]:
            out.add("cls-keyword")
        for a in p[2]:
            features(a, out)
        for _, v in p[3]:
            features(v, out)
    elif k == "or":
        for a in p[1]:
            features(a, out)
    elif k == "as":
        features(p[1], out)
    return out


def binds(p):
    f = features(p)
    return bool(f & {"cap", "star-capture", "map-rest", "as"})


def depth1(full=A_FULL, mid=A_MID, small=A_SMALL):
    """every pattern with exactly one constructor level over the atom sets"""
    out = []
    STARS = [("star", "rs"), ("star", "_")]
    # sequences, list syntax
    out.append(("seq", "list", ()))
    for a in full + STARS:
        out.append(("seq", "list", (a,)))
    for a, b in itertools.product(full, repeat=2):
        out.append(("seq", "list", (a, b)))
    for st in STARS:
        for a in full:
            out.append(("seq", "list", (st, a)))
            out.append(("seq", "list", (a, st)))
    for a, b in itertools.product(small, repeat=2):
        out.append(("seq", "list", (a, ("star", "rs"), b)))
    out.append(("seq", "list", (("star", "rs"), ("star", "_"))))        # two stars: Python SyntaxError
    # sequences, tuple syntax
    out.append(("seq", "tuple", ()))
    for a in mid + STARS:
        out.append(("seq", "tuple", (a,)))
    for a, b in itertools.product(small, repeat=2):
        out.append(("seq", "tuple", (a, b)))
    for a in small:
        out.append(("seq", "tuple", (("star", "rs"), a)))
        out.append(("seq", "tuple", (a, ("star", "rs"))))
    # mappings
    K1, K2 = ('"k"', "'k'"), ("1", "1")
    for rest in (None, "rm"):
        out.append(("map", (), rest))
        for a in full:
            out.append(("map", ((K1[0], K1[1], a),), rest))
        for a in small:
            out.append(("map", ((K2[0], K2[1], a),), rest))
        for a, b in itertools.product(small, repeat=2):
            out.append(("map", ((K1[0], K1[1], a), (K2[0], K2[1], b)), rest))
    out.append(("map", ((K1[0], K1[1], LIT1), (K1[0], K1[1], X)), None))       # duplicate key: Python SyntaxError
    # class patterns
    out.append(("cls", "Pt", (), ()))
    for a in full:
        if a[0] != "kw":
            out.append(("cls", "Pt", (a,), ()))
            out.append(("cls", "int", (a,), ()))
        out.append(("cls", "Pt", (), (("x", a),)))
        out.append(("cls", "Pt", (), (("y", a),)))
    for a, b in itertools.product(mid, repeat=2):
        out.append(("cls", "Pt", (a, b), ()))
    for a, b in itertools.product(small, repeat=2):
        out.append(("cls", "Pt", (), (("x", a), ("y", b))))
        out.append(("cls", "Pt", (a,), (("y", b),)))
    for a in small:
        out.append(("cls", "str", (a,), ()))
        out.append(("cls", "NS.Pt", (a,), ()))
        out.append(("cls", "Pt", (a,), (("x", LIT1),)))            # positional 0 and keyword x name the same attribute: TypeError when tried
    out.append(("cls", "int", (), ()))
    out.append(("cls", "Pt", (), (("x", LIT1), ("x", X))))          # attribute repeated: Python SyntaxError
    out.append(("cls", "Pt", (LIT1, X, WILD), ()))                  # too many positional sub-patterns: TypeError when tried
    out.append(("cls", "int", (LIT1, X), ()))
    # alternatives
    for a, b in itertools.product(full, repeat=2):
        out.append(("or", (a, b)))
    for a, b, c in itertools.product(A_TINY + [LITA], repeat=3):
        out.append(("or", (a, b, c)))
    # as
    for a in full:
        out.append(("as", a, "z"))
    out.append(("as", X, "x"))                                      # same name twice: Python SyntaxError
    return out


def contexts(sibs):
    """one-hole contexts (functions pattern -> pattern), with sibling slots filled from `sibs`"""
    out = []

    def add(name, f):
        out.append((name, f))
    add("[H]", lambda h: ("seq", "list", (h,)))
    add("#(H)", lambda h: ("seq", "tuple", (h,)))
    add("[H #* rs]", lambda h: ("seq", "list", (h, ("star", "rs"))))
    add("[#* rs H]", lambda h: ("seq", "list", (("star", "rs"), h)))
    add('{"k" H}', lambda h: ("map", (('"k"', "'k'", h),), None))
    add('{"k" H #** rm}', lambda h: ("map", (('"k"', "'k'", h),), "rm"))
    add("(Pt H)", lambda h: ("cls", "Pt", (h,), ()))
    add("(Pt :x H)", lambda h: ("cls", "Pt", (), (("x", h),)))
    add("(Pt :y H)", lambda h: ("cls", "Pt", (), (("y", h),)))
    add("(NS.Pt H)", lambda h: ("cls", "NS.Pt", (h,), ()))
    add("H :as z", lambda h: ("as", h, "z"))
    for s in sibs:
        t = hy(s)
        add(f"[H {t}]", lambda h, s=s: ("seq", "list", (h, s)))
        add(f"[{t} H]", lambda h, s=s: ("seq", "list", (s, h)))
        add(f"#({t} H)", lambda h, s=s: ("seq", "tuple", (s, h)))
        add(f'{{"k" {t} 1 H}}', lambda h, s=s: ("map", (('"k"', "'k'", s), ("1", "1", h)), None))
        add(f"(Pt H {t})", lambda h, s=s: ("cls", "Pt", (h, s), ()))
        add(f"(Pt {t} H)", lambda h, s=s: ("cls", "Pt", (s, h), ()))
        add(f"(Pt {t} :y H)", lambda h, s=s: ("cls", "Pt", (s,), (("y", h),)))
        add(f"(| H {t})", lambda h, s=s: ("or", (h, s)))
        add(f"(| {t} H)", lambda h, s=s: ("or", (s, h)))
    return out


def class_positional_keyword_trap(p):
    """A keyword literal directly in a positional slot of a class pattern reads
    as the start of the keyword sub-patterns in Hy's syntax: (Pt :k) is not
    'Pt with positional sub-pattern :k'.  Such renderings are not generated."""
    k = p[0]
    if k == "cls":
        for a in p[2]:
            if a[0] == "kw" or (a[0] == "as" and a[1][0] == "kw") or class_positional_keyword_trap(a):
                return True
        return any(class_positional_keyword_trap(v) for _, v in p[3])
    if k == "seq":
        return any(e[0] != "star" and class_positional_keyword_trap(e) for e in p[2])
    if k == "map":
        return any(class_positional_keyword_trap(v) for _, _, v in p[1])
    if k == "or":
        return any(class_positional_keyword_trap(a) for a in p[1])
    if k == "as":
        return p[1][0] == "as" or class_positional_keyword_trap(p[1])      # (p :as a) :as b has no Hy spelling either
    return False


# ---------------------------------------------------------------- programs

CTXS = ["single", "then-wild", "after-miss"]
GUARDS = ["none", "plain", "stmt"]
RESULTS = ["plain", "stmt"]
TARGETS = ["r", "s", "x"]
VARIANTS = [(c, g, r, t) for c in CTXS for g in GUARDS for r in RESULTS for t in TARGETS]
DUMP = ["r", "s", "x", "y", "z", "rs", "rm", "other", "t"]
PRESET = [("x", "x0"), ("y", "y0"), ("z", "z0"), ("rs", "rs0"), ("rm", "rm0"), ("other", "o0"), ("r", "r0"), ("t", "t0")]


def hy_program(p, variant, fname="m"):
    ctx, guard, result, target = variant

    def res(label):
        lst = f'["{label}" s x y z rs rm]'
        return lst if result == "plain" else f"(do (setv t {lst}) t)"
    g = {"none": "", "plain": " :if (g 0 [s x y z] gv)", "stmt": " :if (do (setv tg (g 0 [s x y z] gv)) tg)"}[guard]
    cases = []
    if ctx == "after-miss":
        cases.append(f'[1 #* rs] ["first" rs]')
    cases.append(f"{hy(p)}{g} {res('P')}")
    if ctx == "then-wild":
        cases.append('_ ["else"]')
    if ctx == "after-miss":
        cases.append('other ["other" other]')
    names = " ".join(n for n, v in PRESET)
    return (f"(defn {fname} [s gv] (setv [{names}] PRE) (setv {target} (match s " + " ".join(cases) + ")) (locals))")


def py_program(p, variant, fname="m"):
    ctx, guard, result, target = variant
    ind = "            "

    def res(label):
        lst = f'["{label}", s, x, y, z, rs, rm]'
        return f"{ind}_v = {lst}\n" if result == "plain" else f"{ind}t = {lst}\n{ind}_v = t\n"
    g = "" if guard == "none" else " if g(0, [s, x, y, z], gv)"
    body = ""
    if ctx == "after-miss":
        body += f'        case [1, *rs]:\n{ind}_v = ["first", rs]\n'
    body += f"        case {py(p)}{g}:\n{res('P')}"
    if ctx == "then-wild":
        body += f'        case _:\n{ind}_v = ["else"]\n'
    if ctx == "after-miss":
        body += f'        case other:\n{ind}_v = ["other", other]\n'
    names = ", ".join(n for n, v in PRESET)
    return (f"def {fname}(s, gv):\n    {names} = PRE\n    _v = None\n    match s:\n{body}    {target} = _v\n    return locals()\n")


# ---------------------------------------------------------------- subjects

SUBJECTS = [
    "1", "True", "2", "'a'", "None", "[]", "[1]", "[1, 'a']", "(1, 1)", "[1, [1, 'a']]", "[[1], 1]", "[1, 1, 'a']",
    "{'k': 1}", "{'k': [1], 1: 'a'}", "{}", "Pt(1, 'a')", "Pt(1, 1)", "Pt([1], Pt(1, 1))", "Pt(Pt(1, 'a'), None)",
    "KWK", "KWJ", "'ab'", "[None, True]", "[KWK, 2]", "{'k': Pt(1, 1), 1: 1}",
]


def make_env():
    """globals shared by both sides: Pt, NS, K, KWV, KWK, KWJ (needs hy for the keyword objects)"""
    import types
    import hy.models

    class Pt:
        __match_args__ = ("x", "y")

        def __init__(self, x, y):
            self.x, self.y = x, y

        def __eq__(self, o):
            return isinstance(o, Pt) and (o.x, o.y) == (self.x, self.y)

        __hash__ = None

        def __repr__(self):
            return f"Pt({self.x!r}, {self.y!r})"
    env = {"Pt": Pt, "NS": types.SimpleNamespace(Pt=Pt), "K": types.SimpleNamespace(one=2),
           "KWK": hy.models.Keyword("k"), "KWJ": hy.models.Keyword("j")}
    env["KWV"] = types.SimpleNamespace(k=env["KWK"], j=env["KWJ"])
    env["PRE"] = tuple(v for n, v in PRESET)
    return env


def canon(v):
    t = type(v).__name__
    if t == "Pt":
        return f"Pt({canon(v.x)},{canon(v.y)})"
    if t == "Keyword":
        return "Keyword:" + v.name
    if isinstance(v, (list, tuple)):
        return t + "[" + ",".join(canon(e) for e in v) + "]"
    if isinstance(v, dict):
        return t + "{" + ",".join(sorted(canon(k) + "=" + canon(e) for k, e in v.items())) + "}"
    return t + ":" + repr(v)
