"""Reference model for C06: lexical scoping of `let` among the other binding forms.

A program is a forest of *binding constructs* over a small shared name pool.
Reference sites are not chosen: `expand` puts a logged read `(log i v)` of EVERY
pool name at EVERY statement boundary (start of every body, after every
statement, after every call), so a program is determined by its skeleton.

Skeleton terms (tuples; `body` = tuple of terms; v a pool name):
  leaves   ("setv", v, e)  e in K|same|other      (setv v E)
           ("aug", v)                              (+= v 1)
           ("setx", v)                             (setx v K)
           ("forv", v)                             (for [v [K1 K2]])
           ("defn", v) ("defclass", v) ("imp", v)  definitions of the name v itself (hoisted to the Python scope)
  bodies   ("let", v, e, body)                     (let [v E] ...)
           ("clo", kind, mode, body)               kind fn: (setv fK (fn [] ...)) / defn: (defn gK [] ...);
                                                   mode now|end|both: called right after the definition and/or at the
                                                   end of the enclosing function/module body (after every let has been left)
           ("fnp", v, e, body)                     ((fn [v] ...) E)
           ("lfor", v, body)                       (lfor v [K1 K2] (do ...))
           ("lforr", v, body)                      (lfor v [(log i v) K2] (do ...)): the iterable reads the name the clause
                                                   binds, i.e. its OUTER meaning (the clause's variable does not exist yet)
           ("with", v, body)                       (with [v (cm K)] ...)
           ("exc", v, body)                        (try (raise (ValueError K)) (except [v ValueError] ...))
           ("match", v, body)                      (match K v (do ...))
           ("letm", bindings, body)                (let [b1 b2 (b3)] ...): one let with several bindings; a binding is
                                                   ("b", v, e) = v E, or ("c", "fn"|"gfor") = a fresh helper name bound to
                                                   (fn [] reads...) / (gfor _ [0] [reads...]) which is called / consumed
                                                   at the start of the body, i.e. after every later (re)binding.  api.rst:
                                                   "let executes the variable assignments one-by-one": every binding is a
                                                   fresh variable, also when it rebinds a name of the same let.  Not part of
                                                   the forest alphabets: enumerated by `letm_programs`.
E is a fresh constant K, a logged read of the target's own name ("same":
`(let [x (log i x)] ...)`) or of the next pool name ("other").

The interpreter is written from docs/api.rst (`let`, `lfor`, `setx`, `with`,
`try`, `defn`) and Python's scoping rules, with tests/native_tests/let.hy as
pinned behaviour where api.rst only gives the principle:
  * a let binding is a fresh variable; references resolve to the innermost
    visible binding, leaving the let restores the outer meaning;
  * setv / += / setx / with / match capture / for assign the let binding when
    the name is let-bound (api.rst "Basic assignments ..."; test-let-with,
    test-let-for), otherwise the variable of the enclosing Python scope;
  * a name assigned in a function's own Python scope (not under a let of that
    name inside that function) is local to the whole function body and shadows
    outer let bindings there (Python scoping; test-nested-assign);
  * parameters shadow let bindings (api.rst; test-let-positional);
  * lfor iteration variables are local to the form, assignments in its body
    reach the enclosing scope / let binding (api.rst lfor; test-let-comprehension-scope);
  * an except variable lives only in its handler (test-let-except);
  * defn / defclass / import assign in the Python scope even under a let of
    that name (api.rst), and the name then refers to that Python variable for
    the rest of the let (test-let-defn, test-let-import);
  * closures capture variables, not values.
Unspecified (docs silent, weak oracle only): see `static_unspecified` and the
dead-except-variable case in the interpreter.
"""
import itertools

UNBOUND = "U"          # what a guarded read logs for an unbound name

LEAF_OPS = ("setv", "aug", "setx", "forv", "defn", "defclass", "imp")
BODY_OPS = ("let", "clo", "fnp", "lfor", "lforr", "with", "exc", "match", "letm")
DEFINERS = ("defn", "defclass", "imp")


# ---------------------------------------------------------------- alphabets
def alphabet(pool, full):
    """(leaves, body_constructors): body constructors are term prefixes, completed by a body.
    full: 0 = mini, 1 = core, 2 = full alphabet."""
    leaves, heads = [], []
    for v in pool:
        leaves.append(("setv", v, "K"))
        leaves.append(("defn", v))
        if full >= 1:
            leaves.append(("setv", v, "same"))
            leaves.append(("aug", v))
        if full >= 2:
            leaves.append(("setv", v, "other"))
            leaves.append(("setx", v))
            leaves.append(("forv", v))
            leaves.append(("defclass", v))
            leaves.append(("imp", v))
    for v in pool:
        for e in ("K", "same", "other"):
            if full >= 1 or e != "other":
                heads.append(("let", v, e))
    heads.append(("clo", "fn", "end"))
    if full >= 1:
        heads.append(("clo", "defn", "end"))
        heads.append(("clo", "fn", "now"))
    else:
        heads.append(("clo", "defn", "now"))
    if full >= 2:
        heads.append(("clo", "defn", "now"))
        heads.append(("clo", "fn", "both"))
        heads.append(("clo", "defn", "both"))
    for v in pool:
        heads.append(("fnp", v, "K"))
        if full >= 2:
            heads.append(("fnp", v, "same"))
            heads.append(("fnp", v, "other"))
    for op in ("lfor", "with", "exc", "match"):
        if full == 0 and op in ("with", "match"):
            continue
        for v in pool:
            heads.append((op, v))
    if full >= 1:
        for v in pool:
            heads.append(("lforr", v))
    return tuple(leaves), tuple(heads)


_MEMO = {}


def forests(n, pool, full):
    """All forests (tuples of terms) with exactly n constructs."""
    key = (n, pool, full)
    if key in _MEMO:
        return _MEMO[key]
    if n == 0:
        out = ((),)
    else:
        out = []
        for k in range(1, n + 1):
            firsts = trees(k, pool, full)
            rests = forests(n - k, pool, full)
            for a in firsts:
                for r in rests:
                    out.append((a,) + r)
        out = tuple(out)
    _MEMO[key] = out
    return out


def trees(n, pool, full):
    key = ("t", n, pool, full)
    if key in _MEMO:
        return _MEMO[key]
    leaves, heads = alphabet(pool, full)
    out = []
    if n == 1:
        out.extend(leaves)
    for h in heads:
        for b in forests(n - 1, pool, full):
            out.append(h + (b,))
    out = tuple(out)
    _MEMO[key] = out
    return out


def first_name(forest):
    for t in forest:
        if t[0] == "clo":
            r = first_name(t[3])
            if r:
                return r
        elif t[0] == "letm":
            for b in t[1]:
                if b[0] == "b":
                    return b[1]
            r = first_name(t[2])
            if r:
                return r
        else:
            return t[1]
    return None


def letm_programs(nb, pool, body_n, full):
    """Every one-let program with exactly nb bindings (each: pool name x {K, same, other}, or a closure / generator
    bound to a helper name) and a body forest of 0..body_n constructs of the given alphabet."""
    slots = [("b", v, e) for v in pool for e in ("K", "same", "other")] + [("c", "fn"), ("c", "gfor")]
    out = []
    for binds in itertools.product(slots, repeat=nb):
        for m in range(body_n + 1):
            for body in forests(m, pool, full):
                out.append((("letm", binds, body),))
    return out


def canonical(forest, pool):
    """The pool is symmetric under rotation: keep the representative whose first binder name is pool[0]."""
    f = first_name(forest)
    return f is None or f == pool[0]


def size(forest):
    return sum(1 + (size(t[-1]) if t[0] in BODY_OPS else 0) for t in forest)


def ops_in(forest, acc=None):
    if acc is None:
        acc = set()
    for t in forest:
        acc.add(t[0])
        if t[0] in BODY_OPS:
            ops_in(t[-1], acc)
    return acc


def nontrivial(forest, under=frozenset(), under_fn=False):
    """Exercises the mechanism: some construct that binds/assigns/defines name v, or a closure,
    occurs inside a `let` (or except / lfor binding) of the SAME name v; or a closure is defined under a let."""
    for t in forest:
        op = t[0]
        if op == "letm":
            return True
        if op == "clo":
            if under:
                return True
            if nontrivial(t[3], under, True):
                return True
            continue
        v = t[1]
        if v in under:
            return True
        if op in ("let", "lfor", "lforr", "exc"):
            if nontrivial(t[-1], under | {v}, under_fn):
                return True
        elif op in BODY_OPS:
            if nontrivial(t[-1], under, under_fn):
                return True
    return False


# ---------------------------------------------------------------- expansion to an explicit program
class _Exp:
    def __init__(self, pool):
        self.pool = pool
        self.n = itertools.count(1)

    def site(self):
        return next(self.n)

    def reads(self):
        return [("read", self.site(), v) for v in self.pool]

    def E(self, v, e):
        if e == "K":
            return ("K", 100 + self.site())
        if e == "same":
            return ("ref", self.site(), v)
        w = self.pool[(self.pool.index(v) + 1) % len(self.pool)]
        return ("ref", self.site(), w)

    def body(self, forest, root):
        """-> (stmts, pending end-call names).  root: this body is a function/module body (end calls go here)."""
        out = list(self.reads())
        if not forest:
            # every body reads every name at least twice (two reference nodes per name and scope)
            out.extend(self.reads())
        pending = []
        for t in forest:
            op = t[0]
            if op == "letm":
                binds, calls = [], []
                for b in t[1]:
                    if b[0] == "b":
                        binds.append((b[1], self.E(b[1], b[2])))
                    elif b[1] == "fn":
                        name = "h" + str(self.site())
                        binds.append((name, ("fn", self.reads() + self.reads())))
                        calls.append(("call", name))
                    else:
                        name = "h" + str(self.site())
                        binds.append((name, ("gfor", self.reads() + self.reads())))
                        calls.append(("consume", name))
                b, p = self.body(t[2], False)
                pending += p
                out.append(("letm", binds, calls + b))
            elif op == "setv":
                out.append(("setv", t[1], self.E(t[1], t[2])))
            elif op == "aug":
                out.append(("aug", t[1]))
            elif op == "setx":
                out.append(("setx", t[1], ("K", 100 + self.site())))
            elif op == "forv":
                out.append(("forv", t[1], 100 + self.site(), 100 + self.site()))
            elif op in DEFINERS:
                out.append((op, t[1]))
            elif op == "let":
                e = self.E(t[1], t[2])
                b, p = self.body(t[3], False)
                pending += p
                out.append(("let", t[1], e, b))
            elif op == "clo":
                k = self.site()
                name = ("f" if t[1] == "fn" else "g") + str(k)
                b, _ = self.body(t[3], True)
                out.append(("clo", t[1], name, b))
                if t[2] in ("now", "both"):
                    out.extend(self.reads())
                    out.append(("call", name))
                if t[2] in ("end", "both"):
                    pending.append(name)
            elif op == "fnp":
                e = self.E(t[1], t[2])
                b, _ = self.body(t[3], True)
                out.append(("fnp", t[1], e, b))
            elif op == "lfor":
                k1, k2 = 100 + self.site(), 100 + self.site()
                b, p = self.body(t[2], False)
                pending += p
                out.append(("lfor", t[1], k1, k2, b))
            elif op == "lforr":
                e, k2 = self.E(t[1], "same"), 100 + self.site()
                b, p = self.body(t[2], False)
                pending += p
                out.append(("lforr", t[1], e, k2, b))
            elif op in ("with", "exc", "match"):
                k = 100 + self.site()
                b, p = self.body(t[2], False)
                pending += p
                out.append((op, t[1], k, b))
            else:
                raise ValueError(op)
            out.extend(self.reads())
        if root:
            for name in pending:
                out.append(("call", name))
                out.extend(self.reads())
            pending = []
        return out, pending


WRAPPERS = ("mod", "fnp", "fng")
INIT = {"x": 10, "y": 20, "z": 30}
ARG = {"x": 110, "y": 120, "z": 130}


def expand(forest, pool, wrapper):
    """-> dict(pool, wrapper, body, tail): body = explicit statements of the program / of main; tail = module-level reads afterwards."""
    ex = _Exp(pool)
    body, _ = ex.body(forest, True)
    tail = ex.reads() if wrapper != "mod" else []
    return dict(pool=pool, wrapper=wrapper, body=body, tail=tail)


# ---------------------------------------------------------------- static analysis
def pyassigned(stmts, shadow=frozenset(), acc=None):
    """Names assigned in the Python scope that directly contains these statements (Python's rule,
    with let / except / comprehension bindings being separate variables)."""
    if acc is None:
        acc = set()
    for s in stmts:
        op = s[0]
        if op in ("setv", "aug", "setx", "forv"):
            if s[1] not in shadow:
                acc.add(s[1])
        elif op in DEFINERS:
            acc.add(s[1])
        elif op == "let":
            pyassigned(s[3], shadow | {s[1]}, acc)
        elif op == "letm":
            pyassigned(s[2], shadow | {n for n, _ in s[1]}, acc)
        elif op == "clo":
            acc.add(s[2])
        elif op in ("lfor", "lforr"):
            pyassigned(s[4], shadow | {s[1]}, acc)
        elif op == "exc":
            pyassigned(s[3], shadow | {s[1]}, acc)
        elif op in ("with", "match"):
            if s[1] not in shadow:
                acc.add(s[1])
            pyassigned(s[3], shadow, acc)
    return acc


def static_unspecified(stmts, comp=frozenset(), exc=frozenset(), lets=(), in_comp=False):
    """Reasons (first one) for which the documentation does not determine the program's meaning."""
    for s in stmts:
        op = s[0]
        r = None
        if op in ("setv", "aug", "setx", "forv", "with", "match") and s[1] in comp:
            return "assignment to a comprehension's iteration variable inside its body"
        if op in DEFINERS:
            if in_comp:
                return "defn/defclass/import inside a comprehension body (visibility outside is not documented)"
            if s[1] in exc:
                return "defn/defclass/import of the except variable inside its handler"
            if lets.count(s[1]) >= 2:
                return "defn/defclass/import of a name bound by two nested let / except bindings (docs speak of 'a let binding')"
        if op == "clo":
            if s[1] == "defn" and in_comp:
                return "defn/defclass/import inside a comprehension body (visibility outside is not documented)"
            r = static_unspecified(s[3])
        elif op == "fnp":
            r = static_unspecified(s[3])
        elif op == "let":
            r = static_unspecified(s[3], comp - {s[1]}, exc - {s[1]}, lets + (s[1],), in_comp)
        elif op == "letm":
            names = tuple(n for n, _ in s[1])
            r = static_unspecified(s[2], comp - set(names), exc - set(names), lets + names, in_comp)
        elif op in ("lfor", "lforr"):
            r = static_unspecified(s[4], comp | {s[1]}, exc - {s[1]}, lets, True)
        elif op == "exc":
            r = static_unspecified(s[3], comp - {s[1]}, exc | {s[1]}, lets + (s[1],), in_comp)
        elif op in ("with", "match"):
            r = static_unspecified(s[3], comp, exc, lets, in_comp)
        if r:
            return r
    return None


# ---------------------------------------------------------------- interpreter
class Cell:
    __slots__ = ("v", "kind", "dead")

    def __init__(self, v, kind):
        self.v, self.kind, self.dead = v, kind, False


class Frame:
    def __init__(self, parent, local_names):
        self.parent, self.locals, self.vars = parent, local_names, {}


class Closure:
    def __init__(self, params, body, frame, lets):
        self.params, self.body, self.frame, self.lets = params, body, frame, lets


class Gen:
    """A generator made by (gfor _ [0] [reads...]): lazily evaluates its reads in the scope where it was written."""
    def __init__(self, reads, frame, lets):
        self.reads, self.frame, self.lets = reads, frame, lets


class Fuel(BaseException):
    pass


_MISSING = object()


def rep(v):
    if isinstance(v, Closure):
        return "<fn>"
    if isinstance(v, Gen):
        return "<gen>"
    return repr(v) if isinstance(v, int) else str(v)


class Interp:
    FUEL = 2000

    def __init__(self):
        self.trace = []
        self.guard = set()       # read sites that saw an unbound name
        self.unspecified = None

    def ev(self, site, v):
        if len(self.trace) >= self.FUEL:
            raise Fuel()
        self.trace.append((site, rep(v)))

    # ---- variables
    def find(self, frame, lets, name):
        if name in lets:
            c = lets[name]
            if c.dead:
                if self.unspecified is None:
                    self.unspecified = "an except variable is used (by a closure) after its handler has ended"
                return _MISSING
            return c.v
        f = frame
        while f is not None:
            if f.locals is None or name in f.locals:
                return f.vars.get(name, _MISSING)
            f = f.parent
        return _MISSING

    def read(self, frame, lets, site, name):
        v = self.find(frame, lets, name)
        if v is _MISSING:
            self.guard.add(site)
            v = UNBOUND
        self.ev(site, v)
        return v

    def assign(self, frame, lets, name, v):
        if name in lets:
            c = lets[name]
            if c.kind == "comp" and self.unspecified is None:
                self.unspecified = "assignment to a comprehension's iteration variable inside its body"
            if c.dead and self.unspecified is None:
                self.unspecified = "an except variable is used (by a closure) after its handler has ended"
            c.v = v
        else:
            frame.vars[name] = v

    def E(self, frame, lets, e):
        if e[0] == "K":
            return e[1]
        return self.read(frame, lets, e[1], e[2])

    # ---- calls
    def call(self, clo, args):
        names = set(clo.params) | pyassigned(clo.body)
        fr = Frame(clo.frame, names)
        for p, a in zip(clo.params, args):
            fr.vars[p] = a
        lets = {k: c for k, c in clo.lets.items() if k not in names}
        self.body(fr, lets, clo.body)

    # ---- statements
    def body(self, frame, lets, stmts):
        """Returns the names whose let bindings a defn/defclass/import inside removed."""
        popped = set()
        for s in stmts:
            p = self.stmt(frame, lets, s)
            if p:
                popped |= p
                lets = {k: c for k, c in lets.items() if k not in p}
        return popped

    def stmt(self, frame, lets, s):
        op = s[0]
        if op == "read":
            self.read(frame, lets, s[1], s[2])
        elif op == "setv":
            self.assign(frame, lets, s[1], self.E(frame, lets, s[2]))
        elif op == "setx":
            self.assign(frame, lets, s[1], self.E(frame, lets, s[2]))
        elif op == "aug":
            cur = self.find(frame, lets, s[1])
            if cur is _MISSING:
                raise NameError(s[1])
            if type(cur) is not int:
                raise TypeError(s[1])
            self.assign(frame, lets, s[1], cur + 1)
        elif op == "forv":
            self.assign(frame, lets, s[1], s[2])
            self.assign(frame, lets, s[1], s[3])
        elif op in DEFINERS:
            v = {"defn": Closure((), [], frame, {}), "defclass": "<class>", "imp": "<module>"}[op]
            frame.vars[s[1]] = v
            if s[1] in lets:
                return {s[1]}
        elif op == "let":
            v = self.E(frame, lets, s[2])
            return self.body(frame, {**lets, s[1]: Cell(v, "let")}, s[3])
        elif op == "letm":
            for name, val in s[1]:
                if val[0] == "fn":
                    v = Closure((), val[1], frame, lets)
                elif val[0] == "gfor":
                    v = Gen(val[1], frame, lets)
                else:
                    v = self.E(frame, lets, val)
                lets = {**lets, name: Cell(v, "let")}        # a fresh variable per binding, in the order written
            return self.body(frame, lets, s[2])
        elif op == "consume":
            g = self.find(frame, lets, s[1])
            if g is _MISSING:
                raise NameError(s[1])
            for r in g.reads:
                self.read(g.frame, g.lets, r[1], r[2])
        elif op == "clo":
            frame.vars[s[2]] = Closure((), s[3], frame, lets)
        elif op == "call":
            f = self.find(frame, lets, s[1])
            if f is _MISSING:
                raise NameError(s[1])
            self.call(f, ())
        elif op == "fnp":
            a = self.E(frame, lets, s[2])
            self.call(Closure((s[1],), s[3], frame, lets), (a,))
        elif op in ("lfor", "lforr"):
            # the iterable is evaluated before the clause's variable exists: a read in it has the outer meaning
            first = self.E(frame, lets, s[2]) if op == "lforr" else s[2]
            c = Cell(None, "comp")
            l2 = {**lets, s[1]: c}
            for it in (first, s[3]):
                c.v = it
                self.body(frame, l2, s[4])
        elif op in ("with", "match"):
            self.assign(frame, lets, s[1], s[2])
            return self.body(frame, lets, s[3])
        elif op == "exc":
            c = Cell("<exc %d>" % s[2], "exc")
            p = self.body(frame, {**lets, s[1]: c}, s[3])
            c.dead = True
            return p - {s[1]}
        else:
            raise ValueError(op)
        return None


def run_model(prog):
    """-> dict(outcome, trace, guard(set of sites), globals {name: rep}, unspecified)."""
    I = Interp()
    I.unspecified = static_unspecified(prog["body"])
    pool, w = prog["pool"], prog["wrapper"]
    mod = Frame(None, None)
    for v in pool:
        mod.vars[v] = INIT[v]
    try:
        if w == "mod":
            I.body(mod, {}, prog["body"])
        else:
            params = tuple(pool) if w == "fnp" else ()
            main = Closure(params, prog["body"], mod, {})
            mod.vars["main"] = main
            I.call(main, tuple(ARG[v] for v in params))
            I.body(mod, {}, prog["tail"])
        outcome = ("ok",)
    except Fuel:
        outcome = ("fuel",)
    except (NameError, TypeError) as e:
        outcome = ("exc", type(e).__name__)
    return dict(outcome=outcome, trace=I.trace, guard=I.guard,
                globals={k: rep(v) for k, v in mod.vars.items()}, unspecified=I.unspecified)


# ---------------------------------------------------------------- rendering
def _rd(i, v, guard):
    if i in guard:
        return f'(log {i} (try {v} (except [NameError] "{UNBOUND}")))'
    return f"(log {i} {v})"


def _E(e, guard):
    if e[0] == "K":
        return str(e[1])
    return _rd(e[1], e[2], guard)


def render_stmts(stmts, guard):
    return " ".join(render_stmt(s, guard) for s in stmts)


def render_stmt(s, guard):
    op = s[0]
    R = lambda b: render_stmts(b, guard)
    if op == "read":
        return _rd(s[1], s[2], guard)
    if op == "setv":
        return f"(setv {s[1]} {_E(s[2], guard)})"
    if op == "setx":
        return f"(setx {s[1]} {_E(s[2], guard)})"
    if op == "aug":
        return f"(+= {s[1]} 1)"
    if op == "forv":
        return f"(for [{s[1]} [{s[2]} {s[3]}]])"
    if op == "defn":
        return f"(defn {s[1]} [])"
    if op == "defclass":
        return f"(defclass {s[1]} [])"
    if op == "imp":
        return f"(import math :as {s[1]})"
    if op == "let":
        return f"(let [{s[1]} {_E(s[2], guard)}] {R(s[3])})"
    if op == "letm":
        parts = []
        for name, val in s[1]:
            if val[0] == "fn":
                parts.append(f"{name} (fn [] {R(val[1])} None)")
            elif val[0] == "gfor":
                parts.append(f"{name} (gfor _ [0] [{R(val[1])}])")
            else:
                parts.append(f"{name} {_E(val, guard)}")
        return f"(let [{' '.join(parts)}] {R(s[2])})"
    if op == "consume":
        return f"(list {s[1]})"
    if op == "clo":
        if s[1] == "fn":
            return f"(setv {s[2]} (fn [] {R(s[3])} None))"
        return f"(defn {s[2]} [] {R(s[3])} None)"
    if op == "call":
        return f"({s[1]})"
    if op == "fnp":
        return f"((fn [{s[1]}] {R(s[3])} None) {_E(s[2], guard)})"
    if op == "lfor":
        return f"(lfor {s[1]} [{s[2]} {s[3]}] (do {R(s[4])} None))"
    if op == "lforr":
        return f"(lfor {s[1]} [{_E(s[2], guard)} {s[3]}] (do {R(s[4])} None))"
    if op == "with":
        return f"(with [{s[1]} (cm {s[2]})] {R(s[3])})"
    if op == "exc":
        return f"(try (raise (ValueError {s[2]})) (except [{s[1]} ValueError] {R(s[3])}))"
    if op == "match":
        return f"(match {s[2]} {s[1]} (do {R(s[3])}))"
    raise ValueError(op)


def render(prog, guard):
    pool, w = prog["pool"], prog["wrapper"]
    init = "(setv " + " ".join(f"{v} {INIT[v]}" for v in pool) + ")"
    if w == "mod":
        return init + "\n" + render_stmts(prog["body"], guard)
    params = " ".join(pool) if w == "fnp" else ""
    args = " ".join(str(ARG[v]) for v in pool) if w == "fnp" else ""
    return (f"{init}\n(defn main [{params}] {render_stmts(prog['body'], guard)} None)\n(main {args})\n"
            + render_stmts(prog["tail"], guard))
