"""Reference tables for C03, transcribed from the docstrings of hy/pyops.hy
(the "equivalent Python" lists) and the module docstring (augmented
assignment aggregators).  Nothing here looks at how Hy implements anything.

For each operator:  py = Python spelling; forms = which of the documented
forms exist (nullary value / unary Python template / binary / n-ary);
agg = the documented aggregator for augmented assignment (the parent operator
itself unless the docstring names another one; None = the parent operator has
no n-ary form, so the augmented form takes exactly two arguments).
"""

INF = 10 ** 9

# name: (python spelling, nullary expr or None, unary template or None, binary?, nary?, documented aggregator)
OPS = {
    "+":      ("+",      "0",  "+{x}",    True,  True,  "+"),
    "-":      ("-",      None, "-{x}",    True,  True,  "+"),
    "*":      ("*",      "1",  "{x}",     True,  True,  "*"),
    "**":     ("**",     None, None,      True,  True,  "**"),
    "/":      ("/",      None, "1 / {x}", True,  True,  "*"),
    "//":     ("//",     None, None,      True,  True,  "*"),    # hy.pyops.// docstring: "Aggregator for augmented assignment: *" (added by a fix: commit; checked against the live docstring by C03's arity shard)
    "%":      ("%",      None, None,      True,  False, None),
    "@":      ("@",      None, None,      True,  True,  "@"),
    "<<":     ("<<",     None, None,      True,  True,  "+"),
    ">>":     (">>",     None, None,      True,  True,  "+"),
    "&":      ("&",      None, "{x}",     True,  True,  "&"),
    "|":      ("|",      "0",  "{x}",     True,  True,  "|"),
    "^":      ("^",      None, None,      True,  False, None),
    "bnot":   ("~",      None, "~{x}",    False, False, None),
    "not":    ("not",    None, "not {x}", False, False, None),
    "=":      ("==",     None, "True",    True,  True,  None),
    "!=":     ("!=",     None, None,      True,  True,  None),
    "<":      ("<",      None, "True",    True,  True,  None),
    "<=":     ("<=",     None, "True",    True,  True,  None),
    ">":      (">",      None, "True",    True,  True,  None),
    ">=":     (">=",     None, "True",    True,  True,  None),
    "is":     ("is",     None, "True",    True,  True,  None),
    "is-not": ("is not", None, None,      True,  True,  None),
    "in":     ("in",     None, None,      True,  True,  None),
    "not-in": ("not in", None, None,      True,  True,  None),
}
ARITH = ["+", "-", "*", "**", "/", "//", "%", "@", "<<", ">>", "&", "|", "^"]
UNARY_ONLY = ["bnot", "not"]
COMPARE = ["=", "!=", "<", "<=", ">", ">=", "is", "is-not", "in", "not-in"]
ALL_OPS = ARITH + UNARY_ONLY + COMPARE
AUG_OPS = [o for o in ARITH]          # every arithmetic operator has an augmented form "op="


def documented(op, arity):
    """Is the form with this many arguments in the docstring's list?"""
    py, nullary, unary, binary, nary, _ = OPS[op]
    if arity == 0:
        return nullary is not None
    if arity == 1:
        return unary is not None
    if arity == 2:
        return binary
    return nary


def doc_range(op):
    """(min, max) documented arity."""
    ars = [a for a in range(0, 4) if documented(op, a)]
    lo = min(ars)
    hi = INF if documented(op, 3) else max(ars)
    return lo, hi


def py_expr(op, names):
    """The documented Python expansion over the given operand expressions
    (each is used exactly once, in order)."""
    py, nullary, unary, binary, nary, _ = OPS[op]
    n = len(names)
    if not documented(op, n):
        raise KeyError((op, n))
    if n == 0:
        return nullary
    if n == 1:
        return unary.format(x=names[0])
    return (" " + py + " ").join(names)


def py_unary_uses_operand(op):
    """(< x) -> True: the Python text does not mention x (but Hy evaluates it;
    the docs say nothing else), so the logged variant is not compared there."""
    u = OPS[op][2]
    return u is not None and "{x}" in u


def aug_py_stmt(op, target, names):
    """Documented meaning of (op= target a1 … an), n >= 1, as a Python statement."""
    py = OPS[op][0]
    agg = OPS[op][5]
    if len(names) == 1:
        return f"{target} {py}= {names[0]}"
    if agg is None:
        raise KeyError((op, len(names)))
    return f"{target} {py}= ({py_expr(agg, names)})"


def aug_range(op):
    """number of value arguments after the target"""
    return (1, INF) if OPS[op][5] is not None else (1, 1)


# ---------------------------------------------------------------- values

class M:
    """A value that supports only @ (so fold direction is visible) and ==."""
    __slots__ = ("s",)

    def __init__(self, s):
        self.s = s

    def __matmul__(self, other):
        if not isinstance(other, M):
            return NotImplemented
        return M("(" + self.s + other.s + ")")

    def __imatmul__(self, other):
        if not isinstance(other, M):
            return NotImplemented
        self.s = "[" + self.s + other.s + "]"      # in place: identity of the target is observable
        return self

    def __eq__(self, other):
        return isinstance(other, M) and other.s == self.s

    __hash__ = None

    def __repr__(self):
        return f"M({self.s!r})"


POOLS = {
    "full": ["0", "1", "2", "-1", "True", "1.5", "'a'", "'ab'", "[1]", "{1}", "None"],
    "mid": ["0", "2", "-1", "1.5", "'a'", "{1}"],
    "small": ["0", "1", "2", "-1"],
    "tiny": ["0", "2", "-1"],
    "mat": ["M('p')", "M('q')", "M('r')", "1"],
}


_FACTORY = {}


def make(spec):
    """a fresh value for a pool entry (mutable values are never shared between runs)"""
    f = _FACTORY.get(spec)
    if f is None:
        f = _FACTORY[spec] = eval("lambda: " + spec, {"M": M})
    return f()


def canon(v):
    """Type-strict, order-independent printable form."""
    if isinstance(v, (set, frozenset)):
        return type(v).__name__ + "{" + ",".join(sorted(canon(e) for e in v)) + "}"
    if isinstance(v, (list, tuple)):
        return type(v).__name__ + "[" + ",".join(canon(e) for e in v) + "]"
    return type(v).__name__ + ":" + repr(v)


def pow_blowup(vals):
    """Would evaluating v0 ** v1 ** … ** vn (right to left) build an integer
    with more than ~10^6 bits?  Such tuples are excluded from the space."""
    try:
        acc = vals[-1]
        for b in reversed(vals[:-1]):
            if isinstance(b, int) and isinstance(acc, int) and abs(int(b)) >= 2 and int(acc) > 100000:
                return True
            acc = b ** acc
    except Exception:
        return False
    return False
