"""rc_reqmodel — generated module pairs for C15 and the documented result of
`require` (docs/api.rst, `require`), plus the file-extension rule.

Module A defines a subset of three macros
    m1: (m1 x) -> x + 1      m2: (m2 x) -> x * 2      _p: (_p x) -> x - 3
optionally followed by (export :macros [...]) (sets _hy_export_macros), and
optionally a reader macro.  Module B requires A in one documented shape, uses
every macro name the shape makes available, defines one macro of its own and a
few plain values.

Documented result of a shape (the set of names B's _hy_macros gains and the A
macro each denotes):
    bare          (require A)               "assigns every macro foo in A to the name A.foo"
    as            (require A :as P)         P.foo
    names         (require A [m1])          m1
    names-as      (require A [m1 :as n])    n
    names-mixed   (require A [m1 m2 :as k]) m1, k
    star          (require A *)             the exported macros: _hy_export_macros, by default those not starting with _
    macros-kw     (require A :macros [m1]), (require A :macros *)
    double        (require A [m1] A :as P)
    relative      the same inside a package, naming A as .a
    local         inside a function body: nothing is added to B's _hy_macros
For `bare` and `as` the documentation says "every macro" but describes export
lists only for `*`; whether a NON-exported macro is included there is treated
as unspecified: such a name may or may not be present (it must be the same in
every load), and B does not use it.
"""

MACROS = {"m1": "(+ ~x 1)", "m2": "(* ~x 2)", "_p": "(- ~x 3)"}
MACRO_FN = {"m1": lambda x: x + 1, "m2": lambda x: x * 2, "_p": lambda x: x - 3}

A_SETS = [[], ["m1"], ["m1", "m2"], ["m1", "_p"], ["m1", "m2", "_p"]]


def a_variants():
    """(macros, export list or None, reader?)"""
    out = []
    for ms in A_SETS:
        out.append((ms, None, False))
        if "m1" in ms and len(ms) > 1:
            out.append((ms, ["m1"], False))
        if "_p" in ms:
            out.append((ms, ["m1", "_p"], False))
    out.append((["m1"], None, True))
    return out


def exports(ms, export):
    return [m for m in ms if (m in export if export is not None else not m.startswith("_"))]


SHAPES = ["bare", "as", "names1", "names-p", "names-as", "names-mixed", "star", "macros-kw", "macros-star", "double", "local", "readers",
          "rel-names", "rel-star", "rel-as", "pkg-sub", "pkg-sub-as"]


def shape_applicable(shape, ms, export, reader):
    if shape == "readers":
        return reader
    if reader:
        return shape in ("bare", "names1")
    need = {"names1": ["m1"], "names-as": ["m1"], "names-mixed": ["m1", "m2"], "names-p": ["_p"], "macros-kw": ["m1"], "double": ["m1"],
            "local": ["m1"], "rel-names": ["m1"]}.get(shape, [])
    return all(n in ms for n in need)


def a_source(ms, export, reader):
    lines = ["(defmacro %s [x] `%s)" % (m, MACROS[m]) for m in ms]
    if reader:
        lines.append("(defreader rr (setv v (.parse-one-form &reader)) `(- ~v))")
    if export is not None:
        lines.append("(export :macros [%s])" % " ".join(export))
    lines.append("(setv a-value 1)")
    return "\n".join(lines) + "\n"


def require_form(shape, a_name, rel_name):
    return {
        "bare": "(require %s)" % a_name,
        "as": "(require %s :as P)" % a_name,
        "names1": "(require %s [m1])" % a_name,
        "names-p": "(require %s [_p])" % a_name,
        "names-as": "(require %s [m1 :as n])" % a_name,
        "names-mixed": "(require %s [m1 m2 :as k])" % a_name,
        "star": "(require %s *)" % a_name,
        "macros-kw": "(require %s :macros [m1])" % a_name,
        "macros-star": "(require %s :macros *)" % a_name,
        "double": "(require %s [m1] %s :as P)" % (a_name, a_name),
        "readers": "(require %s :readers [rr])" % a_name,
        "rel-names": "(require %s [m1])" % rel_name,
        "rel-star": "(require %s *)" % rel_name,
        "rel-as": "(require %s :as P)" % rel_name,
        # "all the same syntax as import": a name in the list that is a SUBMODULE of a (macro-less)
        # package is required like `(require pkg.a :as a)`; rel_name is the package here
        "pkg-sub": "(require %s [a])" % rel_name,
        "pkg-sub-as": "(require %s [a :as S])" % rel_name,
    }[shape]


def brought(shape, a_name, ms, export):
    """-> (sure: {new name: source macro}, maybe: {new name: source macro})"""
    ex = exports(ms, export)
    non = [m for m in ms if m not in ex]
    sure, maybe = {}, {}
    if shape == "bare":
        sure = {"%s.%s" % (a_name, m): m for m in ex}
        maybe = {"%s.%s" % (a_name, m): m for m in non}
    elif shape in ("as", "rel-as"):
        sure = {"P.%s" % m: m for m in ex}
        maybe = {"P.%s" % m: m for m in non}
    elif shape in ("pkg-sub", "pkg-sub-as"):
        pre = "a" if shape == "pkg-sub" else "S"
        sure = {"%s.%s" % (pre, m): m for m in ex}
        maybe = {"%s.%s" % (pre, m): m for m in non}
    elif shape in ("names1", "macros-kw", "rel-names"):
        sure = {"m1": "m1"}
    elif shape == "names-p":
        sure = {"_p": "_p"}
    elif shape == "names-as":
        sure = {"n": "m1"}
    elif shape == "names-mixed":
        sure = {"m1": "m1", "k": "m2"}
    elif shape in ("star", "macros-star", "rel-star"):
        sure = {m: m for m in ex}
    elif shape == "double":
        sure = {"m1": "m1"}
        sure.update({"P.%s" % m: m for m in ex})
        maybe = {"P.%s" % m: m for m in non}
    elif shape in ("local", "readers"):
        sure = {}
    return sure, maybe


def b_source(shape, a_name, rel_name, ms, export):
    """-> (text, expected values {python name: value})"""
    sure, _ = brought(shape, a_name, ms, export)
    lines = []
    values = {}
    if shape == "local":
        lines.append("(defn g [] (require %s [m1 :as loc]) (loc 5))" % a_name)
        lines.append("(setv r-local (g))")
        values["r_local"] = 6
    else:
        lines.append(require_form(shape, a_name, rel_name))
    if shape == "readers":
        lines.append("(setv r-reader #rr 5)")
        values["r_reader"] = -5
    for i, (new, src) in enumerate(sorted(sure.items())):
        arg = 10 + i
        lines.append("(setv r%d (%s %d))" % (i, new, arg))
        values["r%d" % i] = MACRO_FN[src](arg)
    lines.append("(defmacro own [] 5)")
    lines.append("(setv r-own (own))")
    values["r_own"] = 5
    lines.append("(setv v1 7)")
    lines.append("(defn f [y] (+ y v1))")
    lines.append("(setv v2 (f 1))")
    values["v1"] = 7
    values["v2"] = 8
    return "\n".join(lines) + "\n", values


def pairs():
    """Every (A variant index, shape) that is well formed."""
    out = []
    for ai, (ms, export, reader) in enumerate(a_variants()):
        for sh in SHAPES:
            if shape_applicable(sh, ms, export, reader):
                out.append([ai, sh])
    return out


# ------------------------------------------------------------------ histories

HIST_OPS = {
    "I": "drop A and B from sys.modules, import B",
    "IB": "drop only B from sys.modules, import B",
    "TB": "touch B's source, drop A and B, import B",
    "TA": "touch A's source, drop A and B, import B",
}


class CacheModel:
    """Which files the import system has to compile in each step.  Whether
    loading B imports A at all is NOT part of the documented behaviour (a B
    that got no macros from A has no reason to), so `a_imported` — did this
    step import A anew — is an observation fed into the model; what is
    demanded: B is compiled exactly when its bytecode is not valid, and A, IF
    it is imported anew, is compiled exactly when its bytecode is not valid."""

    def __init__(self):
        self.valid = {"A": False, "B": False}

    def touch(self, op):
        if op == "TB":
            self.valid["B"] = False
        if op == "TA":
            self.valid["A"] = False

    def step(self, a_imported):
        """-> set of files expected to be compiled ({'A','B'} subset)"""
        comp = set()
        if not self.valid["B"]:
            comp.add("B")
            self.valid["B"] = True
        if a_imported and not self.valid["A"]:
            comp.add("A")
            self.valid["A"] = True
        return comp


# ------------------------------------------------------------------ extension rule

EXT_NAMES = ["m.hy", "m.py", "m", "m.txt", "m.HY", "m.hy.py", "m.py.hy", "m.pyw", "m.PY", "m.Py", "m.py3"]

# valid in both languages, different meaning:
#   Hy:     `#_ 0` discards the 0, then (setv lang "hy") ...; line 2 is the string "" and a comment
#   Python: line 1 is a comment; line 2 is the statement "" followed by lang = "py" ...
POLYGLOT = '#_ 0 (do (setv lang "hy") (print "lang=hy"))\n"" ; lang = "py" ; print("lang=py")\n'


def compiled_as_hy(filename, python_source_suffixes):
    """The rule: a file is compiled as Hy exactly when its suffix is not one of
    Python's OTHER source suffixes."""
    dot = filename.rfind(".")
    suffix = filename[dot:] if dot > 0 else ""
    return suffix not in [s for s in python_source_suffixes if s != ".hy"]
