"""C28 helper: operands, registered test printers (script-driven, with fault
points and re-entrant hy.repr calls) and a reference model of hy.repr.

Everything is described by small *specs* (nested tuples).  A spec is built
into a real object graph and, in parallel, into a graph of `N` nodes on which
the reference model works.  A test class's printer is a *script* interpreted
both by the real printer (registered with hy.repr-register) and by the
reference model:

    ("tick",)                 fault point: raises Fault iff the call-local
                              tick index is in the operation's fault set; also
                              the observation point for the mid-call state
    ("lit", text)
    ("repr", spec-or-field)   re-entrant hy.repr call
    ("try", body, handler)    body; a Fault raised in it is caught -> handler

Reference model (from the documentation of hy.repr / hy.repr-register and
the property): a model that is not a Keyword, printed while no enclosing
hy.repr call is printing a model, is prefixed with "'"; an object met again
while it is being printed gives its placeholder ("..." by default); printers
see exactly the enclosing calls' state; after the outermost call returns or
raises, no state is left.
"""

NAMES = ["sym", "kw", "nested", "lst", "dct", "cyc", "cycd", "mcyc", "mself", "A", "mA", "lA", "B", "D", "C", "R", "mR", "Q", "dA"]

A = ("inst", "A", None, {})
T = ("inst", "T", None, {})

OPERANDS = {
    "sym": ("sym", "a"),
    "kw": ("kw", "k"),
    "nested": ("mexpr", [("sym", "f"), ("mlist", [("mint", 1), ("mstr", "s")]), ("kw", "k")]),
    "lst": ("list", None, [("int", 1), ("sym", "a"), ("tuple", [("kw", "k")])]),
    "dct": ("dict", None, [(("str", "k"), ("sym", "a")), (("int", 1), ("list", None, [("sym", "b")]))]),
    "cyc": ("list", "L", [T, ("ref", "L")]),
    "cycd": ("dict", "Dd", [(("str", "k"), T), (("str", "me"), ("ref", "Dd"))]),
    "mcyc": ("mlist", [("list", "L", [("sym", "a"), T, ("ref", "L")])]),
    # a MODEL reachable from itself (through a mutable Python list): m = '[L a] with L = [m]; the operand is m
    "mself": ("first", ("list", "L", [("mlist", [("ref", "L"), ("sym", "a")])])),
    "A": A,
    "mA": ("mlist", [A, ("sym", "b")]),
    "lA": ("list", None, [A, ("sym", "a")]),
    "B": ("inst", "B", "Bself", {"box": ("list", None, [("ref", "Bself")])}),
    "D": ("inst", "D", "Dself", {"box": ("dict", None, [(("int", 1), ("ref", "Dself"))])}),
    "C": ("inst", "C", None, {}),
    "R": ("inst", "R", None, {}),
    "mR": ("mlist", [("inst", "R", None, {})]),
    "Q": ("inst", "Q", None, {}),
    "dA": ("dict", None, [(("kw", "k"), A), (("str", "x"), ("sym", "q"))]),
}

SCRIPTS = {
    "T": [("tick",), ("lit", "T")],
    "A": [("tick",), ("lit", "<A "), ("repr", ("sym", "s")), ("tick",), ("lit", ">")],
    "B": [("tick",), ("lit", "<B "), ("repr", ("field", "box")), ("tick",), ("lit", ">")],
    "D": [("lit", "<D "), ("repr", ("field", "box")), ("lit", ">")],
    "C": [("tick",), ("lit", "<C "), ("repr", ("sym", "a")), ("lit", " "),
          ("repr", ("list", None, [("sym", "b")])), ("lit", " "), ("repr", A), ("tick",), ("lit", ">")],
    "R": [("tick",), ("lit", "<R "), ("try", [("repr", ("mlist", [A]))], [("lit", "caught")]),
          ("lit", " "), ("repr", ("sym", "z")), ("tick",), ("lit", ">")],
    "Q": [("lit", "<Q "), ("try", [("repr", ("mlist", [A]))], [("lit", "c1")]), ("lit", " "),
          ("try", [("repr", ("list", None, [A, ("sym", "y")]))], [("lit", "c2")]),
          ("lit", " "), ("repr", ("mlist", [("sym", "z"), T])), ("lit", ">")],
}
PLACEHOLDERS = {"B": "B!"}          # registered :placeholder; others use the default "..."

MODEL_KINDS = {"sym", "kw", "mint", "mstr", "mlist", "mexpr"}


class Fault(BaseException):
    """Raised by a test printer at a planned tick.  BaseException on purpose:
    the property speaks of printers that raise, not of which class."""


class N:
    __slots__ = ("kind", "val", "items", "fields", "real", "label", "cls")

    def __init__(self, kind):
        self.kind = kind
        self.val = None
        self.items = []
        self.fields = {}
        self.real = None
        self.label = None
        self.cls = None


class Run:
    """Per-call context shared by the real printers: fault set, tick counter,
    observation log."""

    def __init__(self, faults, labels):
        self.faults = set(faults)
        self.ticks = 0
        self.fired = []
        self.log = []           # (tick index, quoting, sorted seen labels)
        self.labels = labels    # id(real) -> label


CUR = None          # the Run of the hy.repr call in progress (set by call())
_classes = {}
_registered = False


def classes():
    """Create and register the test classes once per process."""
    global _registered
    if _registered:
        return _classes
    import hy

    def mk(name):
        cls = type("HS_" + name, (), {"__slots__": ("n",)})

        def printer(obj, _name=name):
            return _run_script_real(SCRIPTS[_name], obj.n)
        hy.repr_register(cls, printer, PLACEHOLDERS.get(name))
        _classes[name] = (cls, printer)
    for name in SCRIPTS:
        mk(name)
    _registered = True
    return _classes


def registry_intact():
    import hy.core.hy_repr as R
    for name, (cls, printer) in classes().items():
        if R._registry.get(cls) != (printer, PLACEHOLDERS.get(name)):
            return False
    return True


# ---------------------------------------------------------------- building

def build(spec, labels, path, env=None):
    """spec -> N (with .real).  labels: id(real) -> label (filled in)."""
    import hy.models as M
    env = {} if env is None else env
    kind = spec[0]
    n = N(kind)
    n.label = path

    def reg(real):
        n.real = real
        labels.setdefault(id(real), path)
        return n

    if kind == "ref":
        return env[spec[1]]
    if kind == "first":
        return build(spec[1], labels, path + "^", env).items[0]
    if kind in ("sym", "kw", "int", "str", "mint", "mstr"):
        n.val = spec[1]
        real = {"sym": M.Symbol, "kw": M.Keyword, "int": int, "str": str, "mint": M.Integer, "mstr": M.String}[kind](spec[1])
        return reg(real)
    if kind in ("tuple", "mlist", "mexpr"):
        n.items = [build(s, labels, "%s/%d" % (path, i), env) for i, s in enumerate(spec[1])]
        real = {"tuple": tuple, "mlist": M.List, "mexpr": M.Expression}[kind]([c.real for c in n.items])
        return reg(real)
    if kind == "list":
        real = []
        reg(real)
        if spec[1]:
            env[spec[1]] = n
        for i, s in enumerate(spec[2]):
            c = build(s, labels, "%s/%d" % (path, i), env)
            n.items.append(c)
            real.append(c.real)
        return n
    if kind == "dict":
        real = {}
        reg(real)
        if spec[1]:
            env[spec[1]] = n
        for i, (ks, vs) in enumerate(spec[2]):
            k = build(ks, labels, "%s/k%d" % (path, i), env)
            v = build(vs, labels, "%s/v%d" % (path, i), env)
            n.items.append((k, v))
            real[k.real] = v.real
        return n
    if kind == "inst":
        cls, _ = classes()[spec[1]]
        real = cls()
        real.n = n
        n.cls = spec[1]
        reg(real)
        if spec[2]:
            env[spec[2]] = n
        n.fields = {f: build(s, labels, "%s.%s" % (path, f), env) for f, s in spec[3].items()}
        n.val = (labels, env)       # printers build their sub-operands in the same label space
        return n
    raise ValueError(spec)


# ---------------------------------------------------------------- the real printers

def _observe():
    import hy.core.hy_repr as R
    run = CUR
    labs = sorted(run.labels.get(i, "?") for i in R._seen)
    return (bool(R._quoting), tuple(labs))


def _run_script_real(script, n, pfx=""):
    import hy
    run = CUR
    out = []
    for k, act in enumerate(script):
        a = act[0]
        if a == "tick":
            run.ticks += 1
            run.log.append((run.ticks,) + _observe())
            if run.ticks in run.faults:
                run.fired.append(run.ticks)
                raise Fault(run.ticks)
        elif a == "lit":
            out.append(act[1])
        elif a == "repr":
            out.append(hy.repr(_sub(n, act[1], pfx + str(k)).real))
        elif a == "try":
            try:
                out.append(_run_script_real(act[1], n, "%s%db" % (pfx, k)))
            except Fault:
                out.append(_run_script_real(act[2], n, "%s%dh" % (pfx, k)))
    return "".join(out)


def _sub(n, spec, k):
    """Sub-operand of a printer script: a field, or a spec built once per
    instance and script position (so the real printer and the model see the
    same node)."""
    if spec[0] == "field":
        return n.fields[spec[1]]
    key = "@" + k
    if key not in n.fields:
        labels, env = n.val
        n.fields[key] = build(spec, labels, n.label + key, env)
    return n.fields[key]


# ---------------------------------------------------------------- reference model

class RefState:
    def __init__(self, faults, labels):
        self.quoting = False
        self.seen = set()
        self.faults = set(faults)
        self.ticks = 0
        self.fired = []
        self.log = []
        self.labels = labels


def ref_repr(n, st):
    started = False
    if not st.quoting and n.kind in MODEL_KINDS and n.kind != "kw":
        st.quoting = True
        started = True
    oid = id(n.real)
    if oid in st.seen:
        # (unreachable with started=True: an object being printed keeps quoting on)
        return _placeholder(n)
    st.seen.add(oid)
    try:
        return ("'" if started else "") + _ref_print(n, st)
    finally:
        st.seen.discard(oid)
        if started:
            st.quoting = False


def _placeholder(n):
    if n.kind == "inst":
        return PLACEHOLDERS.get(n.cls) or "..."
    return {"list": "[...]", "mlist": "[...]", "dict": "{...}"}.get(n.kind, "...")


def _ref_print(n, st):
    k = n.kind
    if k == "sym":
        return n.val
    if k == "kw":
        return ":" + n.val
    if k in ("int", "mint"):
        return str(n.val)
    if k in ("str", "mstr"):
        return '"' + n.val + '"'          # operands use plain letters only
    if k in ("list", "mlist"):
        return "[" + " ".join([ref_repr(c, st) for c in n.items]) + "]"
    if k == "tuple":
        return "#(" + " ".join([ref_repr(c, st) for c in n.items]) + ")"
    if k == "mexpr":
        return "(" + " ".join([ref_repr(c, st) for c in n.items]) + ")"
    if k == "dict":
        return "{" + "  ".join([ref_repr(a, st) + " " + ref_repr(b, st) for a, b in n.items]) + "}"
    if k == "inst":
        return _run_script_ref(SCRIPTS[n.cls], n, st)
    raise ValueError(k)


def _run_script_ref(script, n, st, pfx=""):
    out = []
    for k, act in enumerate(script):
        a = act[0]
        if a == "tick":
            st.ticks += 1
            st.log.append((st.ticks, st.quoting, tuple(sorted(st.labels.get(i, "?") for i in st.seen))))
            if st.ticks in st.faults:
                st.fired.append(st.ticks)
                raise Fault(st.ticks)
        elif a == "lit":
            out.append(act[1])
        elif a == "repr":
            out.append(ref_repr(_sub(n, act[1], pfx + str(k)), st))
        elif a == "try":
            try:
                out.append(_run_script_ref(act[1], n, st, "%s%db" % (pfx, k)))
            except Fault:
                out.append(_run_script_ref(act[2], n, st, "%s%dh" % (pfx, k)))
    return "".join(out)


def ref_run(n, labels, faults):
    """Reference outcome of hy.repr(n.real) with the call-local fault set:
    (outcome, RefState)."""
    st = RefState(faults, labels)
    try:
        out = ("ok", ref_repr(n, st))
    except Fault:
        out = ("raise", "Fault")
    assert not st.quoting and not st.seen
    return out, st


def ref_call(name, faults):
    """Same from a fresh object graph: (outcome, ticks, fired, log)."""
    labels = {}
    out, st = ref_run(build(OPERANDS[name], labels, name), labels, faults)
    return out, st.ticks, st.fired, st.log


def fault_sets(name, max_faults):
    """Every call-local fault set of size <= max_faults all of whose faults
    fire (by the reference model), smallest first."""
    out = [()]
    frontier = [()]
    for _ in range(max_faults):
        nxt = []
        for fs in frontier:
            _, ticks, fired, _ = ref_call(name, fs)
            lo = (fs[-1] + 1) if fs else 1
            for j in range(lo, ticks + 1):
                cand = fs + (j,)
                _, _, fired2, _ = ref_call(name, cand)
                if list(fired2) == list(cand):
                    nxt.append(cand)
        out.extend(nxt)
        frontier = nxt
    return out


def all_ops(max_faults):
    return [[name, list(fs)] for name in NAMES for fs in fault_sets(name, max_faults)]


# ---------------------------------------------------------------- running one call on the real hy.repr

def module_state(labels=None):
    import hy.core.hy_repr as R
    labels = labels or {}
    return (R._quoting, tuple(sorted(labels.get(i, "?") for i in R._seen)))


def force_pristine():
    """Reset hy.repr's module state; returns what had to be repaired."""
    import hy.core.hy_repr as R
    repaired = []
    if R._quoting is not False:
        repaired.append("_quoting=%r" % (R._quoting,))
        R._quoting = False
    if R._seen:
        repaired.append("_seen has %d ids" % len(R._seen))
        R._seen.clear()
    return repaired


def call(node, labels, faults):
    """hy.repr(node.real) with the given call-local fault set.  Returns
    (outcome, run)."""
    global CUR
    import hy
    prev = CUR
    CUR = run = Run(faults, labels)
    try:
        try:
            out = ("ok", hy.repr(node.real))
        except Fault:
            out = ("raise", "Fault")
        except BaseException as e:
            out = ("raise", type(e).__name__ + ": " + str(e)[:80])
    finally:
        CUR = prev
    return out, run


def fresh_outcome(name, faults):
    """What a pristine interpreter state gives for one operation (used both
    in-process after force_pristine() and in a brand-new process)."""
    force_pristine()
    labels = {}
    node = build(OPERANDS[name], labels, name)
    out, run = call(node, labels, faults)
    return {"out": list(out), "ticks": run.ticks, "fired": run.fired,
            "log": [list(x[:2]) + [list(x[2])] for x in run.log], "state_after": list(module_state(labels))}
