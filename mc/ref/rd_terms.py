"""rd_terms — reader terms: exhaustive generator and structure-aware renderer.

A *reader term* is an abstract syntax tree of Hy surface syntax.  Because a
text is rendered from a term, its structure is known without asking any
lexer: the renderer records, for every cut point of the text, which
constructs are open there (C19), and for every form its exact source region
(C21).  mc.ref.rd_lexer derives the same per-cut information from the raw
text alone; the checks cross-validate the two (a mismatch is a bug in the
reference models, never blamed on Hy).

Terms (tuples, JSON-able as nested lists):

  form  := ("atom", text)                      identifier-like token (symbol, number, keyword, dotted identifier)
         | ("str", prefix, body)               "…" with prefix in '', b, r, rb, br; body is source text
         | ("bstr", delim, body)               #[delim[body]delim]
         | ("fstr", prefix|None, delim|None, parts)   f"…" (prefix f, rf, fr) or #[f…[ … ]f…]
         | ("seq", kind, items)                kind in ( [ { #( #{
         | ("pre", kind, items)                kind in ' ` ~ ~@ #* #** ; items = junk* form
         | ("ann", items)                      #^ ; items hold exactly two forms, the last item is a form
  item  := form | ("dis", items) | ("cmt", text)         #_ junk* form ;  ;text\\n
  part  := ("t", units)                        units: source pieces; "{{" and "}}" are the brace escapes
         | ("fld", items, debug, conv, spec)   items = junk* form ; spec = None | parts
  program := items

Size = number of nodes: every form and item counts 1; an f-string counts 1 for
its whole shape (chunks, '=', conversion, spec) plus the nodes of the items in
its replacement fields.  "All terms with at most n nodes" is a finite set.
"""
from mc.ref import rd_lexer as LX

SEQ = {"(": ("paren", "(", ")"), "[": ("brack", "[", "]"), "{": ("brace", "{", "}"),
       "#(": ("tuple", "#(", ")"), "#{": ("set", "#{", "}")}
PRE = {"'": "quote", "`": "quasiquote", "~": "unquote", "~@": "unquote-splice",
       "#*": "#*", "#**": "#**"}
LONG = {"'": "quote", "`": "quasiquote", "~": "unquote", "~@": "unquote-splice",
        "#*": "unpack-iterable", "#**": "unpack-mapping"}


def is_form(t):
    return t[0] not in ("dis", "cmt")


# ------------------------------------------------------------------ sizes

def size(t):
    k = t[0]
    if k in ("atom", "str", "bstr", "cmt"):
        return 1
    if k == "seq":
        return 1 + sum(size(x) for x in t[2])
    if k == "pre":
        return 1 + sum(size(x) for x in t[2])
    if k in ("ann", "dis"):
        return 1 + sum(size(x) for x in t[1])
    if k == "fstr":
        return 1 + sum(psize(p) for p in t[3])
    raise ValueError(k)


def psize(p):
    """f-string parts: an f-string is ONE node (its shape: text chunks, debug
    '=', conversion, format spec are the shape's own, like the brackets of a
    sequence) plus the nodes of the items inside its replacement fields."""
    if p[0] == "t":
        return 0
    _, items, debug, conv, spec = p
    return sum(size(x) for x in items) + (0 if spec is None else sum(psize(q) for q in spec))


# ------------------------------------------------------------------ layouts

class Layout:
    """Where the renderer puts which separator.  `tight` omits a separator
    wherever the lexical rules of syntax.rst make the junction separating by
    itself (the left side ends in a closing delimiter or quote, or the right
    side starts with a delimiter that cannot continue an identifier)."""

    def __init__(self, name, sib=" ", top=None, open_pad="", close_pad="", pgap="", hgap=" ",
                 indent=None, tight=False, lead="", trail="", fpad=""):
        self.name = name
        self._sib = sib
        self._top = sib if top is None else top
        self.open_pad = open_pad
        self.close_pad = close_pad
        self.pgap = pgap          # after ' ` ~ ~@
        self.hgap = hgap          # after #* #** #^ #_
        self.indent = indent
        self.tight = tight
        self.lead = lead
        self.trail = trail
        self.fpad = fpad          # inside { } of a replacement field

    def sib(self, depth):
        if depth == 0:
            return self._top
        if self.indent is not None:
            return self._sib + self.indent * depth
        return self._sib


LAYOUTS = {
    "plain": Layout("plain"),
    "tight": Layout("tight", tight=True, hgap=""),
    "lines": Layout("lines", sib="\n", top="\n", indent="  ", hgap=" "),
    "crlf": Layout("crlf", sib="\r\n\t", top="\r\n", open_pad=" ", close_pad=" ", pgap=" ", hgap="\t",
                   lead="\r\n", trail="\r\n", fpad=" "),
    "ragged": Layout("ragged", sib="\n", top="\n\n", open_pad="\n", close_pad="\n   ", pgap="\n", hgap="\n ",
                     lead="\n  ", trail=" ", fpad="\n"),
    "vtff": Layout("vtff", sib="\x0b", top="\x0c", open_pad="\x0c", close_pad="", pgap="", hgap="\x0b",
                   lead=" ", trail="\x0b"),
}


def _needs_sep(last, first):
    """Is a separator lexically required between a piece ending in `last`
    and a piece starting with `first`?  Only identifier characters merge."""
    if last == "" or first == "":
        return False
    if not LX.is_ident_char(last):
        return False
    return LX.is_ident_char(first) or first == '"'


# ------------------------------------------------------------------ renderer

class Node:
    """A rendered form: its term, 0-based [start, end] inclusive offsets and
    the child forms in source order (`kids`); for f-strings the kids are
    field nodes (tag 'fld') whose own kids are the value form followed by the
    fields of the format spec."""
    __slots__ = ("term", "tag", "start", "end", "kids")

    def __init__(self, term, tag, start):
        self.term = term
        self.tag = tag
        self.start = start
        self.end = None
        self.kids = []


class Rendered:
    __slots__ = ("text", "cuts", "nodes", "term", "layout", "ambiguous")


class Renderer:
    def __init__(self, layout):
        self.lay = layout
        self.out = []
        self.cuts = []           # (class, state, ntop) per cut point
        self.frames = []
        self.ntop = 0
        self._mid = False
        self._tok = False
        self._pending_field = None
        self.ambiguous = False

    # -- cut bookkeeping: the state after character i is taken lazily, right
    #    before character i+1 is emitted (all structural completions that the
    #    last character of a form triggers have happened by then)
    def _snap(self):
        frames = self.frames
        inner = [f for f in frames if f != "comment"]
        tokmark = "+tok" if self._tok else ""
        if self._mid:
            state = (inner[-1] if inner else "top") + "+tok"
            cls = LX.INSIDE if any(LX.is_delimited(f) for f in frames) else LX.MIDTOK
            self.cuts.append((cls, state, None))
            return
        if not inner:
            self.cuts.append((LX.BETWEEN, ("comment" if len(inner) != len(frames) else "top") + tokmark, self.ntop))
        elif inner[-1].startswith("prefix:"):
            self.cuts.append((LX.AFTER_PREFIX, inner[-1] + tokmark, None))
        else:
            self.cuts.append((LX.INSIDE, inner[-1] + tokmark, None))

    def put(self, c, mid=False, tok=False):
        self._snap()
        if self._pending_field is not None:
            at, kind = self._pending_field
            self._pending_field = None
            self.frames[at] = kind + ":text"
            self.frames.append("field:before-form")
        self.out.append(c)
        self._mid = mid
        self._tok = tok

    def ws(self, s):
        for c in s:
            self.put(c)

    def token(self, s, continues=False):
        """An identifier-like token; `continues`: the next character still
        belongs to the same lexical token (string prefix, '#(' …)."""
        n = len(s)
        for i, c in enumerate(s):
            self.put(c, mid=(i < n - 1 or continues), tok=True)

    @property
    def pos(self):
        return len(self.out)

    def last(self):
        return self.out[-1] if self.out else ""

    # -- separators
    def sep(self, first, depth, want):
        """Emit the separator `want` before a piece starting with `first`;
        in tight layouts emit nothing when the junction separates itself."""
        if self.lay.tight:
            want = " " if _needs_sep(self.last(), first) else ""
        elif want == "" and _needs_sep(self.last(), first):
            want = " "
        self.ws(want)

    # -- items
    def items(self, items, depth, parent, open_pad, close_pad, closer_first):
        """Render a list of items inside a container; returns nothing; child
        form nodes are appended to parent.kids (parent may be None)."""
        for i, it in enumerate(items):
            first = first_char(it)
            self.sep(first, depth, open_pad if i == 0 else self.lay.sib(depth))
            self.item(it, depth, parent)
        if items:
            self.sep(closer_first, depth, close_pad)

    def item(self, it, depth, parent):
        k = it[0]
        if k == "cmt":
            self.put(";")
            self.frames.append("comment")
            for c in it[1]:
                self.put(c)
            self.put("\n")
            self.frames.pop()
            return None
        if k == "dis":
            self.token("#_")
            self.frames.append("prefix:#_")
            self.operands(it[1], depth, None, self.lay.hgap)
            self.frames.pop()
            return None
        node = self.form(it, depth)
        if parent is not None:
            parent.kids.append(node)
        return node

    def operands(self, items, depth, parent, gap, relabel=None):
        nforms = 0
        for i, it in enumerate(items):
            first = first_char(it)
            self.sep(first, depth, gap if i == 0 else self.lay.sib(depth + 1))
            self.item(it, depth + 1, parent)
            if is_form(it):
                nforms += 1
                if relabel:
                    relabel(nforms)

    # -- forms
    def form(self, t, depth):
        k = t[0]
        node = Node(t, k, self.pos)
        if k == "atom":
            self.token(t[1])
        elif k == "str":
            self.token(t[1], continues=True)
            self.put('"')
            self.frames.append("str")
            for c in t[2]:
                self.put(c)
            self.put('"')
            self.frames.pop()
        elif k == "bstr":
            self.token("#", continues=True)
            self.put("[")
            self.frames.append("bstr-delim")
            for c in t[1]:
                self.put(c)
            self.put("[")
            self.frames[-1] = "bstr"
            for c in t[2] + "]" + t[1] + "]":
                self.put(c)
            self.frames.pop()
        elif k == "fstr":
            self.fstr(t, node, depth)
        elif k == "seq":
            name, op, cl = SEQ[t[1]]
            node.tag = "seq:" + name
            if len(op) == 2:
                self.token("#", continues=True)
            self.put(op[-1])
            self.frames.append(name)
            self.items(t[2], depth + 1, node, self.lay.open_pad, self.lay.close_pad, cl)
            self.put(cl)
            self.frames.pop()
        elif k == "pre":
            kind = t[1]
            node.tag = "pre:" + kind
            if kind.startswith("#"):
                self.token(kind)
                gap = self.lay.hgap
            else:
                for c in kind:
                    self.put(c)
                    if c == "~":
                        self.frames.append("prefix:unquote")
                    elif c == "@":
                        self.frames[-1] = "prefix:unquote-splice"
                    else:
                        self.frames.append("prefix:" + PRE[kind])
                gap = self.lay.pgap
            if kind.startswith("#"):
                self.frames.append("prefix:" + kind)
            self.operands(t[2], depth, node, gap)
            self.frames.pop()
        elif k == "ann":
            self.token("#^")
            self.frames.append("prefix:#^:2")
            at = len(self.frames) - 1

            def relabel(n, at=at):
                if n == 1:
                    self.frames[at] = "prefix:#^:1"
            self.operands(t[1], depth, node, self.lay.hgap, relabel)
            self.frames.pop()
        else:
            raise ValueError(k)
        node.end = self.pos - 1
        return node

    def fstr(self, t, node, depth):
        _, prefix, delim, parts = t
        if delim is None:
            self.token(prefix, continues=True)
            self.put('"')
            self.frames.append("fstr:text")
        else:
            self.token("#", continues=True)
            self.put("[")
            self.frames.append("bstr-delim")
            for c in delim:
                self.put(c)
            self.put("[")
            self.frames[-1] = "fstr:text"
        at = len(self.frames) - 1
        body0 = self.pos
        self.parts(parts, node, depth, at, "fstr")
        if delim is not None and ("]" + delim + "]") in "".join(self.out[body0:]) + "]" + delim:
            # the closing delimiter occurs inside the body (necessarily inside a
            # replacement field, or formed with the closer): syntax.rst does not
            # say whether the field's code or the delimiter wins
            self.ambiguous = True
        for c in ('"' if delim is None else "]" + delim + "]"):
            self.put(c)
        self.frames.pop()

    def parts(self, parts, parent, depth, at, kind):
        for p in parts:
            if p[0] == "t":
                for u in p[1]:
                    if u == "{{":
                        self.put("{")
                        self.frames[at] = kind + ":lbrace"
                        self.put("{")
                        self.frames[at] = kind + ":text"
                    elif u == "}}":
                        self.put("}")
                        self.frames[at] = kind + ":rbrace"
                        self.put("}")
                        self.frames[at] = kind + ":text"
                    else:
                        for c in u:
                            self.put(c)
                continue
            _, items, debug, conv, spec = p
            fnode = Node(p, "fld", self.pos)
            parent.kids.append(fnode)
            self.put("{")
            self.frames[at] = kind + ":lbrace"
            # the field begins once the character after '{' is seen not to be '{'
            fat = len(self.frames)
            self._pending_field = (at, kind)
            for i, it in enumerate(items):
                first = first_char(it)
                if i == 0 and first == "{":
                    self.ws(self.lay.fpad or " ")     # '{{' would be a literal brace
                else:
                    self.sep(first, depth + 1, self.lay.fpad if i == 0 else self.lay.sib(depth + 1))
                self.item(it, depth + 1, fnode)
            self.frames[fat] = "field:after-form"
            nxt = "=" if debug else ("!" if conv else (":" if spec is not None else "}"))
            pad = self.lay.fpad
            if nxt != "}" and _needs_sep(self.last(), nxt) and not pad:
                pad = " "
            self.ws(pad)
            if debug:
                self.put("=")
                self.frames[fat] = "field:after-eq"
                self.ws(self.lay.fpad)
            if conv:
                self.put("!")
                self.frames[fat] = "field:after-bang"
                self.put(conv)
                self.frames[fat] = "field:after-conv"
                self.ws(self.lay.fpad)
            if spec is not None:
                self.put(":")
                self.frames.append("fspec:text")
                self.parts(spec, fnode, depth + 1, len(self.frames) - 1, "fspec")
                self.put("}")
                self.frames.pop()
                self.frames.pop()
            else:
                self.put("}")
                self.frames.pop()
            fnode.end = self.pos - 1

    def program(self, items):
        nodes = []
        self.ws(self.lay.lead)
        for i, it in enumerate(items):
            if i:
                self.sep(first_char(it), 0, self.lay.sib(0))
            else:
                self.sep(first_char(it), 0, "")
            n = self.item(it, 0, None)
            if n is not None:
                nodes.append(n)
                self.ntop += 1
        if not (items and items[-1][0] == "cmt"):
            self.ws(self.lay.trail)
        self._snap()
        return nodes


def first_char(it):
    k = it[0]
    if k == "cmt":
        return ";"
    if k in ("dis", "ann", "bstr"):
        return "#"
    if k == "atom":
        return it[1][0]
    if k == "str":
        return (it[1] + '"')[0]
    if k == "fstr":
        return "#" if it[2] is not None else it[1][0]
    if k in ("seq", "pre"):
        return it[1][0]
    raise ValueError(k)


def render(items, layout="plain"):
    lay = LAYOUTS[layout] if isinstance(layout, str) else layout
    r = Renderer(lay)
    nodes = r.program(items)
    out = Rendered()
    out.text = "".join(r.out)
    out.cuts = r.cuts
    out.nodes = nodes
    out.term = items
    out.layout = lay.name
    out.ambiguous = r.ambiguous
    assert len(out.cuts) == len(out.text) + 1, (len(out.cuts), len(out.text))
    assert not r.frames or r.frames == ["comment"], r.frames
    return out


# ------------------------------------------------------------------ generator

def A(text):
    return ("atom", text)


ATOMS_CORE = [
    A("ab"), A("a.b"), A("1"), ("str", "", "s"), ("seq", "(", ()), ("fstr", "f", None, (("t", ("x", "{{")),)),
]

ATOMS_FULL = [
    # identifier-like tokens
    A("a"), A("ab"), A("a.b"), A(".a"), A("..a.b"), A("..."), A("1"), A("-1.5e3"), A("2+3j"), A(":k"), A(":"),
    # strings, bytes, raw strings (bodies are source text)
    ("str", "", ""), ("str", "", "s"), ("str", "", '\\"\\\\'), ("str", "", "\\x41\\N{BULLET}"), ("str", "", "a\nb"),
    ("str", "b", "\\x00"), ("str", "r", "\\d"), ("str", "rb", '\\"'),
    # bracket strings
    ("bstr", "", "s"), ("bstr", "d", "a]]b"), ("bstr", "", "\nx"),
    # f-strings without fields
    ("fstr", "f", None, (("t", ("s",)),)), ("fstr", "f", None, (("t", ("{{", "}}")),)),
    ("fstr", None, "f", (("t", ("a", "}}")),)), ("fstr", None, "f", (("t", ("\n", "x")),)),
    # empty sequences
    ("seq", "(", ()), ("seq", "[", ()), ("seq", "{", ()), ("seq", "#(", ()), ("seq", "#{", ()),
]


def T(*units):
    return ("t", tuple(units))


def F(form, debug=False, conv=None, spec=None, junk=()):
    return ("fld", tuple(junk) + (form,), debug, conv, spec)


# f-string shapes: the f-string sublanguage as templates with form holes
FSHAPES_FULL = [
    ("f{}", 1, lambda a: ("fstr", "f", None, (F(a),))),
    ("fx{}y", 1, lambda a: ("fstr", "f", None, (T("x"), F(a), T("y")))),
    ("f{!r}", 1, lambda a: ("fstr", "f", None, (F(a, conv="r"),))),
    ("f{=}", 1, lambda a: ("fstr", "f", None, (F(a, debug=True),))),
    ("f{:>5}", 1, lambda a: ("fstr", "f", None, (F(a, spec=(T(">", "5"),)),))),
    ("f{=!s:x}", 1, lambda a: ("fstr", "f", None, (F(a, debug=True, conv="s", spec=(T("x"),)),))),
    ("f{:}", 1, lambda a: ("fstr", "f", None, (F(a, spec=()),))),
    ("rf\\{}", 1, lambda a: ("fstr", "rf", None, (T("\\"), F(a)))),
    ("#[f[{}]f]", 1, lambda a: ("fstr", None, "f", (T("a"), F(a)))),
    ("#[f-x[{!a}]]f-x]", 1, lambda a: ("fstr", None, "f-x", (F(a, conv="a"), T("]", "]")))),
    ("f{;c}", 1, lambda a: ("fstr", "f", None, (F(a, junk=(("cmt", "c"),)),))),
    ("f{}{}", 2, lambda a, b: ("fstr", "f", None, (F(a), F(b)))),
    # literal text directly followed by a `=` field (the reader joins the text with the field's "expr = " prefix),
    # after a leading replacement field / inside a nested format spec
    ("f{}b{=}", 2, lambda a, b: ("fstr", "f", None, (F(a), T("b"), F(b, debug=True)))),
    ("f{:a{=}}", 2, lambda a, b: ("fstr", "f", None, (F(a, spec=(T("a"), F(b, debug=True))),))),
    ("f{:{}}", 2, lambda a, b: ("fstr", "f", None, (F(a, spec=(F(b),)),))),
    ("f{!r:>{}x}", 2, lambda a, b: ("fstr", "f", None, (F(a, conv="r", spec=(T(">"), F(b), T("x"))),))),
]
FSHAPES_CORE = [FSHAPES_FULL[1], FSHAPES_FULL[5], FSHAPES_FULL[8], FSHAPES_FULL[12]]

ALPHABETS = {
    "full": dict(atoms=ATOMS_FULL, fshapes=FSHAPES_FULL, seqs=list(SEQ), pres=list(PRE), ann=True,
                 junk=[("cmt", "c")], max_items=3),
    "core": dict(atoms=ATOMS_CORE, fshapes=FSHAPES_CORE, seqs=["(", "[", "#{"], pres=["'", "~@", "#**"], ann=True,
                 junk=[("cmt", "c")], max_items=3),
}


def _compositions(total, parts):
    if parts == 1:
        yield (total,)
        return
    for first in range(1, total - parts + 2):
        for rest in _compositions(total - first, parts - 1):
            yield (first,) + rest


class Gen:
    """All terms with exactly n nodes over an alphabet (memoised lists, in a
    fixed order: atoms first, then constructors in alphabet order)."""

    def __init__(self, alpha):
        self.a = ALPHABETS[alpha] if isinstance(alpha, str) else alpha
        self._forms = {}
        self._items = {}
        self._lists = {}
        self._ops = {}

    def forms(self, n):
        if n in self._forms:
            return self._forms[n]
        out = []
        a = self.a
        if n == 1:
            out.extend(a["atoms"])
        if n >= 2:
            for k in a["seqs"]:
                for its in self.lists(n - 1, a["max_items"]):
                    out.append(("seq", k, its))
            for k in a["pres"]:
                for its in self.operands(n - 1, 1):
                    out.append(("pre", k, its))
            if a["ann"] and n >= 3:
                for its in self.operands(n - 1, 2):
                    out.append(("ann", its))
            for name, ar, build in a["fshapes"]:
                proto = build(*[A("a")] * ar)
                extra = size(proto) - ar           # nodes that are not the holes
                rest = n - extra
                if rest < ar:
                    continue
                for split in _compositions(rest, ar):
                    pools = [self.forms(s) for s in split]
                    for kids in _product(pools):
                        out.append(build(*kids))
        self._forms[n] = out
        return out

    def items(self, n):
        if n in self._items:
            return self._items[n]
        out = list(self.forms(n))
        if n == 1:
            out.extend(self.a["junk"])
        if n >= 2:
            for its in self.operands(n - 1, 1):
                out.append(("dis", its))
        self._items[n] = out
        return out

    def lists(self, total, maxlen):
        """Item lists (tuples) with total size exactly `total`, 1..maxlen items."""
        key = (total, maxlen)
        if key in self._lists:
            return self._lists[key]
        out = []
        for ln in range(1, min(maxlen, total) + 1):
            for split in _compositions(total, ln):
                pools = [self.items(s) for s in split]
                for its in _product(pools):
                    out.append(tuple(its))
        self._lists[key] = out
        return out

    def operands(self, total, nforms):
        """junk* form (junk* form)…: exactly nforms forms, last item a form,
        at most one junk item before each form."""
        key = (total, nforms)
        if key in self._ops:
            return self._ops[key]
        out = []
        if nforms == 1:
            for f in self.forms(total):
                out.append((f,))
            for js in range(1, total):
                for j in self._junk(js):
                    for f in self.forms(total - js):
                        out.append((j, f))
        else:
            for first in range(1, total):
                for head in self.operands(first, 1):
                    for tail in self.operands(total - first, nforms - 1):
                        out.append(head + tail)
        self._ops[key] = out
        return out

    def _junk(self, n):
        out = []
        if n == 1:
            out.extend(self.a["junk"])
        if n >= 2:
            for its in self.operands(n - 1, 1):
                out.append(("dis", its))
        return out

    def programs(self, n, maxlen=3):
        """Top-level item lists of total size exactly n."""
        return self.lists(n, maxlen)


def _product(pools):
    if not pools:
        yield ()
        return
    if len(pools) == 1:
        for x in pools[0]:
            yield (x,)
        return
    for x in pools[0]:
        for rest in _product(pools[1:]):
            yield (x,) + rest


def to_jsonable(t):
    if isinstance(t, tuple):
        return [to_jsonable(x) for x in t]
    return t


def from_jsonable(t):
    if isinstance(t, list):
        return tuple(from_jsonable(x) for x in t)
    return t
