"""Reference model for Hy string, bytes and bracket-string literals (C23).

Transcribes docs/syntax.rst ("String literals", "Bracket strings") and the
property statement.  It knows nothing about Hy's reader.

Double-quoted literals (prefix '', r, b, br, rb)
  * extent: the literal ends at the first '"' that is not escaped by a
    backslash (as in Python, a backslash protects the next character from
    ending the literal in raw strings too); no such quote -> premature end
    of input;
  * "all literal newlines in literal strings are read as in "\\n" (U+000A)
    regardless of the newline style": CR LF and CR become LF first;
  * "Unrecognized escape sequences are a syntax error": the table of
    recognised escapes is the one of the Python language reference
    (\\newline \\\\ \\' \\" \\a \\b \\f \\n \\r \\t \\v \\ooo \\xhh, and for str
    also \\N{name} \\uxxxx \\Uxxxxxxxx).  The table is cross-checked against
    CPython's own "invalid escape sequence" warning on every case where the
    character after the backslash is ASCII (CPython does not warn for a
    backslash followed by a non-ASCII character, although the language
    reference does not list such an escape: that is why the table exists);
  * value: CPython's evaluation of the same content between triple double
    quotes under the same prefix (ast.literal_eval) — no hand-made decoding.
    A content CPython rejects (truncated \\x, unknown \\N name, non-ASCII in
    bytes, ...) has no value, so Hy must report a syntax error;
  * octal escapes above 0o377 are deprecated by CPython 3.12 ("invalid octal
    escape sequence" warning, value still produced): unspecified.

Bracket strings  #[D[ ... ]D]
  * end at the first occurrence of ']' D ']';
  * "if it begins with [a newline], the newline is removed" (one newline, in
    any of the three styles); "Any leading newlines past the first are
    preserved"; otherwise verbatim ("always raw"), after the newline-style
    normalisation above.
"""
import ast
import warnings

STR_ESC = set("\n\\'\"abfnrtv01234567x") | set("NuU")
BYTES_ESC = set("\n\\'\"abfnrtv01234567x")

VALID_PREFIXES = ["", "r", "b", "br", "rb"]


def normalise_newlines(s):
    return s.replace("\r\n", "\n").replace("\r", "\n")


def split_quoted(body):
    """Content of the literal `"` + body + `"` + whatever: (content, terminated)."""
    text = body + '"'
    esc = False
    for i, c in enumerate(text):
        if esc:
            esc = False
            continue
        if c == "\\":
            esc = True
        elif c == '"':
            return text[:i], True
    return None, False


def escapes(content):
    """Characters that follow an escaping backslash (content already newline-normalised)."""
    out = []
    i = 0
    n = len(content)
    while i < n:
        if content[i] == "\\" and i + 1 < n:
            out.append(content[i + 1])
            i += 2
        else:
            i += 1
    return out


_pycache = {}


def py_eval(prefix, content):
    """CPython on  prefix + triple-quoted content.
    -> ("value", v, [warning messages]) | ("error", message)"""
    key = (prefix, content)
    r = _pycache.get(key)
    if r is not None:
        return r
    src = prefix + '"""' + content + '"""'
    try:
        with warnings.catch_warnings(record=True) as w:
            warnings.simplefilter("always")
            v = ast.literal_eval(src)
        r = ("value", v, [str(x.message) for x in w])
    except (SyntaxError, ValueError) as e:
        r = ("error", str(getattr(e, "msg", e)))
    if len(_pycache) > 300000:
        _pycache.clear()
    _pycache[key] = r
    return r


def quoted(prefix, body):
    """Reference verdict for the text  prefix + '"' + body + '"'  (first form only).

    -> dict(cls=..., rule=..., [typ=, value=], selfcheck=None|str)
       cls: "value" | "syntax-error" | "premature-eof" | "any-syntax-error" | "unspec"
    """
    content, ok = split_quoted(body)
    if not ok:
        # An unterminated literal that also holds an unrecognised escape or (for
        # bytes) a non-ASCII character is wrong twice; the documentation does
        # not say which error wins, so either Hy syntax error is accepted.
        nb = normalise_newlines(body)
        twice = ("r" not in prefix and any(c not in (BYTES_ESC if "b" in prefix else STR_ESC) for c in escapes(nb))) \
            or ("b" in prefix and any(ord(c) > 127 for c in nb))
        if twice:
            return dict(cls="any-syntax-error", rule="unterminated+other-error", selfcheck=None)
        return dict(cls="premature-eof", rule="unterminated", selfcheck=None)
    content = normalise_newlines(content)
    raw = "r" in prefix
    isbytes = "b" in prefix
    typ = bytes if isbytes else str
    py = py_eval(prefix, content)
    selfcheck = None
    if raw:
        if py[0] == "error":
            return dict(cls="syntax-error", rule="python-rejects:" + _short(py[1]), selfcheck=None)
        if py[2]:
            selfcheck = "CPython warned on a raw literal: %r" % (py[2],)
        return dict(cls="value", rule="raw", typ=typ, value=py[1], selfcheck=selfcheck)
    table = BYTES_ESC if isbytes else STR_ESC
    esc = escapes(content)
    bad = [c for c in esc if c not in table]
    warned_bad = py[0] == "value" and any(m.startswith("invalid escape sequence") for m in py[2])
    if bad:
        # (CPython reports only the first offending escape, so an earlier
        # "invalid octal escape" warning can stand in for a later unrecognised one)
        if all(ord(c) < 128 for c in bad) and py[0] == "value" and not py[2]:
            selfcheck = "table says unrecognised %r, CPython did not warn" % (bad,)
        return dict(cls="syntax-error", rule="unrecognised-escape", selfcheck=selfcheck)
    if py[0] == "error":
        return dict(cls="syntax-error", rule="python-rejects:" + _short(py[1]), selfcheck=None)
    if warned_bad:
        selfcheck = "table says all escapes recognised, CPython warned %r" % (py[2],)
    if any("octal" in m for m in py[2]):
        return dict(cls="unspec", rule="octal-escape-above-0o377", typ=typ, value=py[1], selfcheck=selfcheck)
    return dict(cls="value", rule="escapes" if esc else "plain", typ=typ, value=py[1], selfcheck=selfcheck)


def _short(msg):
    for key in ("truncated \\x", "truncated \\u", "truncated \\U", "invalid \\x", "unknown Unicode character name",
                "malformed \\N", "illegal Unicode character", "bytes can only contain ASCII"):
        if key in msg:
            return key.replace("\\", "").replace(" ", "-")
    return "other"


def bracket(delim, content):
    """Reference value of  '#[' D '[' content ']' D ']'  (first form only)."""
    closer = "]" + delim + "]"
    full = content + closer
    raw = full[:full.index(closer)]
    early = len(raw) < len(content)
    if raw.startswith("\r\n"):
        raw, lead = raw[2:], True
    elif raw[:1] in ("\r", "\n"):
        raw, lead = raw[1:], True
    else:
        lead = False
    return dict(value=normalise_newlines(raw), early_close=early, leading_newline=lead)
