"""C04 reference evaluator: the documented nested-loop reading, run with Python's own loops.

docs/api.rst (lfor): several iteration clauses work like a nested loop;
`:do FORM` evaluates FORM, (continue)/(break) in it apply to the innermost
iteration clause before it; `:setv L R` == `:do (setv L R)`; `:if C` ==
`:do (when (not C) (continue))`; VALUE is evaluated for each element; `#* X`
returns the elements of X; dfor's `#** D` returns the items of D; sfor ==
(set (lfor ...)); gfor evaluates and yields values one at a time; variables
of iteration / :setv clauses of lfor/sfor/dfor/gfor are not visible outside,
variables defined in the body are; in `for` everything shares the caller's
scope; for's else runs after the last iteration of the OUTERMOST iteration
clause iff that loop ended normally; `for` returns None.

Nothing here knows how Hy compiles anything.
"""


class Unbound(Exception):
    pass


class Ref:
    def __init__(self, term, outer):
        """outer: dict of the enclosing scope's variables (pre-bound sentinels); mutated in place."""
        self.t = term
        self.outer = outer
        self.log = []                 # [(site, repr(value))]
        self.par = []                 # [(start, mid, end)] index ranges of unordered sibling groups in self.log
        self.first_expr_end = None    # len(log) right after the first clause's expression was evaluated
        self.is_for = term["root"] == "for"
        self.first_iter = next((i for i, c in enumerate(term["clauses"]) if c[0] == "iter"), None)
        self.body_runs = 0
        self.else_ran = False
        self.broke_outermost = False

    # ---- expressions
    def lookup(self, name, chain):
        for d in chain:
            if name in d:
                return d[name]
        raise Unbound(name)

    def emit(self, site, v):
        self.log.append((site, repr(v)))

    def ev(self, e, chain):
        op = e[0]
        if op == "log":
            v = self.ev(e[2], chain)
            self.emit(e[1], v)
            return v
        if op == "tup":
            return tuple(self.lookup(n, chain) for n in e[1])
        if op == "lstn":
            return [self.lookup(e[1], chain), e[2]]
        if op == "lit":
            return _fresh(e[1])
        if op == "ne":
            return self.lookup(e[1], chain) != e[2]
        if op == "eq":
            return self.lookup(e[1], chain) == e[2]
        if op == "wrap":
            self.emit(e[1], True)
            return self.ev(e[2], chain)
        if op == "setx":
            v = self.ev(e[2], chain)
            self.outer[e[1]] = v
            return v
        if op == "dict2":
            vals = tuple(self.lookup(n, chain) for n in e[1])
            return {(0,) + vals: 1, "z": vals}
        if op == "nest":
            _, flavour, q, si, sv, w, names = e
            out = []
            inner = {}
            it = [7, 8]
            self.emit(si, it)
            for item in it:
                inner[q] = item
                v = tuple(self.lookup(n, [inner] + chain) for n in list(names) + [q])
                self.emit(sv, v)
                self.outer[w] = v            # defined within the body: visible outside
                out.append(v)
            return tuple(out)
        raise ValueError(e)

    # ---- statements of :do clauses and of for bodies; return None | 'continue' | 'break'
    def stmt(self, s, chain):
        op = s[0]
        if op == "expr":
            self.ev(s[1], chain)
            return None
        if op == "assign":
            self.outer[s[1]] = self.ev(s[2], chain)
            return None
        if op == "when-continue":
            return "continue" if self.ev(s[1], chain) else None
        if op == "when-break":
            return "break" if self.ev(s[1], chain) else None
        raise ValueError(s)

    # ---- the nested loop
    def run(self, idx, cenv, chain):
        """Generator over the elements; its return value is the pending signal."""
        clauses = self.t["clauses"]
        if idx == len(clauses):
            return (yield from self.final(chain))
        c = clauses[idx]
        op = c[0]
        if op == "iter":
            it = self.ev(c[2], chain)
            if idx == 0:
                self.first_expr_end = len(self.log)
            outermost = idx == self.first_iter
            for item in it:
                if isinstance(c[1], str):
                    cenv[c[1]] = item
                else:
                    if c[1][1].startswith("#* "):
                        a, *b = item
                        cenv[c[1][0]], cenv[c[1][1][3:]] = a, b
                    else:
                        a, b = item
                        cenv[c[1][0]], cenv[c[1][1]] = a, b
                sig = yield from self.run(idx + 1, cenv, chain)
                if sig == "break":
                    if outermost:
                        self.broke_outermost = True
                    break
            else:
                if outermost and self.is_for and self.t["else"] is not None:
                    self.else_ran = True
                    self.ev(self.t["else"], chain)
            return None
        if op == "setv":
            v = self.ev(c[2], chain)
            if idx == 0:
                self.first_expr_end = len(self.log)
            cenv[c[1]] = v
            return (yield from self.run(idx + 1, cenv, chain))
        if op == "if":
            if not self.ev(c[1], chain):
                return "continue"
            return (yield from self.run(idx + 1, cenv, chain))
        if op == "do":
            sig = self.stmt(c[1], chain)
            if sig is not None:
                return sig
            return (yield from self.run(idx + 1, cenv, chain))
        raise ValueError(c)

    def final(self, chain):
        self.body_runs += 1
        if self.is_for:
            for s in self.t["body"]:
                sig = self.stmt(s, chain)
                if sig is not None:
                    return sig
            return None
        f = self.t["final"]
        if f[0] == "value":
            yield self.ev(f[1], chain)
        elif f[0] == "unpack":
            for x in self.ev(f[1], chain):
                yield x
        elif f[0] == "kv":
            start = len(self.log)
            k = self.ev(f[1], chain)
            mid = len(self.log)
            v = self.ev(f[2], chain)
            self.par.append((start, mid, len(self.log)))
            yield (k, v)
        elif f[0] == "unpack-map":
            for kv in self.ev(f[1], chain).items():
                yield kv
        else:
            raise ValueError(f)
        return None

    def elements(self):
        """The generator of the form's elements (for `for`: yields nothing, runs the loops)."""
        if self.is_for:
            cenv = self.outer
            chain = [self.outer]
        else:
            cenv = {}
            chain = [cenv, self.outer]
        sig = yield from self.run(0, cenv, chain)
        self.toplevel_signal = sig


def _fresh(v):
    if isinstance(v, list):
        return [_fresh(x) for x in v]
    return v


def reference(term, mode):
    """Run the reference.  Returns a dict:
       kind: 'list' | 'set' | 'dict' | 'gen' | 'none'
       value: the expected result (gen: list of yielded values)
       steps: for gen, [(log_len_after_step, ('yield', v) | ('stop',))]
       log, par, first_expr_end, env (outer variables after the form), body_runs, else_ran
    """
    from mc.ref import cf_terms
    outer = {}
    if mode == "shadow":
        for n in cf_terms.all_names(term):
            outer[n] = "outer"
    ref = Ref(term, outer)
    g = ref.elements()
    root = term["root"]
    out = {"steps": None}
    if root == "gfor":
        steps = []
        vals = []
        while True:
            try:
                v = next(g)
            except StopIteration:
                steps.append((len(ref.log), ("stop",)))
                break
            steps.append((len(ref.log), ("yield", v)))
            vals.append(v)
        out.update(kind="gen", value=vals, steps=steps)
    elif root == "lfor":
        out.update(kind="list", value=list(g))
    elif root == "sfor":
        out.update(kind="set", value=set(list(g)))
    elif root == "dfor":
        d = {}
        for k, v in g:
            d[k] = v
        out.update(kind="dict", value=d)
    else:
        for _ in g:
            raise AssertionError("for yields nothing")
        out.update(kind="none", value=None)
    out.update(log=ref.log, par=ref.par, first_expr_end=ref.first_expr_end or 0, env=dict(outer),
               body_runs=ref.body_runs, else_ran=ref.else_ran, broke_outermost=ref.broke_outermost)
    return out


def log_matches(ref_log, par, impl_log):
    """Is impl_log the reference log, up to interleaving inside the unordered sibling groups?"""
    if len(ref_log) != len(impl_log):
        return False
    pos = 0
    for start, mid, end in par:
        if ref_log[pos:start] != impl_log[pos:start]:
            return False
        a, b = ref_log[start:mid], ref_log[mid:end]
        seg = impl_log[start:end]
        sa = {x[0] for x in a}
        if [x for x in seg if x[0] in sa] != a or [x for x in seg if x[0] not in sa] != b:
            return False
        pos = end
    return ref_log[pos:] == impl_log[pos:]
