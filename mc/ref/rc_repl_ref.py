"""rc_repl_ref — reference model of the Hy REPL for C40 (docs/repl.rst).

Knows nothing about hy/repl.py.  Two parts.

(a) Programs with line-break layouts.  A program is a sequence of *items*
    (top-level forms, plus the non-forms `#_ FORM` and `; comment`), each a
    list of tokens with a separator slot between consecutive tokens:

      's'  a separator is required: one space, or a line break
      'o'  optional: nothing, or a line break
      'n'  forced line break (the token before it is a comment)

    Between two items there is an 's' slot ('n' after a comment).  A layout
    chooses, for every free slot, "same line" or "line break".  Because the
    text is built from its structure, the reference knows for every line
    break whether it falls BETWEEN top-level items (everything read so far is
    complete) or INSIDE an item (an open bracket, an open string, or a prefix
    such as ' or #_ still waiting for its form): the REPL must ask for more
    input exactly in the second case.  Lines between two "complete" points
    form one input; the input's value is the value of its last form, printed
    with hy.repr unless it is None (repl.rst: "the return value of each REPL
    input is printed with hy.repr ... no output is produced when the value is
    None").

(b) Histories of inputs and the special variables (repl.rst, "Special
    variables"): *1 = result of the most recent input, *2 the one before,
    *3 the one before that; *e = the most recent uncaught exception.
    The documentation does not say whether an input that FAILED counts as an
    input with a result.  The model is therefore a set of admissible triples:
    a failed input either shifts nothing or shifts in None.  What is never
    admissible is the property's explicit clause: after a failed input two of
    the variables hold the result of the SAME earlier input.
"""

# --------------------------------------------------------------------- (a)

# item kinds: name -> (tokens(k), slots, semantics(k))
# k is a fresh constant unique to the item's position in the program.


def _items():
    I = {}
    I["const"] = (lambda k: [str(k)], [], lambda k: ("const", k))
    I["none"] = (lambda k: ["None"], [], lambda k: ("none",))
    I["setv"] = (lambda k: ["(setv", "x", "%d)" % k], ["s", "s"], lambda k: ("setv", k))
    # x is 0 until a setv item ran, so this item also produces the falsy non-None value 0
    I["mul"] = (lambda k: ["(*", "x", "%d)" % k], ["s", "s"], lambda k: ("mul", k))
    I["list"] = (lambda k: ["[x", "%d]" % k], ["s"], lambda k: ("list", k))
    I["str"] = (lambda k: ['"s%d' % k, 't"'], ["s"], lambda k: ("str", "s%d" % k, "t"))
    I["print"] = (lambda k: ["(print", "%d)" % k], ["s"], lambda k: ("print", k))
    I["quote"] = (lambda k: ["'", "a%d" % k], ["o"], lambda k: ("quote", "a%d" % k))
    I["discard"] = (lambda k: ["#_", str(k)], ["s"], lambda k: ("nothing",))
    I["comment"] = (lambda k: ["; c%d" % k], [], lambda k: ("nothing",))
    I["len"] = (lambda k: ["(len", "[x", "%d])" % k], ["s", "s"], lambda k: ("len2",))
    I["listc"] = (lambda k: ["[x", ";c", "%d" % k, "]"], ["s", "n", "o"], lambda k: ("list", k))
    return I


ITEMS = _items()
ITEM_NAMES = list(ITEMS)
PRELUDE = "(setv x 0)"


def const_for(pos):
    return 11 * (pos + 1)


def slots_of(program):
    """The slot kinds of a program (list of item names), in text order, with
    for each slot whether it lies between items (True) or inside one."""
    out = []
    for pos, name in enumerate(program):
        toks, slots, _ = ITEMS[name]
        if pos:
            prev = program[pos - 1]
            out.append(("n" if prev == "comment" else "s", True))
        for s in slots:
            out.append((s, False))
    return out


def n_free(program):
    return sum(1 for s, _ in slots_of(program) if s != "n")


class Rendered:
    """lines: the text of each line; complete[i]: is everything up to the end
    of line i complete; inputs: per maximal run of lines ending at a complete
    point, the semantics of the items that end in it."""

    def __init__(self):
        self.lines = []
        self.complete = []
        self.inputs = []


def render(program, layout_bits):
    """layout_bits: integer; bit j decides the j-th FREE slot (1 = line break)."""
    r = Rendered()
    cur = ""
    cur_input = []
    j = 0

    def sep(kind, between):
        nonlocal cur, j, cur_input
        if kind == "n":
            nl = True
        else:
            nl = bool((layout_bits >> j) & 1)
            j += 1
        if nl:
            r.lines.append(cur)
            r.complete.append(between)
            cur = ""
            if between:
                r.inputs.append(cur_input)
                cur_input = []
            return "\n"
        if kind == "s":
            cur += " "
            return " "
        return ""

    for pos, name in enumerate(program):
        toks_f, slots, sem_f = ITEMS[name]
        k = const_for(pos)
        toks = toks_f(k)
        if pos:
            sep("n" if program[pos - 1] == "comment" else "s", True)
        seps_used = []
        for t_i, t in enumerate(toks):
            if t_i:
                seps_used.append(sep(slots[t_i - 1], False))
            cur += t
        sem = sem_f(k)
        if sem[0] == "str":
            sem = ("strval", sem[1] + seps_used[0] + sem[2])
        cur_input.append(sem)
    r.lines.append(cur)
    r.complete.append(True)
    r.inputs.append(cur_input)
    return r


class Sym:
    """stands for the model value hy.models.Symbol(name)"""

    def __init__(self, name):
        self.name = name

    def __eq__(self, o):
        return isinstance(o, Sym) and o.name == self.name

    def __hash__(self):
        return hash(("Sym", self.name))

    def __repr__(self):
        return "Sym(%r)" % self.name


def eval_input(sems, env):
    """Evaluate the forms of one input in order (as a script would).
    Returns (printed_text, value_of_last_form_or_None, n_forms)."""
    printed = ""
    value = None
    n = 0
    for s in sems:
        tag = s[0]
        if tag == "nothing":
            continue
        n += 1
        if tag == "const":
            value = s[1]
        elif tag == "none":
            value = None
        elif tag == "setv":
            env["x"] = s[1]
            value = None
        elif tag == "mul":
            value = env["x"] * s[1]
        elif tag == "list":
            value = [env["x"], s[1]]
        elif tag == "strval":
            value = s[1]
        elif tag == "print":
            printed += "%d\n" % s[1]
            value = None
        elif tag == "quote":
            value = Sym(s[1])
        elif tag == "len2":
            value = 2
        else:
            raise AssertionError(tag)
    return printed, value, n


def expected_session(rendered):
    """Per line: (more, printed_text_before_value, value) — value only
    meaningful where more is False."""
    env = {"x": 0}
    out = []
    it = iter(rendered.inputs)
    for line, comp in zip(rendered.lines, rendered.complete):
        if not comp:
            out.append((True, "", None))
        else:
            printed, value, _ = eval_input(next(it), env)
            out.append((False, printed, value))
    return out, env


# --------------------------------------------------------------------- (b)

OPS = ["c", "n", "s", "2", "r", "l", "m", "i", "p", "y", "g", "q", "u", "d"]
OP_DOC = {
    "c": "K                          fresh constant",
    "n": "None                       None-valued form",
    "s": "(setv x K)                 assignment (value None)",
    "2": "K+1 K+2                    two forms on one line",
    "r": "(raise (ValueError K))     runtime error",
    "l": "K )                        reader error",
    "m": "(cond K)                   macro-expansion error",
    "i": "(+ K  /  1)                incomplete line, then its completion",
    "p": "(print K)                  print (value None)",
    "y": "(setv K)                   compile-time syntax error",
    "g": "(let [a K] (nonlocal zq) a)  compile-time error raised when the global scope is left (state kept by the REPL's one compiler)",
    "q": "(defn fq [] (defmacro lmq [] K) (setv K))   compile-time error inside a function scope that has defined a local macro",
    "d": "(defreader rq 'K) #rq      a reader macro defined and used in ONE input (forms are read one at a time, as in a script)",
    "u": "(lmq)                      call of a name that is a macro only locally inside fq: a NameError at top level, always",
}
FAILS = {"r": "runtime", "l": "reader", "m": "macro", "y": "compile", "g": "compile", "q": "compile", "u": "runtime"}


def hist_const(index):
    return 10 * (index + 1)


def op_lines(op, k):
    return {
        "c": ["%d" % k],
        "n": ["None"],
        "s": ["(setv x %d)" % k],
        "2": ["%d %d" % (k + 1, k + 2)],
        "r": ["(raise (ValueError %d))" % k],
        "l": ["%d )" % k],
        "m": ["(cond %d)" % k],
        "i": ["(+ %d" % k, "1)"],
        "p": ["(print %d)" % k],
        "y": ["(setv %d)" % k],
        "g": ["(let [a %d] (nonlocal zq) a)" % k],
        "q": ["(defn fq [] (defmacro lmq [] %d) (setv %d))" % (k, k)],
        "u": ["(lmq)"],
        "d": ["(defreader rq '%d) #rq" % k],
    }[op]


class HistModel:
    def __init__(self):
        self.adm = {(None, None, None)}    # admissible (*1, *2, *3)
        self.x = None                      # None = unbound
        self.failed_before = False
        self.last_exc = None               # ("ValueError", (k,)) | ("reader",) | ("macro",) | ("compile",)

    def step(self, op, k):
        """Returns dict(success, value, printed, exc) and updates the model."""
        if op in FAILS:
            self.adm = self.adm | {(None, a, b) for (a, b, c) in self.adm}
            self.failed_before = True
            self.last_exc = ("ValueError", (k,)) if op == "r" else (FAILS[op],)
            return dict(success=False, value=None, printed="", exc=self.last_exc)
        printed = ""
        if op == "c":
            v = k
        elif op == "n":
            v = None
        elif op == "s":
            v = None
            self.x = k
        elif op == "d":
            v = k
        elif op == "2":
            v = k + 2
        elif op == "i":
            v = k + 1
        elif op == "p":
            v = None
            printed = "%d\n" % k
        else:
            raise AssertionError(op)
        self.adm = {(v, a, b) for (a, b, c) in self.adm}
        return dict(success=True, value=v, printed=printed, exc=None)

    def resync(self, observed):
        self.adm = {tuple(observed)}
