"""C29 helper: value specs, probes (model subclasses whose `replace` hook gives
a fault point / observation point / re-entrant call *inside* as_model while
containers are being wrapped) and a reference model of as_model's recursion
guard.

Spec language (JSON-able nested lists/tuples):
  leaves   ("int", n) ("str", s) ("bytes", latin1-text) ("float", text) ("complex", text)
           ("bool", b) ("none",) ("kw", name)
           ("mint", n) ("mstr", s) ("msym", name) ("mfloat", text) ("mbytes", text) ("mcomplex", text)
  python   ("list", label|None, [items]) ("tuple", [items]) ("set", [items]) ("dict", label|None, [[k, v], ...])
  models   ("mlist", [items]) ("mtuple", ...) ("mset", ...) ("mdict", ...) ("mexpr", ...)
  ("ref", label)     the enclosing labelled list / dict (makes a cycle)
  ("obj",)           an object no wrapper exists for
  ("probe", name)    instance of a Symbol subclass running PROBES[name] when as_model reaches it
  ("at", spec, [path])   build spec, use the sub-node at path as the operand

Probe script actions: ("tick",) fault / observation point; ("as", spec) a
re-entrant as_model call whose HyWrapperError is caught and logged;
("try", body) catches a Fault raised in body.
"""

PROBES = {
    "P1": [("tick",)],
    "P2": [("tick",), ("as", ("list", None, [("int", 1), ("list", None, [("str", "x")])])), ("tick",)],
    "P3": [("tick",), ("as", ("ref", "L")), ("tick",)],
    "P4": [("as", ("list", None, [("int", 1), ("list", None, [("obj",)])])), ("tick",)],
    "P5": [("try", [("as", ("list", None, [("tuple", [("probe", "P1")])]))]), ("tick",)],
}

OK_NEST = ("list", None, [("int", 1), ("tuple", [("str", "a"), ("float", "2.5")]),
                          ("dict", None, [[("str", "k"), ("list", None, [("none",), ("bool", True)])]]), ("set", [("int", 3)])])
SHARED = ("list", "X", [("int", 1)])

OPERANDS = {
    # succeeding
    "int": ("int", 5),
    "nest": OK_NEST,
    "kw": ("kw", "k"),
    "mixed": ("mexpr", [("msym", "+"), ("list", None, [("int", 1)]), ("mlist", [("int", 2)]), ("list", None, [("mint", 3)])]),
    "dag": ("list", None, [SHARED, ("ref", "X"), ("tuple", [("ref", "X")])]),
    "ddeep": ("dict", None, [[("str", "a"), ("dict", None, [[("str", "b"), ("list", None, [("int", 1)])]])]]),
    # failing: self-reference
    "selfl": ("list", "L", [("int", 1), ("ref", "L")]),
    "selfd": ("dict", "D", [[("str", "k"), ("ref", "D")]]),
    "cyc2": ("list", "L", [("tuple", [("int", 0), ("ref", "L")]), ("int", 2)]),
    "mcyc": ("at", ("list", "L", [("mexpr", [("msym", "f"), ("ref", "L")])]), [0]),
    "cycin": ("list", None, [("int", 1), ("list", "L", [("dict", None, [[("str", "k"), ("ref", "L")]])])]),
    # failing: element without a wrapper, at each position / depth
    "unw0": ("list", None, [("obj",), ("int", 1), ("int", 2)]),
    "unw1": ("list", None, [("int", 1), ("obj",), ("int", 2)]),
    "unw2": ("list", None, [("int", 1), ("int", 2), ("obj",)]),
    "unwdeep": ("list", None, [("int", 1), ("tuple", [("int", 2), ("dict", None, [[("str", "k"), ("set", [("obj",)])]])])]),
    "unwkey": ("dict", None, [[("obj",), ("int", 1)]]),
    "unwm": ("mlist", [("mint", 1), ("mexpr", [("msym", "f"), ("obj",)])]),
    # probes: observation / fault / re-entrancy while containers are on the guard stack
    "p1": ("list", "L", [("int", 1), ("probe", "P1"), ("int", 2)]),
    "p1deep": ("list", "L", [("tuple", [("dict", None, [[("str", "k"), ("probe", "P1")]])]), ("mlist", [("probe", "P1")])]),
    "p2": ("dict", "L", [[("str", "k"), ("list", None, [("probe", "P2")])]]),
    "p3": ("list", "L", [("probe", "P3"), ("list", None, [("probe", "P3")])]),
    "p4": ("mlist", [("probe", "P4"), ("int", 1)]),
    "p5": ("list", "L", [("set", [("probe", "P5")]), ("probe", "P1")]),
}
NAMES = list(OPERANDS)


class Fault(BaseException):
    pass


class N:
    __slots__ = ("kind", "val", "items", "real", "label", "subs", "ctx")

    def __init__(self, kind):
        self.kind = kind
        self.val = None
        self.items = []
        self.real = None
        self.label = None
        self.subs = {}
        self.ctx = None


class Run:
    def __init__(self, faults, labels):
        self.faults = set(faults)
        self.ticks = 0
        self.fired = []
        self.log = []
        self.labels = labels


CUR = None
_probe_cls = None


def probe_class():
    global _probe_cls
    if _probe_cls is None:
        import hy.models as M

        class HS_Probe(M.Symbol):
            def replace(self, other, recursive=False):
                if CUR is not None and getattr(self, "n", None) is not None:
                    _script_real(PROBES[self.n.val], self.n)
                return M.Symbol.replace(self, other, recursive)
        _probe_cls = HS_Probe
    return _probe_cls


class Unwrappable:
    def __repr__(self):
        return "<unwrappable>"


_LEAF = None


def _leaf_makers():
    global _LEAF
    if _LEAF is None:
        import hy.models as M
        _LEAF = {
            "int": int, "str": str, "bytes": lambda s: s.encode("latin1"), "float": float, "complex": complex,
            "bool": bool, "kw": M.Keyword,
            "mint": M.Integer, "mstr": M.String, "msym": M.Symbol, "mfloat": lambda s: M.Float(float(s)),
            "mbytes": lambda s: M.Bytes(s.encode("latin1")), "mcomplex": lambda s: M.Complex(complex(s)),
        }
    return _LEAF


def build(spec, labels, path, env=None):
    import hy.models as M
    env = {} if env is None else env
    kind = spec[0]
    if kind == "ref":
        return env[spec[1]]
    if kind == "at":
        n = build(spec[1], labels, path, env)
        for i in spec[2]:
            n = n.items[i]
        return n
    n = N(kind)
    n.label = path

    def reg(real):
        n.real = real
        labels.setdefault(id(real), path)
        return n

    if kind == "none":
        return reg(None)
    if kind == "obj":
        return reg(Unwrappable())
    if kind == "probe":
        n.val = spec[1]
        real = probe_class()("p", from_parser=True)
        real.n = n
        n.ctx = (labels, env)
        return reg(real)
    mk = _leaf_makers()
    if kind in mk:
        n.val = spec[1]
        return reg(mk[kind](spec[1]))
    if kind in ("tuple", "set", "mlist", "mtuple", "mset", "mdict", "mexpr"):
        n.items = [build(s, labels, "%s/%d" % (path, i), env) for i, s in enumerate(spec[1])]
        ctor = {"tuple": tuple, "set": set, "mlist": M.List, "mtuple": M.Tuple, "mset": M.Set, "mdict": M.Dict, "mexpr": M.Expression}[kind]
        real = ctor([c.real for c in n.items])
        if kind == "set":
            # iteration order of the real set decides the order of promotion
            by_id = {id(c.real): c for c in n.items}
            n.items = [by_id[id(x)] for x in real]
        return reg(real)
    if kind == "list":
        real = []
        reg(real)
        if spec[1]:
            env[spec[1]] = n
        for i, s in enumerate(spec[2]):
            c = build(s, labels, "%s/%d" % (path, i), env)
            n.items.append(c)
            real.append(c.real)
        return n
    if kind == "dict":
        real = {}
        reg(real)
        if spec[1]:
            env[spec[1]] = n
        for i, (ks, vs) in enumerate(spec[2]):
            k = build(ks, labels, "%s/k%d" % (path, i), env)
            v = build(vs, labels, "%s/v%d" % (path, i), env)
            if k.real in real:                      # equal keys collapse, as in any dict display
                continue
            n.items.extend([k, v])
            real[k.real] = v.real
        return n
    raise ValueError(spec)


def has_kind(spec, kinds):
    if isinstance(spec, (list, tuple)):
        if spec and spec[0] in kinds:
            return True
        return any(has_kind(s, kinds) for s in spec)
    return False


# ---------------------------------------------------------------- real side

def seen_labels(labels):
    import hy.models as M
    return tuple(sorted(labels.get(i, "?") for i in M._seen))


def force_pristine():
    import hy.models as M
    if M._seen:
        k = len(M._seen)
        M._seen.clear()
        return ["hy.models._seen had %d ids" % k]
    return []


def _sub(n, spec, key):
    if key not in n.subs:
        labels, env = n.ctx
        n.subs[key] = build(spec, labels, "%s@%s" % (n.label, key), env)
    return n.subs[key]


def _script_real(script, n, pfx=""):
    import hy
    from hy.errors import HyWrapperError
    run = CUR
    for k, act in enumerate(script):
        a = act[0]
        if a == "tick":
            run.ticks += 1
            run.log.append(("tick", run.ticks, seen_labels(run.labels)))
            if run.ticks in run.faults:
                run.fired.append(run.ticks)
                raise Fault(run.ticks)
        elif a == "as":
            sub = _sub(n, act[1], pfx + str(k))
            try:
                r = hy.as_model(sub.real)
                run.log.append(("as", "ok", seen_labels(run.labels)))
            except HyWrapperError:
                run.log.append(("as", "HyWrapperError", seen_labels(run.labels)))
        elif a == "try":
            try:
                _script_real(act[1], n, "%s%db" % (pfx, k))
            except Fault:
                run.log.append(("caught", seen_labels(run.labels)))


def call(node, labels, faults):
    """hy.as_model(node.real) -> (outcome, run, result-or-None)."""
    global CUR
    import hy
    from hy.errors import HyWrapperError
    prev, CUR = CUR, Run(faults, labels)
    run = CUR
    res = None
    try:
        try:
            res = hy.as_model(node.real)
            out = ("ok",)
        except Fault:
            out = ("raise", "Fault")
        except HyWrapperError as e:
            out = ("raise", "HyWrapperError", str(e)[:16])
        except BaseException as e:
            import re
            out = ("raise", type(e).__name__, re.sub(r"[0-9]+", "#", str(e))[:60])
    finally:
        CUR = prev
    return out, run, res


def dump(m):
    """Canonical, comparable form of a result tree."""
    import hy.models as M
    t = type(m).__name__
    if isinstance(m, M.Sequence):
        extra = []
        if isinstance(m, M.FString):
            extra = [m.brackets]
        return [t, [dump(c) for c in m]] + extra
    if isinstance(m, M.Keyword):
        return [t, m.name]
    if isinstance(m, M.Object):
        if isinstance(m, (M.Float, M.Complex, M.Integer)):
            base = {M.Float: float, M.Complex: complex, M.Integer: int}[[c for c in (M.Float, M.Complex, M.Integer) if isinstance(m, c)][0]]
            return [t, repr(base(m))]
        if isinstance(m, M.String):
            return [t, str(m), m.brackets]
        if isinstance(m, M.Bytes):
            return [t, repr(bytes(m))]
        return [t, str(m)]
    return ["NOT-A-MODEL", type(m).__name__]


def not_models(d):
    if d[0] == "NOT-A-MODEL":
        return [d[1]]
    out = []
    if len(d) > 1 and isinstance(d[1], list):
        for c in d[1]:
            out += not_models(c)
    return out


def same_value(a, b):
    """Python equality, except that NaN equals NaN (also inside containers and
    complex numbers).  Returns (equal, types_equal_everywhere)."""
    ta = type(a) is type(b)
    if isinstance(a, float) and isinstance(b, float) and a != a and b != b:
        return True, ta
    if isinstance(a, complex) and isinstance(b, complex):
        ok = all((x != x and y != y) or x == y for x, y in ((a.real, b.real), (a.imag, b.imag)))
        return ok, ta
    if isinstance(a, (list, tuple)) and type(a) is type(b):
        if len(a) != len(b):
            return False, ta
        eq, ty = True, True
        for x, y in zip(a, b):
            e, t = same_value(x, y)
            eq, ty = eq and e, ty and t
        return eq, ty
    if isinstance(a, dict) and isinstance(b, dict):
        if a.keys() != b.keys():
            return False, ta
        eq, ty = True, ta
        kb = {k: k for k in b}
        for k in a:
            e, t = same_value(a[k], b[k])
            eq, ty = eq and e, ty and t and type(k) is type(kb[k])
        return eq, ty
    if isinstance(a, (set, frozenset)) and isinstance(b, (set, frozenset)):
        ty = ta and sorted(type(x).__name__ for x in a) == sorted(type(x).__name__ for x in b)
        return a == b, ty
    try:
        return bool(a == b), ta
    except Exception:
        return False, ta


# ---------------------------------------------------------------- reference model

class WrapErr(Exception):
    pass


class RefState:
    def __init__(self, faults, labels, hook_live=True):
        self.seen = set()
        self.faults = set(faults)
        self.ticks = 0
        self.fired = []
        self.log = []
        self.labels = labels
        self.hook_live = hook_live

    def labs(self):
        return tuple(sorted(self.labels.get(i, "?") for i in self.seen))


GUARDED = {"list", "tuple", "set", "dict", "mlist", "mtuple", "mset", "mdict", "mexpr"}


def ref_as_model(n, st):
    """The documented behaviour: promote recursively; an object that contains
    itself is an error; an object no literal can represent is an error."""
    oid = id(n.real)
    if oid in st.seen:
        raise WrapErr("self")
    k = n.kind
    if k == "obj":
        raise WrapErr("unwrappable")
    if k == "probe":
        if st.hook_live:
            _script_ref(PROBES[n.val], n, st)
        return
    if k in GUARDED:
        st.seen.add(oid)
        try:
            for c in n.items:
                ref_as_model(c, st)
        finally:
            st.seen.discard(oid)


def _script_ref(script, n, st, pfx=""):
    for k, act in enumerate(script):
        a = act[0]
        if a == "tick":
            st.ticks += 1
            st.log.append(("tick", st.ticks, st.labs()))
            if st.ticks in st.faults:
                st.fired.append(st.ticks)
                raise Fault(st.ticks)
        elif a == "as":
            sub = _sub(n, act[1], pfx + str(k))
            try:
                ref_as_model(sub, st)
                st.log.append(("as", "ok", st.labs()))
            except WrapErr:
                st.log.append(("as", "HyWrapperError", st.labs()))
        elif a == "try":
            try:
                _script_ref(act[1], n, st, "%s%db" % (pfx, k))
            except Fault:
                st.log.append(("caught", st.labs()))


def ref_run(n, labels, faults, hook_live=True):
    st = RefState(faults, labels, hook_live)
    try:
        ref_as_model(n, st)
        out = ("ok",)
    except WrapErr as e:
        out = ("raise", "HyWrapperError", e.args[0])
    except Fault:
        out = ("raise", "Fault")
    assert not st.seen
    return out, st


def operand_spec(x):
    return OPERANDS[x] if isinstance(x, str) else x


def ref_call(x, faults, hook_live=True):
    labels = {}
    out, st = ref_run(build(operand_spec(x), labels, "op"), labels, faults, hook_live)
    return out, st


def fault_sets(x, max_faults, hook_live=True):
    out = [()]
    frontier = [()]
    for _ in range(max_faults):
        nxt = []
        for fs in frontier:
            _, st = ref_call(x, fs, hook_live)
            lo = (fs[-1] + 1) if fs else 1
            for j in range(lo, st.ticks + 1):
                cand = fs + (j,)
                _, st2 = ref_call(x, cand, hook_live)
                if list(st2.fired) == list(cand):
                    nxt.append(cand)
        out.extend(nxt)
        frontier = nxt
    return out


def all_ops(max_faults, hook_live=True):
    return [[name, list(fs)] for name in NAMES for fs in fault_sets(name, max_faults, hook_live)]


def hook_is_live():
    """Does as_model call .replace() on a model it returns unchanged?  (The
    probes' only way in; if a refactoring removes the call the probes go
    silent and the check says so instead of raising a false alarm.)"""
    force_pristine()
    labels = {}
    n = build(("list", "L", [("probe", "P1")]), labels, "h")
    out, run, _ = call(n, labels, ())
    return run.ticks > 0


def fresh_outcome(x, faults):
    force_pristine()
    labels = {}
    node = build(operand_spec(x), labels, "op")
    out, run, res = call(node, labels, faults)
    return {"out": list(out), "dump": dump(res) if out[0] == "ok" else None, "ticks": run.ticks, "fired": run.fired,
            "log": _jl(run.log), "seen_after": list(seen_labels(labels))}


def _jl(log):
    return [[list(y) if isinstance(y, tuple) else y for y in x] for x in log]


# ---------------------------------------------------------------- E1 value space

LEAVES_FULL = [("int", 0), ("int", -7), ("int", 2 ** 70), ("str", ""), ("str", 'a"b\\'), ("bytes", "\x00a\xff"),
               ("float", "1.5"), ("float", "-0.0"), ("float", "inf"), ("float", "nan"), ("complex", "(1+2j)"), ("complex", "nanj"),
               ("bool", True), ("bool", False), ("none",), ("kw", "k"),
               ("mint", 3), ("mstr", "s"), ("msym", "None"), ("mfloat", "2.5"), ("mbytes", "b"), ("mcomplex", "2j"),
               ("mexpr", [("msym", "+"), ("int", 1), ("mint", 2)])]
LEAVES_SMALL = {"quick": [("int", 1), ("str", "a"), ("float", "nan"), ("mint", 3)],
                "thorough": [("int", 1), ("str", "a"), ("none",), ("bool", True), ("kw", "k"), ("float", "nan"), ("mint", 3)]}
KINDS = ["list", "tuple", "set", "dict", "mlist", "mtuple", "mset", "mdict"]
UNHASHABLE = {"list", "dict", "set"}


def hashable(spec):
    if spec[0] in UNHASHABLE:
        return False
    if spec[0] in ("tuple", "mlist", "mtuple", "mset", "mdict", "mexpr"):
        return all(hashable(s) for s in spec[1])
    return True


def has_nan(spec):
    if spec[0] in ("float", "complex") and "nan" in spec[1]:
        return True
    if spec[0] in ("tuple", "mlist", "mtuple", "mset", "mdict", "mexpr"):
        return any(has_nan(s) for s in spec[1])
    return False


def containers(kind, pool, maxlen):
    """Every container of the kind with <= maxlen elements from pool (dict /
    mdict: that many key-value pairs), as a generator.  NaN is kept out of set
    elements and dict keys, whose equality Python defines by identity."""
    import itertools
    if kind == "set":
        elems = [p for p in pool if hashable(p) and not has_nan(p)]
        for n in range(maxlen + 1):
            for c in itertools.combinations(elems, n):
                yield ("set", list(c))
        return
    if kind == "mset":
        pool = [p for p in pool if not has_nan(p)]
    if kind in ("dict", "mdict"):
        keys = [p for p in pool if not has_nan(p) and (kind == "mdict" or hashable(p))]
        for n in range(maxlen + 1):
            for ks in itertools.combinations(keys, n):
                for vs in itertools.product(pool, repeat=n):
                    pairs = [[k, v] for k, v in zip(ks, vs)]
                    yield ("dict", None, pairs) if kind == "dict" else ("mdict", [x for p in pairs for x in p])
        return
    for n in range(maxlen + 1):
        for c in itertools.product(pool, repeat=n):
            yield ("list", None, list(c)) if kind == "list" else (kind, list(c))


def value_space(tier):
    """Deterministic stream of value specs: all leaves; every depth-1 container
    over the full leaf pool; every depth-2 container over the small pool
    (inner containers of <= INNER_LEN[tier] elements)."""
    inner_len = INNER_LEN[tier]
    small = LEAVES_SMALL[tier]
    yield from LEAVES_FULL
    for kind in KINDS:
        yield from containers(kind, LEAVES_FULL, 1 if kind in ("dict", "mdict") else 2)
    inner = list(small)
    for kind in KINDS:
        inner += list(containers(kind, small, 1 if kind in ("dict", "mdict") else inner_len))
    for kind in KINDS:
        for v in containers(kind, inner, 1 if kind in ("dict", "mdict") else 2):
            if any(x[0] in KINDS for x in _children(v)):
                yield v


INNER_LEN = {"quick": 1, "thorough": 2}


def _children(spec):
    if spec[0] in ("list",):
        return spec[2]
    if spec[0] == "dict":
        return [x for p in spec[2] for x in p]
    return spec[1]


def cycle_space():
    """Every self-referential shape: anchor (list / dict value) -> up to two
    intermediate containers of every kind that can hold it -> back edge, with
    the back edge first or last among its siblings, rooted at every node of
    the cycle and at a list wrapped around it."""
    import itertools
    inter = ["list", "tuple", "dict", "mlist", "mtuple", "mset", "mdict", "mexpr"]
    out = []

    def wrap(kind, inner, first, sib):
        items = [inner, sib] if first else [sib, inner]
        if kind == "list":
            return ("list", None, items)
        if kind == "dict":
            return ("dict", None, [[("str", "a"), items[0]], [("str", "b"), items[1]]])
        if kind == "mdict":
            return ("mdict", items)
        if kind == "mexpr":
            return ("mexpr", [("msym", "f")] + items)
        return (kind, items)

    # the sibling of the back edge is a leaf, or a container that is promoted
    # (and leaves the guard again) before / after the back edge is met
    for sib in (("int", 7), ("list", None, [("tuple", [("int", 1)])])):
        for anchor in ("list", "dict"):
            for depth in range(0, 3):
                for chain in itertools.product(inter, repeat=depth):
                    for first in (True, False):
                        body = ("ref", "L")
                        for kind in reversed(chain):
                            body = wrap(kind, body, first, sib)
                        if anchor == "list":
                            root = ("list", "L", [body, sib] if first else [sib, body])
                        else:
                            root = ("dict", "L", [[("str", "x"), body], [("str", "y"), sib]] if first
                                    else [[("str", "y"), sib], [("str", "x"), body]])
                        out.append(root)                                    # rooted at the anchor
                        out.append(("list", None, [("int", 0), root]))      # rooted outside the cycle
                        path = [_idx(anchor, first)]
                        for kind in chain:                                  # rooted at each intermediate node
                            out.append(("at", root, list(path)))
                            path.append(_idx(kind, first))
    return out


def _idx(kind, first):
    """Index (into N.items) of the child that continues towards the back edge."""
    if kind == "dict":
        return 1 if first else 3
    if kind == "mexpr":
        return 1 if first else 2
    return 0 if first else 1


def ref_value(n):
    """The value the promoted tree must evaluate to: the original, with every
    model inside it replaced by what that model denotes."""
    import functools
    import operator
    k = n.kind
    if k in ("int", "str", "bytes", "float", "complex", "bool", "none", "kw"):
        return n.real
    if k == "mint":
        return int(n.real)
    if k == "mstr":
        return str(n.real)
    if k == "mfloat":
        return float(n.real)
    if k == "mbytes":
        return bytes(n.real)
    if k == "mcomplex":
        return complex(n.real)
    if k == "msym":
        return {"None": None, "True": True, "False": False}[str(n.real)]
    if k in ("list", "mlist"):
        return [ref_value(c) for c in n.items]
    if k in ("tuple", "mtuple"):
        return tuple(ref_value(c) for c in n.items)
    if k in ("set", "mset"):
        return {ref_value(c) for c in n.items}
    if k in ("dict", "mdict"):
        return {ref_value(a): ref_value(b) for a, b in zip(n.items[0::2], n.items[1::2])}
    if k == "mexpr":
        assert str(n.items[0].real) == "+"
        return functools.reduce(operator.add, [ref_value(c) for c in n.items[1:]])
    raise ValueError(k)
