"""Reference model of Hy's name mangling, transcribed from the documentation
(docs/syntax.rst, section "Mangling", steps 1-5; docstrings of hy.mangle /
hy.unmangle for dotted names and for "already legal and NFKC-normal names are
returned unchanged").  Nothing here looks at hy/reader/mangling.py.

"Python-legal" is Python's own notion (PEP 3131): ``str.isidentifier`` for a
whole name; a character is legal in a non-initial position iff ``"a" + ch`` is
an identifier.  Reserved words are identifiers in this sense (the property
C32 says "names that are already NFKC-normal identifiers" come back unchanged,
and ``"if".isidentifier()``).

Readings of the documentation that had to be fixed (each forced by another
sentence of the docs / property, none taken from the implementation):

* Step 3 "if the name still isn't Python-legal": tested on the name *with*
  its (ASCII-transliterated) leading underscores, because ``_1`` is a legal,
  NFKC-normal Python identifier and therefore has to come back unchanged
  although ``1`` alone is not legal.
* Step 3 "illegal character ... illegal in that position": since ``hyx_`` is
  prepended first, every character of the name is in a non-initial position,
  so ``3fiddy`` becomes ``hyx_3fiddy``.
* Dotted names (docstring of hy.mangle): a name with at least one dot and at
  least one non-dot character is mangled part by part.  Leading dots (the
  documented ``.foo.bar`` / ``..foo`` dotted-identifier syntax) are kept.
  Names with an empty part elsewhere (``a..b``, ``a.``) are no dotted
  identifiers and no symbols ("they're syntax errors"): UNSPECIFIED.
  A name consisting only of dots is a symbol and goes through steps 1-5.
"""
import unicodedata

DELIM = "X"
PREFIX = "hyx_"
UNSPECIFIED = object()

_us_cache = {}
_legal_cache = {}


def nfkc(s):
    return unicodedata.normalize("NFKC", s)


def is_underscore(ch):
    """Step 1: '_' or any character that NFKC-normalises to '_'."""
    r = _us_cache.get(ch)
    if r is None:
        r = _us_cache[ch] = (unicodedata.normalize("NFKC", ch) == "_")
    return r


def legal_nonfirst(ch):
    r = _legal_cache.get(ch)
    if r is None:
        r = _legal_cache[ch] = ("a" + ch).isidentifier()
    return r


def python_legal(name):
    return name.isidentifier()


def char_escape(ch):
    """XfooX: Unicode name in lowercase, spaces -> '_', hyphens -> 'H';
    'U' + lowercase hex code point if the character has no name."""
    try:
        nm = unicodedata.name(ch)
    except ValueError:
        nm = None
    if nm:
        body = "".join("_" if k == " " else "H" if k == "-" else k.lower() for k in nm)
    else:
        body = "U" + format(ord(ch), "x")
    return DELIM + body + DELIM


def count_leading_underscores(name):
    n = 0
    while n < len(name) and is_underscore(name[n]):
        n += 1
    return n


def mangle_symbol_steps(name):
    """Steps 1-5 on a name that is treated as one symbol.  Returns a dict with
    the result and the intermediate strings (used for classification)."""
    assert name
    # 1. remove leading underscores
    n_lead = count_leading_underscores(name)
    rest = name[n_lead:]
    # 2. hyphens -> underscores, except a hyphen that starts the name at this step
    if rest:
        rest = rest[0] + rest[1:].replace("-", "_")
    # 3. escape if (with the underscores put back) it is not Python-legal
    escaped = False
    segs = None
    if not python_legal("_" * n_lead + rest):
        escaped = True
        out = []
        segs = []          # (is_escape, text) runs, for nfkc_delim_effect
        for i, ch in enumerate(rest):
            if ch == DELIM or (i == 0 and ch == "-") or not legal_nonfirst(ch):
                out.append(char_escape(ch))
                segs.append((True, out[-1]))
            else:
                out.append(ch)
                if segs and not segs[-1][0]:
                    segs[-1] = (False, segs[-1][1] + ch)
                else:
                    segs.append((False, ch))
        rest = PREFIX + "".join(out)
    # 4. leading underscores back, as ASCII
    pre = "_" * n_lead + rest
    # 5. NFKC
    res = unicodedata.normalize("NFKC", pre)
    return {"result": res, "pre_nfkc": pre, "n_lead": n_lead, "escaped": escaped, "segs": segs}


def nfkc_delim_effect(name):
    """Classifies how step 5 (NFKC) interacts with the X...X escapes written in
    step 3, for a name treated as one symbol:
      'n/a'     the name is not escaped
      'none'    normalising the kept characters neither creates a delimiter nor touches an escape
      'gained'  a kept character normalises to text containing the delimiter 'X'
      'lost'    normalisation changes text across an escape boundary (a kept combining
                mark composes with the closing 'X' of the escape before it)
      'gained+lost'
    """
    st = mangle_symbol_steps(name)
    if not st["escaped"]:
        return "n/a"
    gained = any(DELIM in nfkc(t) for esc, t in st["segs"] if not esc)
    safe = "_" * st["n_lead"] + PREFIX + "".join(t if esc else nfkc(t) for esc, t in st["segs"])
    lost = safe != st["result"]
    return "gained+lost" if gained and lost else "gained" if gained else "lost" if lost else "none"


def mangle_symbol(name):
    return mangle_symbol_steps(name)["result"]


def classify(name):
    """'symbol' | 'dotted' | 'unspecified' (see module docstring)."""
    if "." not in name or not name.strip("."):
        return "symbol"
    body = name.lstrip(".")
    if any(p == "" for p in body.split(".")):
        return "unspecified"
    return "dotted"


def mangle(name):
    """Reference result, or UNSPECIFIED."""
    k = classify(name)
    if k == "symbol":
        return mangle_symbol(name)
    if k == "unspecified":
        return UNSPECIFIED
    body = name.lstrip(".")
    return "." * (len(name) - len(body)) + ".".join(mangle_symbol(p) for p in body.split("."))


def looks_premangled(name):
    """C33's excluded class: the part after the leading underscores starts
    with hyx_.  Decided on the name as written AND on its NFKC form (Python
    considers NFKC-equal spellings the same identifier; docs of hy.unmangle),
    with 'leading underscores' in both the ASCII and the step-1 sense."""
    cands = {name.lstrip("_"), name[count_leading_underscores(name):]}
    n = unicodedata.normalize("NFKC", name)
    cands |= {n.lstrip("_"), n[count_leading_underscores(n):]}
    return any(c.startswith(PREFIX) for c in cands)
