"""Reference model for C07: which binding `nonlocal` / `global` reach.

A program is a linear nesting  M > L1 > ... > Ld  (M = module; each Li a
function `F`, a class `C` or a `let` `T`).  For every pool name each level has
an action:
   M:      none | def (setv v K before L1) | late (setv v K after L1's definition, before its call if L1 is a function)
   F, C:   none | def (setv v K) | nonlocal ((nonlocal v) then (setv v K)) | global ((global v) then (setv v K))
   T:      none | def (the let binds v) | nonlocal | global   (declaration + assignment inside the let body)
Every level ends with a guarded, logged read of every pool name, AFTER the inner
level has been defined and run, so the reads show which binding every
assignment reached.  Variant `use`: one level that declares a name first reads
or assigns it (declare-after-use).

Semantics implemented (sources): Python's scoping for functions and classes
(`global`, `nonlocal`, free variables skip class scopes); api.rst `nonlocal`
("global statement for any names originally defined in the global scope, and a
nonlocal statement for all other names"), `global`, `let` (a let binding is a
fresh lexically scoped variable living in the surrounding Python scope);
tests/native_tests/let.hy test-let-bound-nonlocal / test-let-bound-global
(a declaration inside a let affects the whole enclosing Python scope; a nested
function's nonlocal reaches an outer let binding; global ignores let bindings
of other scopes) and the property statement (declare-after-use is a Hy syntax
error; no binding is a SyntaxError).
"""
import itertools

UNBOUND = "U"
ACTS_M = ("none", "def", "late")
ACTS_L = ("none", "def", "nonlocal", "global")
KINDS = ("F", "C", "T")


class Unspecified(Exception):
    pass


class Err(Exception):
    """Expected compile-time SyntaxError.  hy_stage: the property requires it to be raised by Hy itself."""
    def __init__(self, why, hy_stage):
        Exception.__init__(self, why)
        self.why, self.hy_stage = why, hy_stage


def K(i, vi):
    return 100 + 10 * i + vi


# ---------------------------------------------------------------- space
def family_size(npool, d):
    return (len(KINDS) ** d) * (len(ACTS_L) ** (npool * d)) * (len(ACTS_M) ** npool)


def decode(idx, npool, d):
    """index -> (kinds 'M'+..., acts[level][name])"""
    acts = []
    m = []
    for _ in range(npool):
        idx, r = divmod(idx, len(ACTS_M))
        m.append(ACTS_M[r])
    acts.append(tuple(m))
    kinds = "M"
    for _ in range(d):
        idx, r = divmod(idx, len(KINDS))
        kinds += KINDS[r]
        a = []
        for _ in range(npool):
            idx, r = divmod(idx, len(ACTS_L))
            a.append(ACTS_L[r])
        acts.append(tuple(a))
    return kinds, tuple(acts)


def variants(kinds, acts):
    """None (no extra use) + every (level, name index, 'read'|'assign') where that level declares that name."""
    yield None
    for i in range(1, len(kinds)):
        for vi, a in enumerate(acts[i]):
            if a in ("nonlocal", "global"):
                yield (i, vi, "read")
                yield (i, vi, "assign")


# ---------------------------------------------------------------- rendering
def render(pool, kinds, acts, use, guard=None):
    """guard: set of read sites to write as (log i (try v (except [NameError] "U"))); None = all of them."""
    d = len(kinds) - 1

    def _read(site, v):
        if guard is None or site in guard:
            return f'(log {site} (try {v} (except [NameError] "{UNBOUND}")))'
        return f"(log {site} {v})"

    def level(i):
        a = acts[i]
        parts = []
        if use and use[0] == i:
            v = pool[use[1]]
            parts.append(_read(900 + i, v) if use[2] == "read" else f"(setv {v} {950 + i})")
        nl = [pool[vi] for vi, x in enumerate(a) if x == "nonlocal"]
        gl = [pool[vi] for vi, x in enumerate(a) if x == "global"]
        if nl:
            parts.append("(nonlocal " + " ".join(nl) + ")")
        if gl:
            parts.append("(global " + " ".join(gl) + ")")
        for vi, x in enumerate(a):
            if x in ("nonlocal", "global") or (x == "def" and kinds[i] != "T"):
                parts.append(f"(setv {pool[vi]} {K(i, vi)})")
        if i < d:
            parts.append(level(i + 1))
        for vi, v in enumerate(pool):
            parts.append(_read(10 * i + vi, v))
        body = " ".join(parts)
        late = ""
        if i == 1:
            late = "".join(f" (setv {pool[vi]} {K(0, vi) + 5})" for vi, x in enumerate(acts[0]) if x == "late")
        if kinds[i] == "F":
            return f"(defn f{i} [] {body} None){late} (f{i})"
        if kinds[i] == "C":
            return f"(defclass C{i} [] {body}){late}"
        binds = " ".join(f"{pool[vi]} {K(i, vi)}" for vi, x in enumerate(a) if x == "def")
        return f"(let [{binds}] {body}){late}"

    parts = [f"(setv {pool[vi]} {K(0, vi)})" for vi, x in enumerate(acts[0]) if x == "def"]
    if d:
        parts.append(level(1))
    else:
        parts += [f"(setv {pool[vi]} {K(0, vi) + 5})" for vi, x in enumerate(acts[0]) if x == "late"]
    for vi, v in enumerate(pool):
        parts.append(_read(vi, v))
    return "\n".join(parts)


# ---------------------------------------------------------------- static resolution
class Model:
    def __init__(self, pool, kinds, acts, use):
        self.pool, self.kinds, self.acts, self.use = pool, kinds, acts, use
        self.d = len(kinds) - 1
        self.scope = []             # scope[i] = index of the Python-scope level of level i
        for i, k in enumerate(kinds):
            self.scope.append(self.scope[i - 1] if k == "T" else i)
        self.declared = {}          # (p, vi) -> "global" | ("nonlocal", target var)
        self.unspec = None
        self.err = None
        self._analyse()

    def _flag(self, why):
        if self.unspec is None:
            self.unspec = why

    def _error(self, why, hy_stage):
        if self.err is None:
            self.err = Err(why, hy_stage)
        elif hy_stage and not self.err.hy_stage:
            self.err = Err(self.err.why + "; " + why, True)

    def _analyse(self):
        kinds, acts, d = self.kinds, self.acts, self.d
        # U5: a let whose Python scope is a class, with a function or class nested deeper
        for i in range(1, d + 1):
            if kinds[i] == "T" and kinds[self.scope[i]] == "C" and any(k != "T" for k in kinds[i + 1:]):
                self._flag("let in a class body referenced from a nested function/class scope")
        # text order inside every Python scope: own statements, then the chain of let levels
        for p in range(0, d + 1):
            if kinds[p] == "T":
                continue
            chain = [p] + [t for t in range(p + 1, d + 1) if self.scope[t] == p]
            for vi in range(len(self.pool)):
                used = (p == 0 and acts[0][vi] == "def")      # the module's (setv v K) precedes L1
                letbound = False
                for i in chain:
                    if i == 0:
                        continue
                    a = acts[i][vi]
                    if kinds[i] == "T" and a == "def":
                        letbound = True
                    if self.use and self.use[0] == i and self.use[1] == vi and not letbound:
                        used = True
                    if a in ("nonlocal", "global"):
                        if letbound:
                            self._flag("declaration names a let binding of the same Python scope")
                        elif used:
                            self._error(f"{self.pool[vi]} declared {a} after use at level {i}", kinds[p] in "FC")
                        if p == 0 and a == "nonlocal":
                            self._flag("nonlocal at module scope (inside a module-level let)")
                        self.declared.setdefault((p, vi), (a, i))
                        used = True
                    elif a == "def" and kinds[i] != "T":
                        used = True
        # resolve nonlocal targets
        for (p, vi), (a, lvl) in list(self.declared.items()):
            if a == "global":
                self.declared[(p, vi)] = ("global", ("mod", vi))
            else:
                self.declared[(p, vi)] = ("nonlocal", self._nonlocal_target(p, vi))

    def _local_def(self, j, vi):
        """Does Python-scope level j bind name vi as its own variable (plain assignment)?"""
        return self.kinds[j] in "FC" and self.acts[j][vi] == "def"

    def _nonlocal_target(self, p, vi):
        kinds, acts = self.kinds, self.acts
        if p == 0:
            return ("mod", vi)
        for j in range(p - 1, -1, -1):
            k = kinds[j]
            if k == "T":
                if acts[j][vi] == "def":
                    return ("let", j, vi)
                continue
            if k == "M":
                if acts[0][vi] in ("def", "late"):
                    return ("mod", vi)
                if any(acts[i][vi] == "global" for i in range(1, self.d + 1)):
                    self._flag("nonlocal reaches a module variable that only a `global` assignment creates")
                    return ("mod", vi)
                self._error(f"no binding for nonlocal {self.pool[vi]}", False)
                return ("mod", vi)
            dec = self.declared.get((j, vi))
            if dec is not None:
                kind = dec[0]
                if kind == "global":
                    self._flag("nonlocal whose nearest enclosing scope declares the name global")
                    return ("mod", vi)
                continue                    # nonlocal there: passes through
            if self._local_def(j, vi):
                if k == "C":
                    self._flag("nonlocal whose nearest enclosing definition is a class variable")
                return ("loc", j, vi)
        raise AssertionError

    # ---- references
    def resolve(self, i, vi):
        """Variable a plain reference to name vi at level i denotes."""
        p = self.scope[i]
        for t in range(i, p, -1):
            if self.acts[t][vi] == "def":        # t is a let level of scope p
                return ("let", t, vi)
        dec = self.declared.get((p, vi))
        if dec is not None:
            return dec[1]
        if p == 0:
            return ("mod", vi)
        if self._local_def(p, vi):
            return ("loc", p, vi)
        return self._free(p, vi)

    def _free(self, p, vi):
        for j in range(p - 1, -1, -1):
            k = self.kinds[j]
            if k == "T":
                if self.acts[j][vi] == "def":
                    return ("let", j, vi)
            elif k == "F":
                dec = self.declared.get((j, vi))
                if dec is not None:
                    if dec[0] == "global":
                        return ("mod", vi)
                    continue
                if self._local_def(j, vi):
                    return ("loc", j, vi)
            elif k == "M":
                return ("mod", vi)
        raise AssertionError

    # ---- execution (every level runs exactly once)
    def run(self):
        store, trace = {}, []
        pool, kinds, acts, d = self.pool, self.kinds, self.acts, self.d

        def level(i):
            a = acts[i]
            for vi, x in enumerate(a):
                if x == "def" and kinds[i] == "T":
                    store[("let", i, vi)] = K(i, vi)
            for vi, x in enumerate(a):
                if x in ("nonlocal", "global") or (x == "def" and kinds[i] != "T"):
                    store[self.resolve(i, vi)] = K(i, vi)
            if i < d:
                if i + 1 == 1:
                    pass
                level(i + 1)
            for vi in range(len(pool)):
                trace.append((10 * i + vi, repr(store[self.resolve(i, vi)]) if self.resolve(i, vi) in store else UNBOUND))

        for vi, x in enumerate(acts[0]):
            if x == "def":
                store[("mod", vi)] = K(0, vi)
        late = [vi for vi, x in enumerate(acts[0]) if x == "late"]
        if d:
            if kinds[1] == "F":
                for vi in late:
                    store[("mod", vi)] = K(0, vi) + 5
                level(1)
            else:
                level(1)
                for vi in late:
                    store[("mod", vi)] = K(0, vi) + 5
        else:
            for vi in late:
                store[("mod", vi)] = K(0, vi) + 5
        for vi in range(len(pool)):
            trace.append((vi, repr(store[("mod", vi)]) if ("mod", vi) in store else UNBOUND))
        g = {pool[vi]: repr(v) for (kind, *rest), v in store.items() if kind == "mod" for vi in [rest[0]]}
        for i in range(1, d + 1):
            if self.scope[i - 1] == 0:          # defined in the module's Python scope (possibly inside module-level lets)
                if kinds[i] == "F":
                    g[f"f{i}"] = "<fn>"
                elif kinds[i] == "C":
                    g[f"C{i}"] = "<class>"
        return trace, g


def run_model(pool, kinds, acts, use):
    """-> dict(unspecified, error=(why, hy_stage)|None, trace, globals)"""
    m = Model(pool, kinds, acts, use)
    out = dict(unspecified=m.unspec, error=None, trace=None, globals=None)
    if m.err is not None:
        out["error"] = (m.err.why, m.err.hy_stage)
        return out
    out["trace"], out["globals"] = m.run()
    return out
