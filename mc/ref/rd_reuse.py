"""Reader reuse (one HyReader object reading several sources, as the REPL does): every ordered pair
(first source, second source) from two small alphabets; the second read on the reused reader is
compared with the same read on a fresh reader."""

FIRST = [
    "", "a", "(a b)", "(a b) c", "a\n", "(print #foo\n  1)", "(foo 1.a\n)", "1.a", "a.b.", "(x.)", "(print f\"a}", "(foo #", "#", "#foo x",
    "(", "[1 2 \"x", "'", "\"abc", "#[[ab", "f\"{x ", "f\"{x !", ")", "(a))", "a ; c", "a ;c\n", "#_", "#_ a", "#* ", "~@", "(a\r\n", "a\r\nb",
    "{1}", ":k.a", "b\"\u00e9\"", "\"\\q\"", "f\"}\"", "#[f[{x]f]", "(a . b)", "a b c", "(defn f [x] \"doc\nstring\"\n  (+ x 1))\n[f :k]",
]
SECOND = [
    "(", "(foo", "[1 2 \"x", "'", "(x)\n[y]", "(print 1", "a b", "(a.b)\n(c)", "", "a", "(print \"hello\"", "f\"{x}\" y", "#[[a]] b", "(a\n  (b\n    c))",
    ")", "1.a", "#q", "\"s\" :k 1.5",
]


def _outcome(forms_iter):
    import hy
    from hy.reader.exceptions import LexException, PrematureEndOfInput
    from mc.ref import rd_modelkey
    try:
        forms = list(forms_iter)
    except PrematureEndOfInput:
        return ("PrematureEndOfInput",)
    except LexException as e:
        return ("LexException",)
    except BaseException as e:
        return ("OTHER", type(e).__name__, str(e)[:80])
    return ("models", [_poskey(f) for f in forms])


def _poskey(m):
    from hy.models import Sequence, FString, FComponent
    pos = (getattr(m, "start_line", None), getattr(m, "start_column", None), getattr(m, "end_line", None), getattr(m, "end_column", None))
    kids = [_poskey(k) for k in m] if isinstance(m, (Sequence, FString, FComponent)) else None
    return [type(m).__name__, repr(m) if kids is None else None, list(pos), kids]


def run_pair(t1, t2, how):
    """how: 'many' = hy.read_many(t1) fully consumed; 'one' = hy.read(t1) (one form).  Returns (fresh, reused) outcomes of reading t2."""
    import hy
    r = hy.HyReader()
    try:
        if how == "many":
            list(hy.read_many(t1, reader=r))
        else:
            hy.read(t1, reader=r)
    except BaseException:
        pass
    reused = _outcome(hy.read_many(t2, reader=r))
    fresh = _outcome(hy.read_many(t2, reader=hy.HyReader()))
    return fresh, reused


def pairs():
    for t1 in FIRST:
        for t2 in SECOND:
            for how in ("many", "one"):
                yield t1, t2, how
