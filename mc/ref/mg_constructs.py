"""C34: the name alphabet, the construct templates and their oracle.

A *template* is a Hy program with two name holes: ``s`` (the name a construct
binds or writes through) and ``t`` (the name a construct reads through).  The
oracle is the property itself: every construct refers to the Python identifier
``hy.mangle(name)``, so the binding made through ``s`` is visible through ``t``
exactly when ``hy.mangle(s) == hy.mangle(t)``, and Python-level reflection
(module globals, ``vars(obj)``, ``co_varnames``, ``**kwargs`` keys,
``_hy_macros``, ``__annotations__``, ``__all__`` ...) finds it under exactly
``hy.mangle(s)``.

Unary templates (``unary=True``) only have the ``s`` hole and are run once per
name; binary ones are run on every ordered pair (s, t), the diagonal included.

Names of the harness itself all start with ``zz`` and are not in the alphabet.
"""
import sys
import types

UNB = "unbound"

# --------------------------------------------------------------- alphabets
NAMES_QUICK = [
    "foo", "FOO",
    "foo-bar", "foo_bar",                       # equal manglings
    "foo-", "foo_",                             # equal manglings (trailing)
    "-foo", "--foo",                            # leading hyphen(s): hyx_XhyphenHminusX...
    "_foo", "_-foo", "\ufe33foo",               # leading underscore; U+FE33 normalises to '_' (== _foo)
    "foo?", "hyx_fooXquestion_markX",           # escape and its already-mangled spelling (equal)
    "foo!", "*foo*", "<=>", "$foo", "a+b",      # punctuation
    "\u2618", "\U0001f991", "hyx_XsquidX",      # shamrock; squid and its mangled spelling (equal)
    "\ufb01", "fi",                             # ligature fi normalises to 'fi' (equal)
    "\u00e9", "e\u0301",                        # composed / decomposed e-acute (equal under NFKC)
    "\u03b1",                                   # alpha: legal non-ASCII letter
    "fooX", "X?",                               # the delimiter itself
    "3fiddy",                                   # illegal first character only
    "class",                                    # Python reserved word
]
NAMES_EXTRA = [
    "a-b-c", "_foo-bar", "_foo_bar", "__foo__", "pass", "def",
    "-_foo",                                    # == --foo
    "is-foo?", "foo->bar", "->>", "&rest", "foo%", "a=b", "x1", "x-1", "1-x",
    "\U0001d525\U0001d522\U0001d529\U0001d529\U0001d52c", "hello",   # fraktur hello == hello
    "\uff46oo",                                 # fullwidth f + oo == foo
    "\u2169", "X",                              # roman numeral ten normalises to X
    "-\u2169",                                  # F14-style name: NFKC creates a delimiter
    "caf\u00e9", "na\u00efve", "\u65e5\u672c",
    "_1", "__", "foo--bar", "foo__bar", "green\u2618",
]

BOUNDS = {
    "quick": dict(names=NAMES_QUICK),
    "thorough": dict(names=NAMES_QUICK + NAMES_EXTRA),
}


def names(tier):
    return BOUNDS[tier]["names"]


# --------------------------------------------------------------- templates
def rd(t):
    return '(try %s (except [NameError] "unbound"))' % t


def call(t):
    return '(try (%s) (except [NameError] "unbound"))' % t


class T:
    def __init__(self, name, prog, res, new=None, unary=False, setup=None, extra=None, cleanup=None, doc="",
                 applicable=None):
        self.name = name
        self.prog = prog          # (s, t) -> Hy text
        self.res = res            # (ms, mt, eq) -> expected zzres   (or ("error", class-name))
        self.new = new            # (ms, mt) -> expected set of new user globals, or None (not judged)
        self.unary = unary
        self.setup = setup        # (ms, mt, all_mangled) -> presets dict; may touch sys.modules
        self.extra = extra        # (mod, ms, mt, eq) -> list of (label, observed, expected)
        self.cleanup = cleanup
        self.doc = doc
        self.applicable = applicable   # (s, t) -> bool: does the text mean the construct at all for these names?


def _reads_as_dotted(text, parts):
    """True iff `text` reads as the one dotted identifier (. parts...)."""
    import hy
    import hy.models as M
    try:
        f = list(hy.read_many(text))
    except Exception:
        return False
    return (len(f) == 1 and type(f[0]) is M.Expression and len(f[0]) == len(parts) + 1
            and all(type(x) is M.Symbol for x in f[0]) and [str(x) for x in f[0]] == ["."] + parts)


def _ns(**kw):
    return types.SimpleNamespace(**kw)


def _fake_module(name, attrs):
    m = types.ModuleType(name)
    m.__dict__.update(attrs)
    return m


def _setup_fake_objects(ms, mt, allm):
    sys.modules["zzfake"] = _fake_module("zzfake", {m: "val:" + m for m in allm})
    return {}


def _cleanup_fake_objects(ms, mt):
    sys.modules.pop("zzfake", None)


def _setup_fake_macros(ms, mt, allm):
    def mk(m):
        def zzmacro():
            return "val:" + m
        return zzmacro
    sys.modules["zzfakemac"] = _fake_module("zzfakemac", {"_hy_macros": {m: mk(m) for m in allm}})
    return {}


def _cleanup_fake_macros(ms, mt):
    sys.modules.pop("zzfakemac", None)


def _setup_named_module(ms, mt, allm):
    if ms in sys.modules:
        raise RuntimeError("harness: a real module is called " + ms)
    sys.modules[ms] = _fake_module(ms, {"zzid": "mod:" + ms})
    return {}


def _cleanup_named_module(ms, mt):
    sys.modules.pop(ms, None)


def _one(ms, mt):
    return {ms}


def _both(ms, mt):
    return {ms, mt}


def _none(ms, mt):
    return set()


PI = 3.141592653589793

TEMPLATES = [
    # ---- module-level variables
    T("setv", lambda s, t: "(setv %s 1)\n(setv zzres %s)" % (s, rd(t)),
      lambda ms, mt, eq: 1 if eq else UNB, _one),
    T("setv-rebind", lambda s, t: "(setv %s 1)\n(setv %s 2)\n(setv zzres %s)" % (s, t, s),
      lambda ms, mt, eq: 2 if eq else 1, _both),
    T("python-binds-symbol-reads", lambda s, t: "(setv zzres %s)" % rd(t),
      lambda ms, mt, eq: 5 if eq else UNB, _none,
      setup=lambda ms, mt, allm: {ms: 5}),
    T("setx", lambda s, t: "(setv zzv (setx %s 1))\n(setv zzres %s)" % (s, rd(t)),
      lambda ms, mt, eq: 1 if eq else UNB, _one),
    T("for", lambda s, t: "(for [%s [1]])\n(setv zzres %s)" % (s, rd(t)),
      lambda ms, mt, eq: 1 if eq else UNB, _one),
    T("lfor", lambda s, t: "(setv zzres (lfor %s [1] %s))" % (s, rd(t)),
      lambda ms, mt, eq: [1 if eq else UNB], None),
    T("with", lambda s, t: "(with [%s zzcm] (setv zzres %s))" % (s, rd(t)),
      lambda ms, mt, eq: 1 if eq else UNB, _one,
      setup=lambda ms, mt, allm: {"zzcm": __import__("contextlib").nullcontext(1)}),
    T("del", lambda s, t: "(setv %s 1)\n(try (del %s) (except [NameError] None))\n(setv zzres %s)" % (s, t, rd(s)),
      lambda ms, mt, eq: UNB if eq else 1, lambda ms, mt: set() if ms == mt else {ms}),
    T("annotated-setv", lambda s, t: "(setv #^ int %s 1)\n(setv zzres (sorted (.keys __annotations__)))" % s,
      lambda ms, mt, eq: [ms], _one, unary=True),
    # ---- functions and classes
    T("defn", lambda s, t: "(defn %s [] 1)\n(setv zzres %s)" % (s, call(t)),
      lambda ms, mt, eq: 1 if eq else UNB, _one,
      extra=lambda mod, ms, mt, eq: [("function.__name__", getattr(mod.__dict__.get(ms), "__name__", None), ms)]),
    T("defclass", lambda s, t: '(defclass %s [])\n(setv zzres (try (. %s __name__) (except [NameError] "unbound")))' % (s, t),
      lambda ms, mt, eq: ms if eq else UNB, _one),
    T("deftype", lambda s, t: '(deftype %s int)\n(setv zzres (try (. %s __name__) (except [NameError] "unbound")))' % (s, t),
      lambda ms, mt, eq: ms if eq else UNB, _one),
    # ---- parameters and keyword arguments
    T("param+keyword-arg", lambda s, t: '(defn zzf [%s] %s)\n(setv zzres (try (zzf :%s 1) (except [TypeError] "TypeError")))' % (s, s, t),
      lambda ms, mt, eq: 1 if eq else "TypeError", _none,
      extra=lambda mod, ms, mt, eq: [("co_varnames", list(mod.zzf.__code__.co_varnames), [ms])]),
    T("kwonly-param+keyword-arg", lambda s, t: '(defn zzf [* [%s 3]] %s)\n(setv zzres (try (zzf :%s 1) (except [TypeError] "TypeError")))' % (s, s, t),
      lambda ms, mt, eq: 1 if eq else "TypeError", _none),
    T("param-local-read", lambda s, t: "(defn zzf [%s] %s)\n(setv zzres (zzf 1))" % (s, rd(t)),
      lambda ms, mt, eq: 1 if eq else UNB, _none),
    T("fn-param-local-read", lambda s, t: "(setv zzres ((fn [%s] %s) 1))" % (s, rd(t)),
      lambda ms, mt, eq: 1 if eq else UNB, _none),
    T("star-param", lambda s, t: "(defn zzf [#* %s] %s)\n(setv zzres (zzf 1))" % (s, rd(t)),
      lambda ms, mt, eq: [1] if eq else UNB, _none),
    T("starstar-param", lambda s, t: "(defn zzf [#** %s] %s)\n(setv zzres (zzf :zzq 1))" % (s, rd(t)),
      lambda ms, mt, eq: {"zzq": 1} if eq else UNB, _none),
    T("kwargs-keys", lambda s, t: "(defn zzf [#** zzkw] (sorted (.keys zzkw)))\n(setv zzres (zzf :%s 1))" % s,
      lambda ms, mt, eq: [ms], _none, unary=True),
    T("two-keyword-args", lambda s, t: "(defn zzf [#** zzkw] (sorted (.keys zzkw)))\n(setv zzres (zzf :%s 1 :%s 2))" % (s, t),
      lambda ms, mt, eq: ("error", "SyntaxError") if eq else sorted([ms, mt]), None,
      doc="Python rejects a repeated keyword argument, so the call compiles iff the two identifiers differ"),
    T("dict-keyword-args->keyword-lookup", lambda s, t: '(setv zzd (dict :%s 1))\n(setv zzres (try (:%s zzd) (except [KeyError] "KeyError")))' % (s, t),
      lambda ms, mt, eq: 1 if eq else "KeyError", _none,
      extra=lambda mod, ms, mt, eq: [("dict keys", sorted(mod.zzd), [ms])]),
    T("python-dict->keyword-lookup", lambda s, t: '(setv zzres (try (:%s zzd) (except [KeyError] "KeyError")))' % t,
      lambda ms, mt, eq: 1 if eq else "KeyError", _none,
      setup=lambda ms, mt, allm: {"zzd": {ms: 1}}),
    T("python-dict->keyword-object-call", lambda s, t: '(setv zzk :%s)\n(setv zzres (try (zzk zzd) (except [KeyError] "KeyError")))' % t,
      lambda ms, mt, eq: 1 if eq else "KeyError", _none,
      setup=lambda ms, mt, allm: {"zzd": {ms: 1}},
      doc="(:t d) with a literal keyword is compiled to a subscript; calling a keyword *object* goes through Keyword.__call__"),
    T("param-annotation", lambda s, t: "(defn zzf [#^ int %s])\n(setv zzres (sorted (.keys zzf.__annotations__)))" % s,
      lambda ms, mt, eq: [ms], _none, unary=True),
    # ---- attributes
    T("dotted-setv->dot-form", lambda s, t: '(setv zzo.%s 1)\n(setv zzres (try (. zzo %s) (except [AttributeError] "AttributeError")))' % (s, t),
      lambda ms, mt, eq: 1 if eq else "AttributeError", _none,
      setup=lambda ms, mt, allm: {"zzo": _ns()},
      applicable=lambda s, t: _reads_as_dotted("zzo." + s, ["zzo", s]),
      extra=lambda mod, ms, mt, eq: [("vars(obj)", sorted(vars(mod.zzo)), [ms])]),
    T("dot-form-setv->dotted", lambda s, t: '(setv (. zzo %s) 1)\n(setv zzres (try zzo.%s (except [AttributeError] "AttributeError")))' % (s, t),
      lambda ms, mt, eq: 1 if eq else "AttributeError", _none,
      setup=lambda ms, mt, allm: {"zzo": _ns()},
      applicable=lambda s, t: _reads_as_dotted("zzo." + t, ["zzo", t]),
      extra=lambda mod, ms, mt, eq: [("vars(obj)", sorted(vars(mod.zzo)), [ms])]),
    T("python-setattr->method-call", lambda s, t: '(setv zzres (try (.%s zzo) (except [AttributeError] "AttributeError")))' % t,
      lambda ms, mt, eq: 1 if eq else "AttributeError", _none,
      setup=lambda ms, mt, allm: {"zzo": _ns(**{ms: lambda: 1})},
      applicable=lambda s, t: _reads_as_dotted("." + t, ["None", t]),
      doc="'._1' reads as the float 0.1, not as a dotted identifier: such names are outside this construct"),
    T("python-setattr->dotted-call", lambda s, t: '(setv zzres (try (zzo.%s) (except [AttributeError] "AttributeError")))' % t,
      lambda ms, mt, eq: 1 if eq else "AttributeError", _none,
      setup=lambda ms, mt, allm: {"zzo": _ns(**{ms: lambda: 1})},
      applicable=lambda s, t: _reads_as_dotted("zzo." + t, ["zzo", t])),
    T("python-setattr->dot-form-call", lambda s, t: '(setv zzres (try (. zzo (%s)) (except [AttributeError] "AttributeError")))' % t,
      lambda ms, mt, eq: 1 if eq else "AttributeError", _none,
      setup=lambda ms, mt, allm: {"zzo": _ns(**{ms: lambda: 1})}),
    # ---- imports
    T("import-as", lambda s, t: '(import math :as %s)\n(setv zzres (try (. %s pi) (except [NameError] "unbound")))' % (s, t),
      lambda ms, mt, eq: PI if eq else UNB, _one),
    T("from-import-as", lambda s, t: "(import math [pi :as %s])\n(setv zzres %s)" % (s, rd(t)),
      lambda ms, mt, eq: PI if eq else UNB, _one),
    T("from-import-name", lambda s, t: "(import zzfake [%s])\n(setv zzres %s)" % (s, rd(t)),
      lambda ms, mt, eq: "val:" + ms if eq else UNB, _one,
      setup=_setup_fake_objects, cleanup=_cleanup_fake_objects),
    T("from-import-name-as", lambda s, t: "(import zzfake [%s :as zzq])\n(setv zzres zzq)" % s,
      lambda ms, mt, eq: "val:" + ms, _none, unary=True,
      setup=_setup_fake_objects, cleanup=_cleanup_fake_objects),
    T("import-module", lambda s, t: '(import %s)\n(setv zzres (try (. %s zzid) (except [NameError] "unbound")))' % (s, t),
      lambda ms, mt, eq: "mod:" + ms if eq else UNB, _one,
      setup=_setup_named_module, cleanup=_cleanup_named_module),
    # ---- macros
    T("defmacro+call", lambda s, t: "(defmacro %s [] 1)\n(setv zzres %s)" % (s, call(t)),
      lambda ms, mt, eq: 1 if eq else UNB, _none,
      extra=lambda mod, ms, mt, eq: [("_hy_macros keys", sorted(mod.__dict__.get("_hy_macros", {})), [ms])]),
    T("local-defmacro+call", lambda s, t: "(defn zzf [] (defmacro %s [] 1) %s)\n(setv zzres (zzf))" % (s, call(t)),
      lambda ms, mt, eq: 1 if eq else UNB, _none),
    T("require-name", lambda s, t: "(require zzfakemac [%s])\n(setv zzres %s)" % (s, call(t)),
      lambda ms, mt, eq: "val:" + ms if eq else UNB, _none,
      setup=_setup_fake_macros, cleanup=_cleanup_fake_macros,
      extra=lambda mod, ms, mt, eq: [("_hy_macros keys", sorted(mod.__dict__.get("_hy_macros", {})), [ms])]),
    T("require-as", lambda s, t: "(require zzfakemac [foo :as %s])\n(setv zzres %s)" % (s, call(t)),
      lambda ms, mt, eq: "val:foo" if eq else UNB, _none,
      setup=_setup_fake_macros, cleanup=_cleanup_fake_macros,
      extra=lambda mod, ms, mt, eq: [("_hy_macros keys", sorted(mod.__dict__.get("_hy_macros", {})), [ms])]),
    T("export", lambda s, t: "(export :objects [%s] :macros [%s])\n(setv zzres [__all__ _hy_export_macros])" % (s, s),
      lambda ms, mt, eq: [[ms], [ms]], None, unary=True),
    # ---- global / nonlocal
    T("global", lambda s, t: "(setv %s 1)\n(defn zzf [] (global %s) (setv %s 2))\n(zzf)\n(setv zzres %s)" % (s, t, t, s),
      lambda ms, mt, eq: 2 if eq else 1, _both),
    T("nonlocal", lambda s, t: ("(defn zzf []\n  (setv %s 1)\n  (setv %s 3)\n  (defn zzg [] (nonlocal %s) (setv %s 2))\n  (zzg)\n"
                                '  (dfor [k v] (.items (locals)) :if (!= k "zzg") k v))\n(setv zzres (zzf))') % (s, t, t, t),
      lambda ms, mt, eq: {ms: 2} if eq else {ms: 1, mt: 2}, _none),
    # ---- let
    T("let-read", lambda s, t: "(setv zzres (let [%s 1] %s))" % (s, rd(t)),
      lambda ms, mt, eq: 1 if eq else UNB, None),
    T("let-shadow", lambda s, t: "(setv zzres (let [%s 1] (let [%s 2] %s)))" % (s, t, s),
      lambda ms, mt, eq: 2 if eq else 1, None),
    T("let-setv", lambda s, t: "(setv zzres (let [%s 1] (setv %s 2) %s))" % (s, t, s),
      lambda ms, mt, eq: 2 if eq else 1, None),
    T("let-then-from-import", lambda s, t: '(setv zzres (let [%s "LET"] (import zzfake [%s]) %s))' % (t, s, t),
      lambda ms, mt, eq: "val:" + ms if eq else "LET", _one,
      setup=_setup_fake_objects, cleanup=_cleanup_fake_objects,
      doc="api.rst on let: assignments via import are hoisted to normal Python scope, so after the import a let-bound name with the same "
          "mangling means the imported Python variable (as pinned by tests/native_tests/let.hy for defn/defclass/import)"),
    T("let-then-defn", lambda s, t: '(setv zzres (let [%s "LET"] (defn %s [] 1) (if (callable %s) "FN" %s)))' % (t, s, t, t),
      lambda ms, mt, eq: "FN" if eq else "LET", _one),
    # ---- except
    T("except-variable", lambda s, t: ("(try (raise (ValueError 7))\n  (except [%s ValueError]\n"
                                       '    (setv zzres (try (get (. %s args) 0) (except [NameError] "unbound")))))') % (s, t),
      lambda ms, mt, eq: 7 if eq else UNB, None,
      doc="the handler variable is deliberately renamed and scoped to the handler (NEWS: 'Variables set by (except ...) are "
          "now properly scoped'), so, as for let, only sharing is judged"),
    T("except-variable-shadows", lambda s, t: ("(setv %s 1)\n(try (raise (ValueError 7))\n  (except [%s ValueError]\n"
                                               "    (setv zzres (if (isinstance %s ValueError) 7 %s))))") % (s, t, s, s),
      lambda ms, mt, eq: 7 if eq else 1, None),
    # ---- match
    T("match-capture", lambda s, t: "(match 5 %s (setv zzres %s))" % (s, rd(t)),
      lambda ms, mt, eq: 5 if eq else UNB, _one),
    T("match-as", lambda s, t: "(match 5 _ :as %s (setv zzres %s))" % (s, rd(t)),
      lambda ms, mt, eq: 5 if eq else UNB, _one),
    T("match-star", lambda s, t: "(match [5 6] [#* %s] (setv zzres %s))" % (s, rd(t)),
      lambda ms, mt, eq: [5, 6] if eq else UNB, _one),
    T("match-mapping-rest", lambda s, t: '(match {"a" 1} {#** %s} (setv zzres %s))' % (s, rd(t)),
      lambda ms, mt, eq: {"a": 1} if eq else UNB, _one),
    T("match-keyword-pattern", lambda s, t: '(setv zzres (match zzo (zzC :%s 1) "matched" _ "no-match"))' % t,
      lambda ms, mt, eq: "matched" if eq else "no-match", _none,
      setup=lambda ms, mt, allm: {"zzo": _ns(**{ms: 1}), "zzC": types.SimpleNamespace}),
    T("match-keyword-pattern-capture", lambda s, t: '(setv zzres (match zzo (zzC :%s zzv) zzv _ "no-match"))' % s,
      lambda ms, mt, eq: 9, None, unary=True,
      setup=lambda ms, mt, allm: {"zzo": _ns(**{ms: 9}), "zzC": types.SimpleNamespace}),
]

if sys.version_info < (3, 12):       # (deftype ...) needs Python 3.12
    TEMPLATES = [t for t in TEMPLATES if t.name != "deftype"]

BY_NAME = {t.name: t for t in TEMPLATES}
assert len(BY_NAME) == len(TEMPLATES)


# Python-side presets of each template as source text, for the stand-alone
# snippets in replay files (same content as the setup= functions above).
_SN_OBJ = "mod.zzo = types.SimpleNamespace()"
_SN_METH = "mod.zzo = types.SimpleNamespace(**{ms: lambda: 1})"
_SN_FAKE = "import sys; sys.modules['zzfake'] = types.ModuleType('zzfake'); setattr(sys.modules['zzfake'], ms, 'val:' + ms)"
_SN_MAC = ("import sys; zzm = types.ModuleType('zzfakemac'); "
           "zzm._hy_macros = {m: (lambda m=m: 'val:' + m) for m in (ms, 'foo')}; sys.modules['zzfakemac'] = zzm")
SNIPPET_SETUP = {
    "python-binds-symbol-reads": "mod.__dict__[ms] = 5",
    "with": "import contextlib; mod.zzcm = contextlib.nullcontext(1)",
    "python-dict->keyword-lookup": "mod.zzd = {ms: 1}",
    "python-dict->keyword-object-call": "mod.zzd = {ms: 1}",
    "dotted-setv->dot-form": _SN_OBJ,
    "dot-form-setv->dotted": _SN_OBJ,
    "python-setattr->method-call": _SN_METH,
    "python-setattr->dotted-call": _SN_METH,
    "python-setattr->dot-form-call": _SN_METH,
    "from-import-name": _SN_FAKE,
    "let-then-from-import": _SN_FAKE,
    "from-import-name-as": _SN_FAKE,
    "import-module": "import sys; sys.modules[ms] = types.ModuleType(ms); sys.modules[ms].zzid = 'mod:' + ms",
    "require-name": _SN_MAC,
    "require-as": _SN_MAC,
    "match-keyword-pattern": "mod.zzo = types.SimpleNamespace(**{ms: 1}); mod.zzC = types.SimpleNamespace",
    "match-keyword-pattern-capture": "mod.zzo = types.SimpleNamespace(**{ms: 9}); mod.zzC = types.SimpleNamespace",
}
assert {t.name for t in TEMPLATES if t.setup} <= set(SNIPPET_SETUP)


# --------------------------------------------------------------- execution
def jsonable(x):
    if isinstance(x, (str, int, float, bool)) or x is None:
        return x
    if isinstance(x, (list, tuple)):
        return [jsonable(v) for v in x]
    if isinstance(x, dict):
        return {str(k): jsonable(v) for k, v in x.items()}
    if isinstance(x, (set, frozenset)):
        return sorted(jsonable(v) for v in x)
    return "<%s>" % type(x).__name__


HARNESS_KEYS = {"hy", "__builtins__", "__annotations__", "__all__", "__warningregistry__"}


def is_user_key(k):
    return not (k.startswith("zz") or k.startswith("_hy_") or k in HARNESS_KEYS)


def run_case(tpl, s, t, all_mangled):
    """Run one program in a fresh module.  Returns (observation, expected)."""
    import hy
    from hy.compiler import hy_compile
    from hy.reader import read_many
    import warnings

    ms, mt = hy.mangle(s), hy.mangle(t)
    eq = ms == mt
    text = tpl.prog(s, t)
    presets = {}
    obs = {}
    try:
        if tpl.setup:
            presets = tpl.setup(ms, mt, all_mangled) or {}
        mod = types.ModuleType("zzmod")
        mod.__dict__.update(presets)
        before = set(mod.__dict__)
        try:
            with warnings.catch_warnings():
                warnings.simplefilter("ignore")
                tree = read_many(text, filename="<c34>")
                a = hy_compile(tree, mod, filename="<c34>", source=text)
                code = compile(a, "<c34>", "exec")
                exec(code, mod.__dict__)
            obs["res"] = jsonable(mod.__dict__.get("zzres", "<zzres not set>"))
        except BaseException as e:
            cls = "SyntaxError" if isinstance(e, SyntaxError) else type(e).__name__
            obs["res"] = ["error", cls]
            obs["error_detail"] = ascii("%s: %s" % (type(e).__name__, e))[:300]
        exp = {"res": jsonable(tpl.res(ms, mt, eq))}
        if tpl.new is not None and "error_detail" not in obs:
            obs["new"] = sorted(k for k in set(mod.__dict__) - before if is_user_key(k))
            exp["new"] = sorted(tpl.new(ms, mt))
        if tpl.extra and "error_detail" not in obs:
            for label, got, want in tpl.extra(mod, ms, mt, eq):
                obs[label] = jsonable(got)
                exp[label] = jsonable(want)
    finally:
        if tpl.cleanup:
            tpl.cleanup(ms, mt)
    return text, ms, mt, obs, exp
