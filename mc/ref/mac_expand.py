"""Reference stepper for C36 (hy.macroexpand-1 / hy.macroexpand).

Works on a plain representation of forms, never on Hy's classes:

  ("expr", [children])  ("list", [children])  ("sym", name)  ("int", v)
  ("str", s)  ("kw", name)

Transcribes the docstrings of hy.macroexpand-1 / hy.macroexpand and the
property statement:

  * a form is a macro call iff it is a non-empty expression whose head is a
    symbol naming a macro (a dotted symbol a.b is read as (. a b) and names the
    macro "a.b" -- api.rst, `require`);  names are compared mangled;
  * lookup order: the `macros` argument, then the module, then core macros;
  * macroexpand-1: one expansion if the form is a macro call, else the form;
  * macroexpand: repeat until the form is not a macro call;
  * a core macro that returns compiler results leaves the form as it was
    (and ends the iteration);
  * the value a macro returns is converted with hy.as-model
    (int -> Integer, list -> List, None -> the symbol None).

User macro behaviours (what the check defines them to do):

  ("call", j)  -> (NAME_j ~@args)
  "count"      -> (NAME_i k-1 ~@rest) while the first argument is an integer k > 0, else the symbol `done`
  "arg"        -> its last argument (the symbol `noarg` without arguments)
  a terminal   -> the fixed form TERMINALS[...]
"""

RESULT = "<compiler result>"

NAMES = ["m1", "m2", "m-3", "m4"]


def sym(s):
    return ("sym", s)


def expr(*kids):
    return ("expr", list(kids))


TERMINALS = {
    "if": expr(sym("if"), ("int", 1), ("int", 2), ("int", 3)),
    "setv": expr(sym("setv"), sym("zz"), ("int", 1)),
    "when": expr(sym("when"), ("int", 1), ("int", 2)),
    "callf": expr(sym("f"), ("int", 1)),
    "sym": sym("x"),
    "int": ("int", 3),
    "list": ("list", [("int", 1), ("str", "a")]),
    "empty": expr(),
    "none": sym("None"),
    "dotted": expr(expr(sym("."), sym("P"), sym("mq")), ("int", 1)),
    "nested": expr(expr(sym("m4")), ("int", 1)),
}
TERMINAL_TEXT = {
    "if": "'(if 1 2 3)", "setv": "'(setv zz 1)", "when": "'(when 1 2)", "callf": "'(f 1)", "sym": "'x", "int": "3",
    "list": '[1 "a"]', "empty": "'()", "none": "None", "dotted": "'(P.mq 1)", "nested": "'((m4) 1)",
}

CORE_RESULT = {"if", "setv", "do"}          # core macros (of those used) that return compiler results


def mangle(name):
    """Enough of Hy's mangling for the names used here (hyphen -> underscore, per part)."""
    return ".".join(p.replace("-", "_") if p else p for p in name.split("."))


def head_name(tree):
    if tree[0] != "expr" or not tree[1]:
        return None
    h = tree[1][0]
    if h[0] == "sym":
        return mangle(h[1])
    if h[0] == "expr" and h[1] and h[1][0] == sym(".") and all(x[0] == "sym" for x in h[1]) and len(h[1]) > 1:
        return ".".join(mangle(x[1]) for x in h[1][1:])
    return None


def apply_user(beh, i, args):
    if isinstance(beh, (list, tuple)) and beh[0] == "call":
        return expr(sym(NAMES[beh[1]]), *args)
    if beh == "count":
        if args and args[0][0] == "int" and args[0][1] > 0:
            return expr(sym(NAMES[i]), ("int", args[0][1] - 1), *args[1:])
        return sym("done")
    if beh == "arg":
        return args[-1] if args else sym("noarg")
    if beh == "decoy":
        return sym("decoy")
    if beh == "mq":
        return sym("dotted-done")
    if beh == "user-when":
        return sym("user-when")
    return TERMINALS[beh]


def apply_core(name, args):
    if name == "when":      # "Shorthand for (if test (do ...) None)"
        return expr(sym("if"), args[0], expr(sym("do"), *args[1:]), sym("None"))
    raise KeyError(name)


class Env:
    """extras / module: {mangled name: (index for tick, behaviour)}"""

    def __init__(self, extras, module):
        self.extras = extras or {}
        self.module = module

    def lookup(self, name):
        if name in self.extras:
            return ("user",) + tuple(self.extras[name])
        if name in self.module:
            return ("user",) + tuple(self.module[name])
        if name in CORE_RESULT:
            return ("core-result",)
        if name == "when":
            return ("core-model", name)
        return None


def step(tree, env, ticks):
    """-> None (not a macro call) | RESULT | the expansion"""
    name = head_name(tree)
    if name is None:
        return None
    hit = env.lookup(name)
    if hit is None:
        return None
    if hit[0] == "core-result":
        return RESULT
    args = tree[1][1:]
    if hit[0] == "core-model":
        return apply_core(hit[1], args)
    _, idx, beh = hit
    ticks.append(idx)
    return apply_user(beh, idx, args)


def macroexpand_1(tree, env):
    ticks = []
    s = step(tree, env, ticks)
    if s is None or s == RESULT:
        return tree, ticks, ("no-macro" if s is None else "core-result")
    return s, ticks, "one-step"


def macroexpand(tree, env, limit=50):
    ticks = []
    n = 0
    while True:
        s = step(tree, env, ticks)
        if s is None:
            return tree, ticks, "fixpoint-after-%d" % min(n, 4)
        if s == RESULT:
            return tree, ticks, "core-result-after-%d" % min(n, 4)
        tree = s
        n += 1
        if n > limit:
            raise RuntimeError("reference stepper: no fixpoint")
