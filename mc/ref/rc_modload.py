"""rc_modload — worker-side helpers for C15/C16/C41: generated source files in
the scratch directory, deterministic mtimes, imports through the real import
system with "was it compiled?" observed through HY_MESSAGE_WHEN_COMPILING
(docs/env_var.rst), and clean environments for subprocesses."""
import contextlib
import importlib
import io
import os
import sys

BASE_MTIME = 1_600_000_000
_state = {"dir": None, "n": 0}


def scratch():
    """A per-process directory under MC_SCRATCH (never under /repo or /verif)."""
    if _state["dir"] is None:
        root = os.environ.get("MC_SCRATCH")
        if not root:
            import tempfile
            root = tempfile.mkdtemp(prefix="hyverif-rc-")
        d = os.path.join(root, "rc_%d" % os.getpid())
        os.makedirs(d, exist_ok=True)
        _state["dir"] = d
    return _state["dir"]


def fresh_dir(tag="d"):
    _state["n"] += 1
    d = os.path.join(scratch(), "%s%d" % (tag, _state["n"]))
    os.makedirs(d)
    return d


def fresh_id():
    _state["n"] += 1
    return "%d_%d" % (os.getpid(), _state["n"])


def write(path, text, mtime=BASE_MTIME):
    with open(path, "w", encoding="utf-8") as f:
        f.write(text)
    os.utime(path, (mtime, mtime))


def touch(path, delta=10):
    """Change the modification time (by whole seconds: the .pyc records the
    source mtime in seconds) without changing the content."""
    st = os.stat(path)
    t = int(st.st_mtime) + delta
    os.utime(path, (t, t))


@contextlib.contextmanager
def on_sys_path(d):
    sys.path.insert(0, d)
    importlib.invalidate_caches()
    try:
        yield
    finally:
        try:
            sys.path.remove(d)
        except ValueError:
            pass
        sys.path_importer_cache.pop(d, None)


STAGE = ["R"]


@contextlib.contextmanager
def stage_hook():
    """While active, STAGE[-1] is "C" during SourceFileLoader.get_code (where a
    source file is compiled or its cached bytecode is read) and "R" otherwise."""
    from importlib.machinery import SourceFileLoader
    had = "get_code" in SourceFileLoader.__dict__
    orig = SourceFileLoader.get_code

    def get_code(self, fullname):
        STAGE.append("C")
        try:
            return orig(self, fullname)
        finally:
            STAGE.pop()

    SourceFileLoader.get_code = get_code
    try:
        yield
    finally:
        if had:
            SourceFileLoader.get_code = orig
        else:
            del SourceFileLoader.get_code


def load(name, drop=()):
    """Drop `name` and `drop` from sys.modules and import `name`.
    -> (module | None, exception | None, [paths reported as "Compiling"], other stderr text)"""
    for n in (name,) + tuple(drop):
        sys.modules.pop(n, None)
    importlib.invalidate_caches()
    err = io.StringIO()
    old = os.environ.get("HY_MESSAGE_WHEN_COMPILING")
    os.environ["HY_MESSAGE_WHEN_COMPILING"] = "1"
    mod, exc = None, None
    try:
        with contextlib.redirect_stderr(err):
            try:
                mod = importlib.import_module(name)
            except BaseException as e:   # noqa
                if isinstance(e, (KeyboardInterrupt, SystemExit)):
                    raise
                exc = e
    finally:
        if old is None:
            os.environ.pop("HY_MESSAGE_WHEN_COMPILING", None)
        else:
            os.environ["HY_MESSAGE_WHEN_COMPILING"] = old
    compiled, other = [], []
    for line in err.getvalue().splitlines():
        if line.startswith("Compiling "):
            compiled.append(line[len("Compiling "):])
        else:
            other.append(line)
    return mod, exc, compiled, "\n".join(other)


def sub_env(extra=None):
    """Environment for a subprocess running the tree under test: bytecode
    writing enabled, cache prefix under MC_SCRATCH, PYTHONPATH = the tree."""
    env = dict(os.environ)
    env.pop("PYTHONDONTWRITEBYTECODE", None)
    env.pop("HYSTARTUP", None)
    root = os.environ.get("MC_SCRATCH") or scratch()
    pfx = os.environ.get("PYTHONPYCACHEPREFIX")
    if not pfx or not os.path.abspath(pfx).startswith(os.path.abspath(root)):
        pfx = os.path.join(root, "rc_pyc")
    env["PYTHONPYCACHEPREFIX"] = pfx
    env["PYTHONPATH"] = os.environ.get("VERIF_REPO", "/repo")
    env["PYTHONHASHSEED"] = "0"
    env.pop("HY_MESSAGE_WHEN_COMPILING", None)
    if extra:
        env.update(extra)
    return env


def hy_cmd():
    """The `hy` command line program as an argv prefix: the console script next
    to the interpreter (it imports hy through sys.path, so PYTHONPATH selects
    the tree under test), else `python -m hy`."""
    exe = os.path.join(os.path.dirname(sys.executable), "hy")
    if os.path.exists(exe):
        return [exe]
    return [sys.executable, "-m", "hy"]
