"""Reference model for C37: a reader-macro table that is updated only BETWEEN
top-level forms.

Transcribes docs/macros.rst ("Reader macros"), api.rst (`require ... :readers`)
and the docstring of hy.read-many:

  * each top-level form is read completely, with the reader macros known at
    that moment, and only then evaluated;  a definition made by a form is
    therefore usable by every LATER top-level form of the stream and by no
    part of the form that contains it;
  * using a reader macro that is not defined (yet) is a syntax error
    (LexException: reader macro '#x' is not defined);
  * a reader macro that returns None produces no form, "as if the reader-macro
    call wasn't there";
  * (require B :readers [x]) / :readers * bring B's reader macros in;
  * reader macros are per module (_hy_reader_macros) and per reader: another
    module read with a fresh reader starts with none of them.

Items of a stream (JSON-able lists; i = position, K = base + i):

  ["defm", x]   (defreader x 'K)                                   returns a model
  ["defn", x]   (defreader x)                                      returns None
  ["defr", x]   (defreader x (setv f (.parse-one-form &reader)) `[K ~f])   reads one form
  ["use", x]    (rec #x 5)
  ["top", x]    #x 6                                               at top level
  ["reqr", [x]] (require HELPER :readers [x])
  ["reqstar"]   (require HELPER :readers *)
  ["plain"]     (rec 0)
  ["douse", x]  (do (defreader x 'K) (rec #x 5))                   define + use in ONE form

A behaviour is ("m", K) | ("n",) | ("r", K).
"""

HELPER = "mrd_b"
HELPER_TABLE = {"r": ("m", 901), "s": ("r", 902)}
HELPER_SRC = "(defreader r '901)\n(defreader s (setv f (.parse-one-form &reader)) `[902 ~f])\n"


def item_text(item, k):
    kind = item[0]
    if kind == "defm":
        return f"(defreader {item[1]} '{k})"
    if kind == "defn":
        return f"(defreader {item[1]})"
    if kind == "defr":
        return f"(defreader {item[1]} (setv f (.parse-one-form &reader)) `[{k} ~f])"
    if kind == "use":
        return f"(rec #{item[1]} 5)"
    if kind == "top":
        return f"#{item[1]} 6"
    if kind == "reqr":
        return f"(require {HELPER} :readers [{' '.join(item[1])}])"
    if kind == "reqstar":
        return f"(require {HELPER} :readers *)"
    if kind == "plain":
        return "(rec 0)"
    if kind == "douse":
        return f"(do (defreader {item[1]} '{k}) (rec #{item[1]} 5))"
    raise ValueError(item)


def stream_text(items, base):
    return "\n".join(item_text(it, base + i) for i, it in enumerate(items)) + "\n"


def _apply(beh, following):
    """Text that `#x FOLLOWING` stands for (FOLLOWING = the next form's text)."""
    if beh[0] == "m":
        return f"{beh[1]} {following}"
    if beh[0] == "n":
        return following
    return f"[{beh[1]} {following}]"


def _rec_value(beh):
    if beh[0] == "m":
        return [beh[1], 5]
    if beh[0] == "n":
        return [5]
    return [[beh[1], 5]]


class ReaderStream:
    def __init__(self):
        self.table = {}      # what the stream's reader knows
        self.module = {}     # the module's _hy_reader_macros
        self.from_helper = set()

    def run(self, items, base):
        """-> dict(plain_texts = [text each successfully read item stands for, reader macros substituted],
                   recs = [...], error_at = None | index, uses = number of reader-macro uses resolved)"""
        texts, recs, uses = [], [], 0
        for i, it in enumerate(items):
            k = base + i
            kind = it[0]
            # 1. read the whole top-level form with the table as it is now
            if kind in ("use", "top", "douse"):
                beh = self.table.get(it[1])
                if beh is None:
                    return dict(plain_texts=texts, recs=recs, error_at=i, uses=uses)
                uses += 1
                if kind == "use":
                    texts.append(f"(rec {_apply(beh, '5')})")
                    recs.append(_rec_value(beh))
                elif kind == "top":
                    texts.append(_apply(beh, "6"))
                else:
                    texts.append(f"(do (defreader {it[1]} '{k}) (rec {_apply(beh, '5')}))")
                    recs.append(_rec_value(beh))
            else:
                texts.append(item_text(it, k))
                if kind == "plain":
                    recs.append([0])
            # 2. evaluate it: definitions take effect for later forms
            if kind in ("defm", "douse"):
                self._define(it[1], ("m", k))
            elif kind == "defn":
                self._define(it[1], ("n",))
            elif kind == "defr":
                self._define(it[1], ("r", k))
            elif kind == "reqr":
                for x in it[1]:
                    self._define(x, HELPER_TABLE[x], True)
            elif kind == "reqstar":
                for x in HELPER_TABLE:
                    self._define(x, HELPER_TABLE[x], True)
        return dict(plain_texts=texts, recs=recs, error_at=None, uses=uses)

    def _define(self, name, beh, helper=False):
        self.table[name] = beh
        self.module[name] = beh
        if helper:
            self.from_helper.add(name)
        else:
            self.from_helper.discard(name)
